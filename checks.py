# Per-property run configuration, exec'd by ./check.  tier tuple = (shards, rapid checks per shard, timeout seconds)
prop("C19", run="^TestC19", level="exploration",
     quick=(1, 20000, 300), thorough=(16, 200000, 1800),
     rule="every constant declared in primitive/constants.go (read from the working tree) plus full 8/16-bit domains, "
          "32-bit neighbourhoods / all 2^32 (thorough), near-miss and rapid-generated strings, every asserted cell of the "
          "spec capability table, all 256 version numbers; every case is non-trivial (each is one (type,value) or "
          "(predicate,version) obligation); distinct by (type,value) - enumerated sub-spaces are distinct by construction",
     assumptions=["capability table typed in from specs/*.spec (DESIGN.md Appendix A); '?' cells not asserted",
                  "constants are read from primitive/constants.go with go/types; a constant type without a harness entry is reported in notes, not checked"])
