# Per-property run configuration and manifest texts, exec'd by ./check.
# tier tuple = (shards, rapid checks per shard, timeout seconds)

FRAME_GEN = ("frames generated version-valid by construction (gen.Frame: 43 message kinds x 6 versions, optional fields only where the "
             "version's specification defines them, boundary-biased values incl. [short bytes] ids of 255/256/32767/32768/65535 bytes, bodies up to ~256 KiB expanded from (class,seed,length) triples) "
             "x compression allowed for the version")

prop("C01", run="^TestC01", level="exploration",
     quick=(16, 2500, 900), thorough=(16, 60000, 7200),
     rule=FRAME_GEN + "; oracle: encode, decode, canonical equality (nil==empty collections, IPv4 4/16 bytes), the bytes read through a generated reader kind (*bytes.Reader, *bytes.Buffer, bufio.Reader, plain io.Reader, short reads) and half of the time followed by further stream bytes that must stay unread, input not modified, "
          "plus message-level Encode/Decode; non-trivial = frame has an optional body part/header flag or a message body > 8 bytes; distinct by canonical frame hash x compression",
     assumptions=["equality is canon.Diff: strict except nil/empty collections, nil/empty [short bytes], IPv4 in 4 or 16 bytes, nil *QueryOptions = defaults",
                  "documented preconditions are respected by the generator (page size >= 0, positional xor named values, non-empty ids/keyspaces)"],
     text="Randomised exploration of the round-trip law over constructively generated version-valid frames, all versions, message kinds and compressors; finds symmetric-free encode/decode disagreements, not symmetric ones (C02 does that).",
     note="Trusted: the generator's version gating (typed in from the specs) and canon's equality. Open finding DEP-lz4-offset-wrap-65536 is excluded on the exact bytes the compressor emitted.",
     technique="property-based testing (rapid): round-trip oracle over constructive version-aware frame generators", design="DESIGN.md 4 C01")

prop("C03", run="^TestC03", level="exploration",
     quick=(16, 1200, 900), thorough=(16, 30000, 7200),
     rule=FRAME_GEN + "; streams of 1..8 frames on one (version, compression) followed by sentinel bytes, decoded through a generated reader kind (*bytes.Buffer, *bytes.Reader, bufio.Reader, counting reader, short reads) with exact per-frame consumption; one frame in three is edited after its first encoding (tracing id / warnings / payload toggled, message replaced, named values added next to positional ones - documented as tolerated, the positional ones win) and encoded again from the same Frame object; before one frame in four the codec is first asked to encode a frame it must refuse half-way through its body (a nil value after a regular one); half of the streams are encoded frame after frame into ONE *bytes.Buffer whose earlier bytes must not change, one stream in three ends with its last frame instead of sentinel bytes, frames refused at the header stage (v2, stream id 300) or by a destination that fails after 0..40 bytes are encoded in between; TestC03MutatedTypes: a UDT/tuple/list/map/custom type object changed in place between two encodings of the Rows/Prepared frame that refers to it; every primitive LengthOf*/Write* pair on generated values; "
          "vint boundary table (2^k-1,2^k,2^k+1, k=0..64, both signs); non-trivial = stream has >= 2 frames or a body-prefix part / primitive encoding > 2 bytes; distinct by stream bytes hash",
     assumptions=["a frame's consumed length is measured by the source's own remaining-length (bytes.Buffer/Reader), or a counting reader minus what bufio still buffers"],
     text="Randomised exploration of length agreement (header vs emitted, EncodedLength vs Encode, LengthOf* vs Write*) and of exact stream consumption over generated frame sequences.",
     note="Trusted: gen.Frame version gating. Frames hit by the open LZ4 dependency finding are skipped (counted).",
     technique="property-based testing (rapid): length/consumption invariants over generated frames, frame sequences and primitive values", design="DESIGN.md 4 C03")

prop("C05", run="^(TestC05|FuzzC05$)", level="exploration", fuzz=("FuzzC05", 300),
     quick=(12, 400, 900), thorough=(12, 10000, 7200),
     rule=FRAME_GEN + " through the paths DecodeRawFrame+ConvertFromRawFrame, DecodeHeader+DecodeBody, DecodeHeader+DecodeRawBody, DecodeHeader+DiscardBody (seekable and not), "
          "ConvertToRawFrame+EncodeRawFrame, EncodeBody+EncodeHeader, each compared with DecodeFrame and each required to stop exactly at a sentinel; raw frames and frames decoded from a *bytes.Buffer must survive the caller reusing that buffer; a raw frame that was inspected (ConvertFromRawFrame) must forward (EncodeRawFrame) to the bytes it came from and convert again to the same frame; other frames are converted and encoded between ConvertToRawFrame and EncodeRawFrame; "
          "on a header re-declaring a negative or shorter body length DecodeRawBody, DiscardBody(seekable) and DiscardBody(stream) must agree (all refuse / all consume exactly that many bytes); re-encode clause on valid and mutated "
          "(flag/opcode/version/bit-flip/byte-set/trailing-garbage) inputs that still decode; non-trivial = non-empty body (paths) / mutated input that differs from the encoder's output (re-encode); distinct by frame or input hash. "
          "Coverage-guided stage for the re-encode clause: native fuzz target FuzzC05(compressor, bytes) with the decode-encode-decode oracle inside; seed corpus (generated frames + committed corpus) replayed in both tiers, 300 s of fuzzing on all cores in the thorough tier, saved inputs confirmed in the isolated worker",
     assumptions=["compressed body lengths of frames containing wire maps may differ between two encodings (map order is free); uncompressed lengths must agree",
                  "an encode error on a mutated-but-decodable input is counted, not judged (the property presupposes the re-encode)"],
     text="Metamorphic exploration: every partial path must agree with the full codec on generated frames, and decode-encode-decode must be stable on generated and mutated wire inputs.",
     note="Trusted: canon equality. Panics during the first decode of a mutated input are C04's business and not judged here.",
     technique="property-based testing (rapid): metamorphic relations between partial and full codec paths; byte-level mutation and coverage-guided native fuzzing (thorough tier) for the re-encode clause", design="DESIGN.md 4 C05, 7.6")

prop("C19", run="^TestC19", level="exploration",
     quick=(1, 20000, 300), thorough=(16, 200000, 10800),
     rule="every constant declared in primitive/constants.go (read from the working tree) plus full 8/16-bit domains, "
          "32-bit neighbourhoods / all 2^32 (thorough), near-miss and rapid-generated strings, every asserted cell of the "
          "spec capability table, all 256 version numbers; the version-list helpers (Supported*ProtocolVersions and the four comparisons x 6 pivots) against the spec list, three rounds with the caller overwriting every slice it was given, followed by the 8-bit IsSupported sweep; every case is non-trivial (each is one (type,value) or "
          "(predicate,version) obligation); distinct by (type,value) - enumerated sub-spaces are distinct by construction",
     assumptions=["capability table typed in from specs/*.spec (DESIGN.md Appendix A); '?' cells not asserted",
                  "constants are read from primitive/constants.go with go/types; a constant type without a harness entry is reported in notes, not checked"],
     text="Exhaustive sweep of the 8/16-bit code domains (and all 2^32 values of the 32-bit code types in the thorough tier) against the constants read from the source, generated near-miss strings, and every asserted cell of the spec-derived capability table; exhaustive where the space is finite, sampled elsewhere.",
     note="Trusted: the capability table typed in from specs/*.spec (Appendix A); go/types reading primitive/constants.go.",
     technique="property-based testing: exhaustive domain enumeration + rapid-generated values against a declared-set oracle and a spec-derived table",
     design="DESIGN.md 4 C19, Appendix A", exhaustive_claim=False)

prop("C20", run="^TestC20", level="exploration",
     quick=(8, 1500, 600), thorough=(16, 40000, 3600),
     rule="rapid-generated sequences of 1..12 mutator calls (SetCustomPayload/SetWarnings/SetTracingId/RequestTracingId/SetCompress with nil, empty and non-empty arguments, restricted to what the method docs allow for direction and version) "
          "on frames of every message kind and version, checked after every step against a presence model and by an encode/decode round trip; sequences of 1..14 Startup setter/getter calls against a model map; "
          "non-trivial = a set followed by a clear, or SetCompress(true) on STARTUP/OPTIONS/READY, or >= 2 different accessors; distinct by (kind, version, call history)",
     assumptions=["SetThrowOnOverload may represent 'false' by deleting its own key or storing any non-\"1\" value; only the getter and the other keys are asserted"],
     text="Model-based stateful exploration of mutator and accessor histories with an invariant after every step.",
     note="Trusted: the presence model (flag <=> non-empty part; COMPRESSED <=> last SetCompress(true) and opcode not STARTUP/OPTIONS/READY).",
     technique="stateful property-based testing (rapid): model-based mutator/accessor sequences with per-step invariant", design="DESIGN.md 4 C20")

prop("C02", run="^TestC02", level="exploration",
     quick=(16, 2000, 900), thorough=(16, 60000, 7200),
     rule=FRAME_GEN + " (write types restricted to those the version's spec text lists); oracle: independent reference encoder written from specs/*.spec - header byte-exact, body byte-exact modulo order of wire-map entries "
          "(compressed bodies: independent LZ4/Snappy decoders must recover a reference-conforming body, LZ4 length prefix big-endian); reference bytes with generated map-entry orders and independently "
          "compressed (literal-only) bodies must decode to the frame; specification-legal forms the library never emits (per-column table specs with the global flag clear, v2 type option 0x000A Text, non-0/1 true bytes) must decode to the frame they denote; "
          "every optional-field subset of QueryOptions / Batch / RowsMetadata per version is enumerated against the reference in both directions; plus the exhaustive 256x256 (version byte, opcode) header sweep against a typed-in accept/reject table through DecodeHeader and DecodeFrame; "
          "non-trivial = body has >= 2 annotated fields; distinct by reference bytes hash; header sweep distinct by construction",
     assumptions=["the reference encoder (harness/ref, ~900 lines) is trusted base; it reads library structs as plain data and computes flags/counts/lengths itself",
                  "flag choice global_tables_spec mirrors the library (the spec leaves it to the encoder)",
                  "Appendix A '?' cells (write types CAS/VIEW/CDC outside v5, MOVED_NODE after v3) are not asserted"],
     text="Differential exploration against an independent spec-derived codec in both directions, plus an exhaustive sweep of the finite header space for the rejection clause.",
     note="Trusted: harness/ref (frame.go, wire.go, lz4.go) typed in from the six specification files; disagreements were triaged against the spec text (DESIGN.md 6).",
     technique="differential property-based testing (rapid) against a spec-derived reference encoder; exhaustive enumeration of the 2^16 header space", design="DESIGN.md 4 C02, 3.3")

prop("C06", run="^TestC06", level="exploration",
     quick=(8, 600, 900), thorough=(16, 20000, 7200),
     rule="segment payloads: length from boundaries {0,1,2,3,15,16,255,256,65535,65536,65537,131070,131071} / 0..300 / uniform 0..131071 (thorough: additionally EVERY length 0..131071 once per content class and configuration) "
          "x content class (all-equal, short period, text, random, half/half, random with a short compressible tail) x computed fields of the input Segment zero or junk (documented as not read) x self-contained flag x {no compressor, LZ4}; oversize payloads 131072..1 MiB for the refusal clause. Oracle: emitted bytes parsed by an independent "
          "implementation of header packing, CRC-24 and seeded CRC-32 (bitwise, no tables); uncompressed segments byte-exact; LZ4: fallback form or a block the independent LZ4 decoder expands to the payload; round trip incl. header "
          "length fields; the payload is handed over as a sub-slice of a larger buffer that must stay untouched inside and behind the slice; second use of objects: the Segment just encoded gets another payload and is encoded again, the segment just decoded is forwarded through the codec of the other kind - both must equal a fresh object's encoding; conforming segments built by the reference encoder (fallback and run-length LZ4) must decode. Non-trivial = payload length > 0; distinct by (length, class, seed, flag, compressor)",
     assumptions=["the uncompressed fallback is signalled by uncompressed-length field = 0 and the payload length in the compressed-length field (the property's anchor and Cassandra's encoder); the literal sentence of spec 2.3.2 ('setting the compressed length to 0') contradicts the layout and is not asserted",
                  "harness/ref/segment.go and harness/ref/lz4.go are trusted base"],
     text="Differential + round-trip exploration of the v5 segment layer against an independent framing/CRC/LZ4 implementation; the thorough tier enumerates every payload length.",
     note="Trusted: ref.CRC24, ref.CRC32, ref.SegmentHeader/ParseSegment, ref.LZ4DecodeBlock written from the v5 spec and the LZ4 block format.",
     technique="property-based testing (rapid) + exhaustive length enumeration: round trip and differential against a reference framing/CRC/LZ4 implementation", design="DESIGN.md 4 C06")

prop("C07", run="^TestC07", level="fault_enumeration",
     quick=(8, 4000, 900), thorough=(16, 300000, 10800),
     rule="faults on encoded segments: header+CRC-24 bit patterns - quick: all of weight 1..3 over the 48/64 bits of 10 base segments + rapid-sampled weights 1..7 on generated headers; thorough: all weights 1..7 (48-bit base) / 1..6 (64-bit base) / 1..4 (other bases); "
          "payload+CRC-32: every single-bit flip, every pair (payloads <= 256 B), every burst start x length 1..32 x 4 interior masks on payloads of 0..255 (thorough ..4096) bytes, rapid-sampled singles/pairs/bursts on payloads up to 131071 bytes, with and without LZ4. "
          "structured alterations on generated segments (CRC-24 / CRC-32 bytes in every other order, complemented, zeroed - the header CRC also together with a flip of the self-contained flag; any two header bytes exchanged) kept to the guaranteed range; the codec under attack has decoded the intact segment before (and keeps doing so). "
          "Header faults are followed by a lazily built tail valid for the lengths the altered header declares. Every case alters >= 1 bit (all non-trivial); distinct by (base, pattern) - enumerations are distinct by construction",
     assumptions=["burst bits are numbered in wire order, least-significant bit of each byte first (the order in which the reflected CRC-32 is a polynomial code)",
                  "the consistent tail uses Go's hash/crc32 and a literal-only LZ4 block; a few compressed lengths have no single-sequence literal block and get a zero tail"],
     text="Fault enumeration: exhaustive low-weight header error patterns and exhaustive single/pair/burst payload errors on representative segments, sampled beyond; every altered segment must be refused with a nil segment.",
     note="Trusted: the fault injector and tail builder; decisions are black-box (error + nil segment).",
     technique="fault enumeration + rapid-sampled faults: exhaustive bit-flip patterns against the decoder's reject oracle", design="DESIGN.md 4 C07")

prop("C08", run="^TestC08", level="exploration",
     quick=(16, 400, 900), thorough=(16, 12000, 7200),
     rule="TestC08Frames: OPTIONS / READY (COMPRESSED flag set directly, as the server stub does), AUTH_RESPONSE / AUTH_CHALLENGE tokens and QUERY strings of 0..40 bytes or up to 300000 bytes, encoded with LZ4 / Snappy and without: same decoded content. byte strings: sizes 0..16, 2^k+-1 (k=4..24), 0..5000, uniform up to 131071 (raw LZ4) / 1 MiB, 10% up to 4 MiB (thorough 16 MiB) x content class (all-equal, short period, text, random, half/half, long run + random tail; compression ratio class recorded) "
          "x format {LZ4 raw, LZ4 with length, Snappy with length}. Oracle: D(C(x)) == x, LZ4 length prefix big-endian len(x), independent reference decoders expand the library's output to x, and the library expands blocks from independent encoders "
          "(literal-only, run-length) to x. Non-trivial = len >= 1; distinct by (format, content hash)",
     assumptions=["frame/segment-level 'compressed decodes like uncompressed' is exercised by C01/C06 on the same compressors"],
     text="Round-trip and cross-decoding exploration of both compressors in both formats across size and compressibility classes.",
     note="Trusted: ref.LZ4DecodeBlock, ref.SnappyDecodeBlock and the two reference encoders. Open finding DEP-lz4-offset-wrap-65536 excluded on the exact emitted block.",
     technique="property-based testing (rapid): round trip + differential against independent LZ4/Snappy block codecs", design="DESIGN.md 4 C08")

VALUE_GEN = ("(CQL type tree: 20 scalars + custom + list/set/map/tuple/UDT nested to depth 2 (thorough 4), width <= 4, gated by version) x protocol version x a Go representation drawn per node from the datacodec doc.go table "
             "(sized ints/uints, *big.Int, string, []byte, []rune, bool, floats, *big.Float, time.Time, time.Duration, net.IP, UUID, [16]byte, CqlDecimal, CqlDuration, slices/arrays/maps/structs built with reflect, "
             "map[string]interface{}, []interface{}, pointers and interface{} wrappers) x a boundary-biased abstract value the representation can hold exactly (the documented lossless domain), nulls at nillable nested positions from v3")

prop("C11", run="^TestC11", level="exploration",
     quick=(16, 6000, 900), thorough=(16, 150000, 7200),
     rule=VALUE_GEN + "; oracle: Encode succeeds, Decode into a fresh value of the same representation succeeds with wasNull=false and reads back (type-directed, through pointers/interfaces) to the same abstract value; "
          "decode into *interface{} yields the same value and the documented PreferredGoType; the encoded bytes must not change when another value is encoded afterwards, and after the decoded results have been overwritten in place by their owner a second decode of the same bytes must still deliver the value (no shared state). "
          "1 case in 16 is a collection whose elements sit at the [short]/[int] length boundaries (32767, 32768, 65535; 65536, 70000 from v3); time.Time values are presented in UTC and six fixed zones. Non-trivial = composite type or non-zero value; distinct by (type, version, representation, value)",
     assumptions=["v2 values keep every element below 65536 bytes (nested collections of the general generator below 2000 bytes per leaf so that their parents fit) and carry no null elements (the format cannot express them)",
                  "map keys: no NaN, +0/-0 identified (Go map semantics); interface{}-typed keys/fields only where the preferred Go type exists and is hashable",
                  "pre-filled map destinations are not asserted (decoding into a non-empty Go map merges, as encoding/json does)"],
     text="Randomised round-trip exploration over type trees x versions x every accepted Go representation x boundary values, typed and untyped destinations.",
     note="Trusted: gen.ToGo/FromGo (representation builder/reader) and the representation table typed in from datacodec/doc.go.",
     technique="property-based testing (rapid): round trip over constructive type/representation/value generators with reflective sources and destinations", design="DESIGN.md 4 C11, 3.5")

prop("C12", run="^TestC12", level="exploration",
     quick=(16, 5000, 900), thorough=(16, 120000, 7200),
     rule=VALUE_GEN + "; oracle: the library's bytes are read by an independent deserializer written from spec sections 5/6 (+ v2 collection format) to the same abstract value and re-serialized to exactly the same bytes; map-free types compared byte-exact "
          "with the independent serialization of the source value; reference bytes with generated map-entry orders must decode to the value. Decode-only spec-legal forms: boolean true as any non-zero byte, UDT values with fewer trailing fields "
          "than the type (missing = null); the varint example table of spec 5.24 as fixed points in both directions. Non-trivial = composite or non-zero / short UDT / byte > 1; distinct by case hash",
     assumptions=["harness/ref/value.go is trusted base (serializer + strict deserializer, ~400 lines)", "zero-length 'empty' values of non-string types have no Go denotation and are not asserted"],
     text="Differential exploration against an independent spec-derived value serializer/deserializer in both directions.",
     note="Trusted: ref.SerializeValue / ref.DeserializeValue typed in from native_protocol_v5.spec sections 5 and 6 and native_protocol_v2.spec section 6.",
     technique="differential property-based testing (rapid) against a spec-derived CQL value serializer", design="DESIGN.md 4 C12, 3.6")

prop("C13", run="^TestC13", level="exploration",
     quick=(4, 20000, 600), thorough=(16, 400000, 3600),
     rule="all 11 CQL numeric types {tinyint, smallint, int, bigint, counter, varint, date, time, timestamp, float, double} x 15 Go kinds {int..int64, uint..uint64, *big.Int, float32, float64, *big.Float, string} x both directions x value/pointer sources "
          "x ~150 boundary values (2^k+-{0,1,2} both signs for k=0,7,8,15,16,24,31,32,53,63,64,65,100; NaN, +-Inf, MaxFloat32*2, 2^53+1, 0.1 ...) exhaustively, duration months/days/nanos beyond 32/64-bit on the wire, plus rapid-drawn integers (<=136 bits) and float bit patterns. "
          "Oracle: arbitrary precision - success => exact (encode judged by the independent deserializer, decode by reading the destination); errors always acceptable, panics never. Non-trivial = the conversion was attempted (the Go kind / CQL type can carry the value); distinct by (CQL type, Go kind, value)",
     assumptions=["for date/time/timestamp a Go string is a formatted date, not a number: not part of this property", "-0 and +0 are the same mathematical value"],
     text="Exhaustive enumeration of conversion pairs at boundary values plus randomised values, judged by arbitrary-precision arithmetic.",
     note="Trusted: math/big and ref.DeserializeValue/SerializeValue for the wire side.",
     technique="property-based testing: exhaustive (type pair x boundary) enumeration + rapid values against a big-number oracle", design="DESIGN.md 4 C13", exhaustive_claim=False)

prop("C14", run="^TestC14", level="exploration",
     quick=(4, 15000, 600), thorough=(16, 300000, 3600),
     rule="enumerated: 21 scalar codecs x 6 versions x every accepted nil source (untyped nil, nil pointer of every accepted type, nil slices and pointers to nil slices) -> must encode to (nil,nil); x every accepted destination type + *interface{} pre-filled non-zero -> Decode(NULL) must report wasNull, no error, zero value. "
          "Generated (rapid): nested types x representations: nil composite sources, NULL into pre-filled composite destinations, a NULL forced at a drawn element/field position (round trip typed and untyped from v3; refusal for v2 collections). Every case is non-trivial; distinct by (codec, Go type, position)",
     assumptions=["an empty (zero-length) byte string is not asserted to be NULL or non-NULL"],
     text="Exhaustive enumeration of nil sources / null destinations for scalars plus randomised nested null placement.",
     note="Trusted: gen value engine; the accepted-type table typed in from datacodec/doc.go and the codecs' type switches.",
     technique="property-based testing: exhaustive scalar enumeration + rapid-generated nested null placement", design="DESIGN.md 4 C14")

prop("C17", run="^TestC17", level="exploration",
     quick=(16, 40, 900), thorough=(16, 2500, 7200),
     rule="every type with a deep-copy operation (66 registry entries, checked against the DeepCopy* receivers found in the working tree) x values filled reflectively from rapid draws (all exported fields; pointers non-nil 90%; slices/maps nil, empty or 1..3 elements, "
          "slices with spare capacity, byte strings of 65535..200000 bytes now and then; interface fields holding random registry members, nested to depth ~4) x every available operation (DeepCopy, DeepCopyInto a zero value, DeepCopyInto a shallow copy of the source, DeepCopyMessage, DeepCopyDataType); one pair of same-typed reference fields in four holds the SAME object in the source; byte arrays are all-zero one time in six. Oracle: reflect.DeepEqual(copy, original); every mutable location reachable "
          "from the copy (slice elements first/last, append within capacity, nil-ing elements, map replace/delete/insert, pointer targets, nested structs; up to 400 mutations per value) is mutated while a full dump of the original must not change; then the reverse. "
          "Non-trivial = the value has at least one pointer/slice/map populated; distinct by (type, value hash); TestC17AllTypes runs every registry type each run",
     assumptions=["datatype.PrimitiveType has only an unexported field and is used through shared exported singletons: not mutable through the API, only equality is checked"],
     text="Randomised exploration with a reflective filler and an exhaustive-per-value mutation walker, over an exhaustive list of copy-capable types.",
     note="Trusted: the reflective filler/mutation walker and canon.RenderFull as the observation function.",
     technique="property-based testing (rapid): reflective value generation + mutation non-interference oracle over all copy-capable types", design="DESIGN.md 4 C17", exhaustive_claim=False)

prop("C04", run="^(TestC04|FuzzC04$)", level="exploration", fuzz=("FuzzC04", 420),
     quick=(16, 600, 1200), thorough=(16, 30000, 10800),
     rule="hostile inputs for every decoding entry point of DESIGN.md Appendix B (frame x7 x {none,lz4,snappy}, 17 message codecs x 6 versions (also decoded under a different version), query/continuous-paging options, type descriptors incl. 524287-level nesting, "
          "22 primitive readers + ParseUuid, segments +-LZ4 with recomputed CRCs, lz4/snappy decompressors, datacodec.Decode for generated types into same-representation / other-representation / *interface{} / preferred / 14 deliberately wrong destinations, AuthCredentials.Unmarshal): "
          "a valid encoding (from the reference encoders, with field annotations) mutated by: annotated length/count/code/flags field := {-1,-2,MinInt32,0,1,2,0x7f,0x80,0xff,0x7fff,0x8000,0xffff,2^24,MaxInt32, true+-1, random} (one or two fields), truncation at a drawn offset, bit flip, byte insert/delete, "
          "splice with another valid encoding, re-wrapping as an independently compressed body, or random bytes (0..64 KiB, occasionally 1 MiB); plus SWEEPS: for every 100th (thorough 25th) generated base encoding (frame, message, descriptor, value families) EVERY truncation point (all prefixes up to 2 KiB, beyond every field boundary +-1) "
          "and EVERY annotated field (<= 24 per base, evenly spread) x every hostile value and its own value +-1, batched in one worker call that resumes behind items lost to memory exhaustion (base left after 16 such items). Each call runs in a worker process (3 GiB address space). Oracle: returns value or error; recovered panic, worker death not caused by memory exhaustion, or no return within 60 s twice = violation. "
          "Non-trivial = input differs from the valid encoding; distinct by (entry point, input hash). "
          "Coverage-guided stage: the native fuzz target FuzzC04(sel, data) runs the same entry-point table in-process with the same oracle; its seed corpus (400 valid encodings from the same generators + the committed corpus harness/props/testdata/fuzz/FuzzC04) is replayed as plain cases in both tiers; "
          "the thorough tier then fuzzes for 420 s on all cores, every saved input is re-run in the isolated worker and only a failure confirmed there is a violation (executions and coverage-increasing inputs are reported as classes fuzz:*)",
     assumptions=["the coverage-guided stage leaves out inputs whose LEADING [int] length (ReadBytes/ReadValue/ReadLongString/ReadReasonMap/lz4 length prefix/frame body length/LZ4 body length) exceeds the input: the library allocates (and zeroes) up to 2 GiB for them, seconds per execution; the rapid mutators cover exactly these under the address-space limit",
                  "memory exhaustion is not one of the property's failure modes: a worker killed by its address-space limit is counted as 'skipped: resource exhaustion', never as a violation",
                  "error-path nesting of type descriptors is capped at depth 1500 (the library re-formats the error chain at every level: quadratic in the depth of the failure, minutes of CPU at 10000 levels; slow but terminating); well-formed nesting goes to the 1 MiB maximum and is altered within its first 3000 bytes only",
                  "non-termination is judged on the worker's CPU time: 60 s burned, or 60 s elapsed with the worker idle, twice; a call that is merely slow on a busy machine is given up after 10 minutes as 'slow' and not judged",
                  "follow-up calls on decoded descriptors (AsCql, NewCodec, PreferredGoType) only for descriptors <= 4 KiB (quadratic in depth)"],
     text="Structure-aware mutational fuzzing driven by rapid, one isolated execution per case, over all decoding entry points; finds panics/faults/hangs, cannot prove their absence.",
     note="Trusted: worker isolation and death classification (stderr signature); reference encoders supplying valid encodings and field annotations.",
     technique="property-based structure-aware mutation fuzzing (rapid) with subprocess isolation, plus coverage-guided native fuzzing (go test -fuzz) in the thorough tier whose saved inputs are confirmed in the isolated worker; 'returns value or error' oracle", design="DESIGN.md 4 C04, 2.3, 3.8, 7.6")

prop("C09", run="^TestC09", level="exploration",
     quick=(8, 300, 900), thorough=(16, 12000, 7200),
     rule="histories over {send managed, send explicit k, deliver final / non-final page / unknown id, drain-and-refill} driven through a build-tagged shim over the library's in-flight handler and compared step by step with a reference model of the unanswered set: "
          "ALL histories of length 4 (thorough 6) over a 12-action alphabet for N=1,2,3; rapid-generated histories of 1..60 (10%: 200..2000) actions for N in {1,2,3,10,100,1000,32767}; concurrent rounds of 2..8 senders x 1..30 sends (0/30/100% caller-chosen ids from a small colliding set) + a responder, "
          "with rapid-generated schedules (yield / sleep / bounded rendez-vous) at the hook points between the duplicate check and the registration and after the response lookup; per-id counters of accepted-unanswered requests, conservation after drain. "
          "Final responses take four forms (plain result, non-fatal error, last continuous page without / with a paging state). Socket level (worker-isolated): a real client connection with MaxInFlight=N in 1..12 and an independent MaxPending in 1..12 against a raw server peer, all versions x compression: N managed sends accepted with distinct ids in 1..N as seen ON THE WIRE, one more refused without blocking, "
          "0..3 rounds answering a generated subset then refilling exactly that many, drain, N again; 1 case in 12 under back-pressure (N in {1025,1500,2500}, 4-16 KiB requests, the peer starts reading only after all N were accepted). "
          "Requests the library completed early (more than MaxPending unread pages, or a 40 ms timeout): until their final responses arrive a further send is refused; after them nothing stays registered and N new sends succeed. Ping-pong (N=1,2; 200-1500 iterations; responder on another goroutine; busy polling or blocking receive): a send made right after a final response was received is never refused. "
          "Non-trivial = history contains a refusal, an id reuse or a final response followed by further actions / any concurrent round; distinct by (N, history) or (round parameters, schedule)",
     assumptions=["mixing managed and caller-chosen ids on one connection is 'not recommended' by the doc comment but is inside the property's quantifier",
                  "acceptance of a send is only REQUIRED in the all-answered state (N sends must succeed); refusals while fewer than N are unanswered are allowed"],
     text="Model-based stateful exploration (exhaustive to a depth bound for small N, randomised beyond) plus scheduled concurrent stress.",
     note="Trusted: the reference model; the shim (client/verif_hooks.go) calls the same unexported functions Send and the incoming loop call. Concurrent clause: interleavings are sampled, not enumerated.",
     technique="stateful model-based property testing (rapid state machines + exhaustive history enumeration) with hook-point schedule generation", design="DESIGN.md 4 C09, 3.9")

prop("C15", run="^TestC15", level="exploration",
     quick=(16, 200, 900), thorough=(16, 5000, 7200),
     rule="sessions: topology {library client <-> library server, library client <-> raw server peer, raw client peer <-> library server} x version {2,3,4,5,DSE1,DSE2} x compression {none, LZ4, Snappy except v5} x auth on/off x 1..4 post-handshake exchanges of generated version-valid request/response frames "
          "(1 in 4 pairs contains a header-only envelope: OPTIONS bare or with flags, READY; up to ~330 KiB towards the library; what the library itself sends in v5 kept under one segment) x id discipline (all managed / distinct caller-chosen) x pipelining (all requests first, responses batched by the raw peer into one self-contained segment) x raw-peer segmentations (split of one envelope into 1..4+ segments at generated points, first part >= 9 bytes; LZ4-compressed or fallback segments). "
          "Raw peers use only the reference encoders/decoders and record wire conformance (handshake unframed, valid CRCs, envelopes inside segments not individually compressed, v5 envelopes not individually compressed). Oracle: frames received == frames sent (canonical equality) in both directions; bytes seen by the raw peer == reference encoding of the frame sent. "
          "Each session runs in a worker process. Non-trivial = >40 bytes exchanged and (compression or v5 or auth); distinct by session spec",
     assumptions=["the library has no envelope splitter (documented TODO): envelopes it must SEND under v5 are kept below 131071 bytes", "EVENT responses and fatal ERROR codes (which close the connection by design) are excluded from the exchanged responses; STARTUP/AUTH_RESPONSE are not re-sent after the handshake",
                  "open finding DEP-lz4-offset-wrap-65536: with LZ4 negotiated, envelopes the LIBRARY has to compress are kept at or below 65536 bytes (excluded by construction, counted in excluded_known); the raw peer's direction is not restricted"],
     text="Randomised end-to-end exploration over real sockets with an independent raw peer on either side; worker-isolated.",
     note="Trusted: the raw peer (rawpeer_test.go) built on harness/ref; 10 s bounds on every blocking step only turn a missing delivery into a failure.",
     technique="property-based testing (rapid) of socket sessions against an independent spec-derived raw peer; subprocess isolation", design="DESIGN.md 4 C15")

prop("C10", run="^TestC10", level="exploration",
     quick=(8, 120, 900), thorough=(16, 5000, 7200),
     rule="TestC10Reuse: one stream id (caller-chosen, or managed with a limit of one) used for 3..5 requests in turn, each answered by 0..3 non-final pages and a final response tagged with its round, read at once or late - every frame must reach the request of its round; at the end 0..4 pages handed over but unread when the connection closes must still be readable in order. shim level: ALL answer orders for k=1..5 outstanding requests (153 orders, each with a spurious response in the middle); rapid-generated interleavings for k<=12 with multi-page answers of 1..MaxPending pages (complete or cut short) and spurious responses, consumers reading after all deliveries. "
          "Socket level (worker-isolated): library client x raw server peer, every version incl. v5 segments x compression, k<=10 tagged requests from 1..4 concurrent senders, answered in a generated order interleaved with EVENT envelopes (stream id -1, an unused id, or the id of a request still awaiting its answer: an EVENT is recognised by its opcode) and responses for an unused stream id, single-frame answers that are a READY (header-only envelope) for 1 request in 5, responses batched into few segments or sent one by one, multi-page answers on DSE versions. "
          "A fatal ERROR (server / protocol / authentication error) as the last of k responses is delivered to its request like any other before the connection is dropped. Event load: MaxInFlight (= event queue capacity) 1..4, up to 5 events beyond it pushed before a barrier response while nobody drains the event channel: every event reaches the handlers in order, the channel holds an in-order subsequence. Oracle: per request exactly its tagged frames in arrival order, channel closed after the last page with Err()==nil; events on the event channel and through handlers, in order, nothing else there; unknown-id responses change nothing. Non-trivial = >=2 outstanding requests or multi-page / interleaved extras; distinct by (k, pages, order) / session spec",
     assumptions=["multi-page answers never exceed MaxPending undelivered pages (beyond that the request is failed by design)"],
     text="Exhaustive small permutations plus randomised interleavings against a per-request expected-sequence oracle, at handler level and over real sockets.",
     note="Trusted: the raw peer and the tag scheme (tag carried in the response message content).",
     technique="property-based testing (rapid) + exhaustive permutation enumeration with a per-request delivery-sequence oracle", design="DESIGN.md 4 C10")

prop("C16", run="^TestC16", level="fault_enumeration",
     quick=(16, 40, 1200), thorough=(16, 1500, 10800),
     rule="(A) timeout clause on the in-flight handler shim: read timeout 100/200/400 ms, 0..6 non-final pages arriving every timeout/20 then silence or a final page; cases whose measured inter-page gap reached timeout/2 are discarded as noisy. "
          "(B) scripted sessions {connect, handshake, send K<=3 requests, answer some, one non-final page in progress, 0..3 receivers blocked in Receive/ReceiveEvent, optionally a goroutine hammering Send} against a library server or a raw TCP peer, with a fault {client Close, concurrent double Close, "
          "server-connection Close, server Close, context cancel, peer TCP close/reset} injected after each of the 5 step boundaries: the full (peer x fault x boundary x version in {4,5,DSE2}) matrix every run, plus rapid-generated sessions, plus rapid-generated schedules (yield / sleep / wait-until-point-reached, bounded 300 ms) "
          "at 16 hook points of the client package. (C) faults in the MIDDLE of the handshake: a library server connection blocked in AcceptHandshake (raw client silent, after OPTIONS/SUPPORTED, or after STARTUP/AUTHENTICATE) or a library client blocked in InitiateHandshake (raw server silent after STARTUP or after AUTH_RESPONSE) x {peer FIN, peer RST, own Close, server Close, context cancel} x version x auth: "
          "the blocked call returns a non-nil error, Close returns, no goroutine survives. (D) timeout clause on a real connection: ReadTimeout drawn independently of ConnectTimeout (150-600 ms vs 20-60 s with a silent raw peer: the request fails with a timeout after >= 80 % and < read timeout + 8 s; 3-4 s vs 250-400 ms with an answer at 20-30 %: it is delivered). "
          "(F) Send racing with the end of the connection: 1-4 goroutines per side call Send without pause while the connection is closed from either end (5-25 rounds per case); no panic, every call returns. (E) the helper PerformHandshake with wrong credentials or a fault (client Close, server-connection Close, server Close, context cancel) 0-20 ms into it, and a server closed while an Accept is pending for a client it has not accepted: calls return, no goroutine survives, no panic. After the handler is closed IsDone/Err/Incoming of completed requests still return. One session in three uses caller-chosen stream ids outside 1..MaxInFlight (2000, -7, 32767). Worker-isolated. Oracle within 10 s: every accepted unanswered request has its channel closed, IsDone() and Err()!=nil; blocked receivers return; later Send fails; Close returns (twice, concurrently); no goroutine of the client package survives; no panic. "
          "(G) a final response being routed when the connection closes (in-flight handler shim): the delivering goroutine is parked at one of three hook points (after the lookup, after the request was unregistered, before the frame is handed over) until the context is cancelled and/or the handler closed; every request must end up completed; "
          "and the same race as stress (2000-10000 rounds x 2-8 workers per case, every fourth case) for the window no hook can own: no panic. "
          "(H) the server closed while its accept loop registers a new TCP connection (held at a hook point until Close has closed the connections handler; 1-3 connections, AcceptAny pending or not): Close returns, nothing survives. (I) silent peer loss: a raw peer sends 0..8 bytes of a frame (optionally after a complete one) and goes quiet without closing its socket; within 10 s of the server's idle timeout (150-600 ms) the server connection is closed and a blocked Receive returns. "
          "Non-trivial = the fault lands with an unanswered request, a blocked receiver or before the script's end; distinct by session spec",
     assumptions=["all time bounds are generous upper bounds (10 s against sub-second behaviour); only 'still not done after the bound' or a panic counts",
                  "the window inside Send's select statement (operand evaluated, channel closed by Close, then send) has no hook point and is only reachable by stress repetition (TestC16SendCloseRace; the defect behind it was found by the thorough tier and repaired)"],
     text="Fault enumeration at every script step boundary, randomised sessions and generated schedules at hook points; liveness is judged with generous bounds, interleavings are sampled.",
     note="Trusted: goroutine accounting by stack inspection; the schedule controller only delays, it never decides a verdict.",
     technique="fault-injection property testing (rapid) with enumerated fault points and generated hook-point schedules; subprocess isolation", design="DESIGN.md 4 C16, 3.9")

prop("C18", run="^TestC18", level="exploration", race=True,
     quick=(8, 20, 1200), thorough=(16, 1500, 10800),
     rule="rounds of 2..16 goroutines x 1..12 generated work items x 1..6 repeats on SHARED instances: one frame.RawCodec per compressor {none, LZ4, Snappy}, one segment.Codec per {none, LZ4}, the package-level message codecs, the datacodec singletons and cached nested codecs (NewCodec results shared by type), "
          "the compressor values. Half of the rounds are cold starts (the sequential reference results are computed AFTER the concurrent phase, so per-type caches and pools are first touched concurrently). Half of the rounds add a group (every goroutine uses the SAME scalar codec through the SAME representation - the textual one where there is one - on 2-3 values that recur across goroutines). TestC18ColdProcess: 6 (thorough 60) fresh processes in which 16 goroutines make the FIRST use of segment / LZ4 segment / frame x 3 compressors / 6 value codecs together, compared with the same calls made alone afterwards, race reports of the fresh process included. Work items: headers with unsupported versions that the shared codec must refuse (the error text is compared), UDT values written from / read into Go struct types that did not exist before, compressed frames with a corrupt body (refused) on the same shared codec, decoded segment payloads held across yields, frame encode+decode, raw paths (ConvertToRawFrame, EncodeRawFrame, DecodeRawFrame, ConvertFromRawFrame, DecodeHeader+DiscardBody), segment encode+decode, message Encode/EncodedLength/Decode, CQL value Encode/Decode through a drawn representation, compress+decompress in both LZ4 formats and Snappy; per-goroutine yields drawn by rapid; all goroutines released from one barrier. "
          "Oracle: each concurrent result == the result of the same call made sequentially beforehand (digest of bytes, or canonical frame / abstract value where map order is free); built with -race, any race report fails the run. Every round is non-trivial (>= 2 goroutines on shared instances); distinct by round parameters and item kinds",
     assumptions=["interleavings are sampled by the Go scheduler (no hook points in the codec packages); the race detector's happens-before analysis is what exposes a shared scratch buffer without the exact overlap"],
     text="Randomised concurrent stress under the race detector with result comparison against sequential execution.",
     note="Trusted: the Go race detector; sequential results as reference.",
     technique="property-based concurrent stress (rapid-generated workloads) under the race detector with sequential-equivalence oracle", design="DESIGN.md 4 C18")
