#!/usr/bin/env python3
"""reeval_seed.py <seeded id> [props...] [--note text]: re-run the quick checks (default: the mutant's own property)
against an already kept seeded change and update caught_by / checks_run in its meta.json."""
import json, os, subprocess, sys, glob
args = sys.argv[1:]
note = None
if "--note" in args:
    i = args.index("--note"); note = args[i + 1]; args = args[:i] + args[i + 2:]
sid = args[0]
props = args[1:] or [sid.split("-")[0]]
d = os.path.join("/verif/seeded", sid)
meta = json.load(open(os.path.join(d, "meta.json")))
res = meta.get("checks_run", {})
for p in props:
    rr = subprocess.run(["/verif/tools/run_seed.sh", os.path.join(d, "patch.diff"), p], stdout=subprocess.PIPE, stderr=subprocess.STDOUT, text=True)
    out = rr.stdout
    res[p] = {"caught": "VIOLATION property=" in out, "output": [l for l in out.splitlines() if l.startswith(("VIOLATION", "OK", "INCONCLUSIVE", "==", "BUILD"))][:6]}
meta["checks_run"] = res
meta["caught_by"] = [p for p, v in res.items() if v["caught"]]
if note:
    meta["note"] = note
json.dump(meta, open(os.path.join(d, "meta.json"), "w"), indent=1)
print(sid, "caught by:", meta["caught_by"] or "NONE")
for f in glob.glob("/verif/replays/*"):
    os.remove(f)
