#!/usr/bin/env python3
"""seed_prompt.py <Cxx> <worktree> [n]: print the brief handed to a seeding sub-agent: the property's text, its scratch
worktree, what earlier rounds already tried (one line each, so that it looks for other mechanisms), and the delivery format.
Nothing from /verif's machinery is disclosed."""
import json, sys, glob, os
pid, wt = sys.argv[1], sys.argv[2]
n = int(sys.argv[3]) if len(sys.argv) > 3 else 3
prop = next(json.loads(l) for l in open("/verif/properties.jsonl") if json.loads(l)["id"] == pid)
tried = []
for m in sorted(glob.glob("/verif/seeded/%s-*/meta.json" % pid)):
    try:
        d = json.load(open(m))
        s = " ".join(d.get("summary", "").split())
        tried.append("- " + s[:260])
    except Exception:
        pass
print(f"""You are helping to evaluate a test framework for the Go library datastax/go-cassandra-native-protocol (encoder/decoder for the
Cassandra CQL native protocol, plus a small test client/server). You have your OWN scratch git worktree of the library at
{wt} . Work ONLY inside that directory. Never read or touch /verif or /repo (they are off limits), and do not look for other
people's output under /tmp.

Environment (every shell call, env does not persist): export GOFLAGS=-mod=mod GOPROXY=off GOSUMDB=off GOTOOLCHAIN=local
There is no network. The default `go` (1.23) builds the module. The package `client` binds a fixed TCP port in its tests, and
other people run that suite on this machine too, so ALWAYS run tests that include the client package as
  flock /tmp/seed_suite.lock go test -count=1 ./...
(the lock may make you wait a few minutes; that is expected). Tests of other packages need no lock.

The property under study (the library is supposed to satisfy it):

  id: {prop['id']}
  title: {prop['title']}
  statement: {prop['statement']}
  quantified over: {prop['quantifier']['text']}
  code anchors: {json.dumps(prop.get('anchors'))}

YOUR TASK: produce {n} DIFFERENT realistic changes ("seeded defects") to the library's non-test source, each of which
  (a) BREAKS this property (for some input / sequence / schedule / fault the property quantifies over),
  (b) still compiles, passes `go vet ./...` as well as the unchanged tree does, and passes the WHOLE existing test suite unedited,
  (c) looks like something a maintainer could plausibly commit (a refactoring slip, an optimisation, a caching layer, a
      well-meant "fix", a misread spec paragraph) - not sabotage that any use would expose at once,
  (d) needs something SPECIFIC to manifest: a particular interleaving, a fault or close at a particular point, a multi-step
      sequence of operations (second use of an object, state carried between calls), an unusual but legal input (a boundary
      length, a rarely used protocol version, a rare combination of two optional features), or two cooperating sites that each
      look fine alone. Prefer mechanisms that a generic random round-trip test would be UNLIKELY to hit.
Each change should be small (typically 1-25 changed lines, one or two files). The {n} changes must use different mechanisms
in different places.

Changes already tried in earlier rounds for this property - do NOT repeat these mechanisms or close variants of them; look
in other files, other code paths, other kinds of trigger:
{chr(10).join(tried) if tried else '- (none)'}

For each change k = 1..{n} deliver a directory {wt}/_out/m<k>/ containing exactly:
  patch.diff     - `git diff` of the change against the worktree's HEAD (must apply with `git apply` on a clean checkout;
                   library source only, no test files)
  demo_test.go   - a Go test file with ONE test function named TestSeededDemo (helpers allowed) that FAILS with the change
                   applied and PASSES on the clean tree, deterministically or at least 9 times out of 10 (say which). Its first
                   line must be a comment of the form   // copy to: <package dir relative to the repo root>   e.g. `// copy to: frame`
                   and its package clause must match that directory's test package. It must run in well under 60 s.
                   It must only use the library's exported API or, if placed in the package itself, its internals.
  meta.json      - {{"property": "{pid}", "summary": "<what was changed, where, 2-4 sentences>", "needs": "<what exactly is needed
                   for the violation to manifest and why ordinary use / the existing tests do not show it>", "files": [...],
                   "commands_run": [...]}}
Procedure per change: make the edit; `go build ./... && go vet ./...`; run the whole suite (with the flock line above);
copy the demo into its package as zz_seeded_demo_test.go and run `go test -count=1 -run 'TestSeededDemo$' ./<pkg>/` (must FAIL);
save `git diff -- . ':!_out' ':!*zz_seeded_demo_test.go' > _out/m<k>/patch.diff`; then `git checkout -- .`, remove the copied demo,
run the demo on the clean tree (must PASS), and verify `git apply --check _out/m<k>/patch.diff`. Leave the worktree clean
(only _out/ untracked) when you finish. Do not commit anything. Do not leave files outside {wt}.
Your final message: for each change one paragraph (file, mechanism, trigger), plus anything you could not make work.""")
