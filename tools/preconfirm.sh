#!/bin/bash
# preconfirm.sh <worktree>...: confirm every _out/m* of each worktree (worktrees in parallel, changes of one worktree in turn)
# and leave the verdict in _out/m*/confirm.json for eval_seeds.py
for wt in "$@"; do
  (
    for m in "$wt"/_out/m*; do
      [ -f "$m/confirm.json" ] && continue
      out=$(TMPTAG=$(basename "$wt") /verif/tools/confirm_seed.sh "$wt" "$m"); rc=$?
      line=$(echo "$out" | tail -1)
      python3 - "$m/confirm.json" "$rc" "$line" <<'P'
import json, sys
try: conf = json.loads(sys.argv[3])
except Exception: conf = {"raw": sys.argv[3]}
json.dump({"rc": int(sys.argv[2]), "conf": conf}, open(sys.argv[1], "w"))
P
    done
  ) &
done
wait
