#!/bin/bash
# run_thorough.sh [ids...]: run the thorough tier of the given (default: all) properties one after the other on the current
# tree, keep each evidence file as evidence/thorough/<id>.json and append the driver's verdict lines to evidence/thorough/SUMMARY.txt
cd /verif || exit 2
mkdir -p evidence/thorough
ids=("$@")
[ ${#ids[@]} -eq 0 ] && ids=(C19 C13 C14 C20 C11 C12 C06 C08 C07 C01 C02 C03 C05 C17 C10 C09 C15 C16 C18 C04)
for id in "${ids[@]}"; do
  start=$(date +%s)
  out=$(VERIF_SEED=${VERIF_SEED:-1} ./check "$id" --tier thorough 2>&1); rc=$?
  echo "$(date -u +%H:%M:%S) $id rc=$rc $(( $(date +%s) - start ))s $(echo "$out" | grep -E '^(OK|VIOLATION|INCONCLUSIVE)' | head -3 | tr '\n' ' ')" >> evidence/thorough/SUMMARY.txt
  echo "$out" | grep -E '^KNOWN-FINDING' | cut -c1-160 >> evidence/thorough/SUMMARY.txt
  cp "evidence/$id.json" "evidence/thorough/$id.json" 2>/dev/null
done
