#!/bin/bash
# run_quick_seeds.sh <seed>...: every quick check at each given VERIF_SEED; prints one line per run (silence test on the unchanged tree)
cd "$(dirname "$0")/.." || exit 2
for seed in "$@"; do
  for id in C01 C02 C03 C04 C05 C06 C07 C08 C09 C10 C11 C12 C13 C14 C15 C16 C17 C18 C19 C20; do
    out=$(VERIF_SEED=$seed ./check "$id" --tier quick 2>&1); rc=$?
    echo "seed=$seed $id rc=$rc $(echo "$out" | grep -E '^(OK|VIOLATION|INCONCLUSIVE)' | head -3 | tr '\n' ' ')"
  done
done
