#!/usr/bin/env python3
"""design_tables.py: print the markdown tables of DESIGN.md section 7 (findings, seeded changes, measured costs) from
known_findings.json, seeded/*/meta.json and evidence/*.json, so that the document is regenerated, not retyped."""
import glob, io, json, os, re, sys

V = "/verif"
kf = json.load(open(os.path.join(V, "known_findings.json")))["findings"]
out = {}
buf = io.StringIO()
_print = print
def print(*a):
    _print(*a, file=buf)
print("| id | properties | status | commit | what failed |")
print("|---|---|---|---|---|")
for f in kf:
    what = f["what"]
    for pre in ("fixed: ",):
        if what.startswith(pre):
            what = what[len(pre):]
    # drop the leading "property=Cxx <commit> "
    parts = what.split(" ", 2)
    if parts[0].startswith("property=") and len(parts) == 3:
        what = parts[2]
    print("| %s | %s | %s | %s | %s |" % (f["id"], ",".join(f["properties"]), f["status"], f.get("commit") or "-", what.replace("|", "\\|")))

out["findings"] = buf.getvalue(); buf = io.StringIO()
print("| change | file(s) | caught by (quick tier) | what it breaks | note |")
print("|---|---|---|---|---|")
for d in sorted(glob.glob(os.path.join(V, "seeded", "*"))):
    try:
        m = json.load(open(os.path.join(d, "meta.json")))
    except Exception:
        continue
    files = m.get("files") or m.get("file") or ""
    if isinstance(files, list):
        files = ", ".join(files)
    if not files:
        fs = []
        for l in open(os.path.join(d, "patch.diff")):
            if l.startswith("+++ b/"):
                fs.append(l[6:].strip())
        files = ", ".join(fs)
    summ = (m.get("summary") or m.get("description") or "").replace("\n", " ").replace("|", "\\|")
    if len(summ) > 230:
        summ = summ[:227] + "..."
    note = (m.get("note") or "").replace("\n", " ").replace("|", "\\|")
    print("| %s | %s | %s | %s | %s |" % (os.path.basename(d), files, ", ".join(m.get("caught_by") or []) or "**none**", summ, note))

out["seeded"] = buf.getvalue(); buf = io.StringIO()
print("| id | tier | wall s | evaluations | distinct non-trivial | excluded (known) |")
print("|---|---|---|---|---|---|")
for f in sorted(glob.glob(os.path.join(V, "evidence", "C*.json"))):
    e = json.load(open(f))
    c = e.get("coverage", {})
    print("| %s | %s | %s | %s | %s | %s |" % (e.get("property_id"), e.get("tier"), e.get("wall_s"), c.get("evaluations"), c.get("distinct_nontrivial"), c.get("excluded_known", c.get("excluded", ""))))
out["cost"] = buf.getvalue()
d = os.path.join(V, "DESIGN.md")
doc = open(d).read()
for k, v in out.items():
    doc = re.sub(r"(<!-- TABLES:%s:BEGIN -->\n).*?(<!-- TABLES:%s:END -->)" % (k, k), lambda m: m.group(1) + v + m.group(2), doc, flags=re.S)
open(d, "w").write(doc)
_print("DESIGN.md tables regenerated:", {k: v.count("\n") for k, v in out.items()})
