#!/bin/bash
# run_seed.sh <patch.diff> <prop> [<prop>...]: apply a seeded change to /repo, run the quick checks, undo it straight afterwards.
set -u
P=$1; shift
cd /repo || exit 2
[ -n "$(git status --porcelain)" ] && { echo "repo not clean"; exit 2; }
git apply "$P" || { echo "patch does not apply to /repo"; exit 2; }
for prop in "$@"; do
  out=$(cd /verif && VERIF_KEEP=1 VERIF_FINALCLOSE_OFF=${VERIF_FINALCLOSE_OFF:-} ./check "$prop" --tier quick 2>&1); rc=$?
  echo "== $prop rc=$rc"; echo "$out" | grep -E "^(VIOLATION|OK|INCONCLUSIVE|BUILD)" | head -5
done
git -C /repo checkout -- .
git -C /repo status --porcelain | head -3
