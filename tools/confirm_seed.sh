#!/bin/bash
# confirm_seed.sh <worktree> <mutant dir>: confirm in a scratch worktree that the patch builds, the existing suite passes
# with it, and the demonstration fails with it and passes without it. Prints a JSON line.
set -u
WT=$1; M=$2
export GOFLAGS=-mod=mod GOPROXY=off GOSUMDB=off GOTOOLCHAIN=local
cd "$WT" || exit 2
git checkout -q -- . ; git clean -qfd -e _out >/dev/null 2>&1
pkg=$(grep -m1 -o 'copy to: *[A-Za-z0-9_/]*' "$M/demo_test.go" | sed 's/copy to: *//; s#/$##')
[ -z "$pkg" ] && { echo "{\"error\":\"no 'copy to:' in demo\"}"; exit 2; }
demo="$pkg/zz_seeded_demo_test.go"
# without the patch: demo passes
cp "$M/demo_test.go" "$demo"
go test -count=1 -run TestSeededDemo "./$pkg/" >/tmp/cs_$$_clean.log 2>&1; clean_rc=$?
rm -f "$demo"
git apply "$M/patch.diff" || { echo "{\"error\":\"patch does not apply\"}"; exit 2; }
go build ./... >/tmp/cs_$$_build.log 2>&1; build_rc=$?
# existing suite (client tests bind a fixed port: serialise via flock)
flock /tmp/seed_suite.lock go test -count=1 ./... >/tmp/cs_$$_suite.log 2>&1; suite_rc=$?
if [ $suite_rc -ne 0 ] && grep -q "address already in use" /tmp/cs_$$_suite.log; then sleep 5; flock /tmp/seed_suite.lock go test -count=1 ./... >/tmp/cs_$$_suite.log 2>&1; suite_rc=$?; fi
cp "$M/demo_test.go" "$demo"
go test -count=1 -run TestSeededDemo "./$pkg/" >/tmp/cs_$$_mut.log 2>&1; mut_rc=$?
rm -f "$demo"
git checkout -q -- . ; git clean -qfd -e _out >/dev/null 2>&1
rm -f /tmp/cs_$$_*.log 2>/dev/null; echo "{\"pkg\":\"$pkg\",\"demo_without_patch_rc\":$clean_rc,\"build_rc\":$build_rc,\"suite_rc\":$suite_rc,\"demo_with_patch_rc\":$mut_rc}"
[ $clean_rc -eq 0 ] && [ $build_rc -eq 0 ] && [ $suite_rc -eq 0 ] && [ $mut_rc -ne 0 ]
