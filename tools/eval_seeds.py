#!/usr/bin/env python3
"""eval_seeds.py <prop> <worktree> [extra props...]: confirm each mutant under <worktree>/_out/m*/ in the scratch
worktree, keep confirmed ones as /verif/seeded/<prop>-[$SEED_BATCH]<mk>/ and run the quick checks of <prop> (+extras) against each."""
import json, os, subprocess, sys, shutil, glob
prop, wt = sys.argv[1], sys.argv[2]
extra = sys.argv[3:]
for m in sorted(glob.glob(os.path.join(wt, "_out", "m*"))):
    name = "%s-%s%s" % (prop, os.environ.get("SEED_BATCH", ""), os.path.basename(m))
    dst = os.path.join("/verif/seeded", name)
    cached = os.path.join(m, "confirm.json")   # written by a parallel pre-pass (tools/preconfirm.sh) in the same worktree
    if os.path.exists(cached):
        c = json.load(open(cached)); conf, rc = c["conf"], c["rc"]
    else:
        r = subprocess.run(["/verif/tools/confirm_seed.sh", wt, m], stdout=subprocess.PIPE, text=True)
        line = r.stdout.strip().splitlines()[-1] if r.stdout.strip() else "{}"
        try: conf = json.loads(line)
        except Exception: conf = {"raw": line}
        rc = r.returncode
    if rc != 0:
        print(name, "NOT CONFIRMED", conf); continue
    os.makedirs(dst, exist_ok=True)
    for f in ("patch.diff", "demo_test.go"):  # confirm.json stays behind
        shutil.copy(os.path.join(m, f), os.path.join(dst, f))
    try: meta = json.load(open(os.path.join(m, "meta.json")))
    except Exception: meta = {}
    meta["confirmed_in_scratch_worktree"] = conf
    results = {}
    for p in [prop] + extra:
        rr = subprocess.run(["/verif/tools/run_seed.sh", os.path.join(dst, "patch.diff"), p], stdout=subprocess.PIPE, stderr=subprocess.STDOUT, text=True)
        out = rr.stdout
        caught = "VIOLATION property=" in out
        results[p] = {"caught": caught, "output": [l for l in out.splitlines() if l.startswith(("VIOLATION", "OK", "INCONCLUSIVE", "==", "BUILD"))][:6]}
        if caught:
            break  # the extra properties are only consulted until one check catches the change
    meta["checks_run"] = results
    meta["caught_by"] = [p for p, v in results.items() if v["caught"]]
    json.dump(meta, open(os.path.join(dst, "meta.json"), "w"), indent=1)
    print(name, "confirmed; caught by:", meta["caught_by"] or "NONE", "|", meta.get("summary", "")[:100])
# replays produced while a mutant was applied are not evidence of the real tree
for f in glob.glob("/verif/replays/*"):
    os.remove(f)
