// Package kf reads /verif/known_findings.json (never written at run time). An open finding is excluded by
// construction: a property that classifies a failing case as matching an open entry counts it and goes on.
package kf

import (
	"encoding/json"
	"os"
	"sync"
)

type Finding struct {
	Properties []string `json:"properties"`
	ID         string   `json:"id"`
	Status     string   `json:"status"` // "open" | "fixed"
	What       string   `json:"what"`
	Commit     string   `json:"commit,omitempty"`
}

var (
	once sync.Once
	open = map[string]bool{}
)

func load() {
	p := os.Getenv("VERIF_KF")
	if p == "" {
		p = "/verif/known_findings.json"
	}
	b, err := os.ReadFile(p)
	if err != nil {
		return
	}
	var f struct {
		Findings []Finding `json:"findings"`
	}
	if json.Unmarshal(b, &f) != nil {
		return
	}
	for _, x := range f.Findings {
		if x.Status == "open" {
			open[x.ID] = true
		}
	}
}

// Open reports whether the finding with this id is listed as open (recorded, not repaired).
func Open(id string) bool {
	once.Do(load)
	return open[id]
}
