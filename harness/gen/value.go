package gen

// CQL value engine (DESIGN.md 3.5): CQL type trees, abstract values (AV), Go representations (Rep) drawn from the
// datacodec doc.go table, construction of Go sources from abstract values (ToGo) and reading any decoded destination
// back into an abstract value (FromGo) so that comparison is by value, independent of the representation.

import (
	"fmt"
	"math"
	"math/big"
	"net"
	"reflect"
	"sort"
	"strconv"
	"strings"
	"time"
	"unicode/utf8"

	"github.com/datastax/go-cassandra-native-protocol/datacodec"
	"github.com/datastax/go-cassandra-native-protocol/datatype"
	"github.com/datastax/go-cassandra-native-protocol/primitive"
	"pgregory.net/rapid"

	"verifharness/ref"
)

// AV is an abstract CQL value (defined next to the reference serializer).
type AV = ref.AV

func NullAV() AV { return AV{Null: true} }

// Rep describes the Go representation of one node.
var zones = []*time.Location{time.UTC, time.FixedZone("p1", 3600), time.FixedZone("m5", -5*3600), time.FixedZone("p545", 5*3600+45*60),
	time.FixedZone("p14", 14*3600), time.FixedZone("m12", -12*3600), time.FixedZone("p930", 9*3600+30*60)}

type Rep struct {
	Kind   string   // see repKinds below
	Ptr    bool     // declared as pointer to the base type (nillable)
	Iface  bool     // declared as interface{} (holding the base type, or pointer to it if Ptr)
	Elem   *Rep     // list/set element, map value
	Key    *Rep     // map key
	Fields []*Rep   // tuple / UDT fields when Kind is "struct" or "ifaceslice" or "ifacemap"
	ArrLen int      // length of an "array" representation (fixed when the first value is drawn); -1 = not fixed yet
	Names  []string // struct field names
	Tags   []string // cassandra tags of struct fields ("" = none)
}

var (
	tInt, tInt8, tInt16, tInt32, tInt64      = reflect.TypeOf(int(0)), reflect.TypeOf(int8(0)), reflect.TypeOf(int16(0)), reflect.TypeOf(int32(0)), reflect.TypeOf(int64(0))
	tUint, tUint8, tUint16, tUint32, tUint64 = reflect.TypeOf(uint(0)), reflect.TypeOf(uint8(0)), reflect.TypeOf(uint16(0)), reflect.TypeOf(uint32(0)), reflect.TypeOf(uint64(0))
	tBigInt                                  = reflect.TypeOf(big.Int{})
	tBigFloat                                = reflect.TypeOf(big.Float{})
	tString, tBytes, tRunes, tBool           = reflect.TypeOf(""), reflect.TypeOf([]byte{}), reflect.TypeOf([]rune{}), reflect.TypeOf(false)
	tF32, tF64                               = reflect.TypeOf(float32(0)), reflect.TypeOf(float64(0))
	tTime, tDuration                         = reflect.TypeOf(time.Time{}), reflect.TypeOf(time.Duration(0))
	tIP                                      = reflect.TypeOf(net.IP{})
	tUUID, tArr16                            = reflect.TypeOf(primitive.UUID{}), reflect.TypeOf([16]byte{})
	tDecimal, tCqlDuration                   = reflect.TypeOf(datacodec.CqlDecimal{}), reflect.TypeOf(datacodec.CqlDuration{})
	tIface                                   = reflect.TypeOf((*interface{})(nil)).Elem()
)

var intKinds = map[string]struct {
	t        reflect.Type
	min, max *big.Int
}{
	"int":    {tInt, big.NewInt(math.MinInt64), big.NewInt(math.MaxInt64)},
	"int8":   {tInt8, big.NewInt(math.MinInt8), big.NewInt(math.MaxInt8)},
	"int16":  {tInt16, big.NewInt(math.MinInt16), big.NewInt(math.MaxInt16)},
	"int32":  {tInt32, big.NewInt(math.MinInt32), big.NewInt(math.MaxInt32)},
	"int64":  {tInt64, big.NewInt(math.MinInt64), big.NewInt(math.MaxInt64)},
	"uint":   {tUint, big.NewInt(0), new(big.Int).SetUint64(math.MaxUint64)},
	"uint8":  {tUint8, big.NewInt(0), big.NewInt(math.MaxUint8)},
	"uint16": {tUint16, big.NewInt(0), big.NewInt(math.MaxUint16)},
	"uint32": {tUint32, big.NewInt(0), big.NewInt(math.MaxUint32)},
	"uint64": {tUint64, big.NewInt(0), new(big.Int).SetUint64(math.MaxUint64)},
}

var IntKindNames = []string{"int", "int8", "int16", "int32", "int64", "uint", "uint8", "uint16", "uint32", "uint64"}

// BaseType is the Go type of the representation without pointer / interface wrapping.
func (r *Rep) BaseType() reflect.Type {
	if ik, ok := intKinds[r.Kind]; ok {
		return ik.t
	}
	switch r.Kind {
	case "bigint":
		return tBigInt // always used through a pointer
	case "bigfloat":
		return tBigFloat
	case "string":
		return tString
	case "bytes":
		return tBytes
	case "runes":
		return tRunes
	case "bool":
		return tBool
	case "float32":
		return tF32
	case "float64":
		return tF64
	case "time":
		return tTime
	case "godur":
		return tDuration
	case "ip":
		return tIP
	case "uuid":
		return tUUID
	case "array16":
		return tArr16
	case "decimal":
		return tDecimal
	case "duration":
		return tCqlDuration
	case "slice":
		return reflect.SliceOf(r.Elem.DeclType())
	case "array":
		return reflect.ArrayOf(r.arrayLen(), r.Elem.DeclType())
	case "map":
		return reflect.MapOf(r.Key.DeclType(), r.Elem.DeclType())
	case "ifaceslice":
		return reflect.SliceOf(tIface)
	case "ifacemap":
		return reflect.MapOf(tString, tIface)
	case "struct":
		fs := make([]reflect.StructField, len(r.Fields))
		for i, f := range r.Fields {
			fs[i] = reflect.StructField{Name: r.Names[i], Type: f.DeclType()}
			if strings.HasPrefix(r.Names[i], "T") { // tagged field: name does not match, tag does
				fs[i].Tag = reflect.StructTag(fmt.Sprintf(`cassandra:%q`, r.tagNames()[i]))
			}
		}
		return reflect.StructOf(fs)
	}
	panic("gen: unknown rep kind " + r.Kind)
}

func (r *Rep) arrayLen() int {
	if r.ArrLen < 0 {
		return 0
	}
	return r.ArrLen
}

func (r *Rep) tagNames() []string { return r.Tags }

func (r *Rep) needsPtr() bool { return r.Kind == "bigint" || r.Kind == "bigfloat" }

// DeclType is the type under which the value is declared inside a container (or at top level).
func (r *Rep) DeclType() reflect.Type {
	if r.Iface {
		return tIface
	}
	if r.Ptr || r.needsPtr() {
		return reflect.PtrTo(r.BaseType())
	}
	return r.BaseType()
}

// Nillable: the declared type can hold a Go nil (encoded as CQL NULL).
func (r *Rep) Nillable() bool {
	if r.Iface || r.Ptr || r.needsPtr() {
		return true
	}
	switch r.Kind {
	case "bytes", "runes", "ip", "slice", "map", "ifaceslice", "ifacemap":
		return true
	}
	return false
}

func (r *Rep) String() string {
	s := r.Kind
	switch r.Kind {
	case "slice", "array":
		s += "<" + r.Elem.String() + ">"
	case "map":
		s += "<" + r.Key.String() + "," + r.Elem.String() + ">"
	case "struct", "ifaceslice", "ifacemap":
		var fs []string
		for _, f := range r.Fields {
			fs = append(fs, f.String())
		}
		s += "{" + strings.Join(fs, ",") + "}"
	}
	if r.Ptr {
		s = "*" + s
	}
	if r.Iface {
		s = "iface(" + s + ")"
	}
	return s
}

// comparable: usable as a Go map key.
func (r *Rep) comparable() bool {
	if r.Ptr || r.needsPtr() {
		return true
	}
	switch r.Kind {
	case "bytes", "runes", "ip", "slice", "map", "ifaceslice", "ifacemap":
		return false
	case "array":
		return r.Elem.comparable()
	case "struct":
		for _, f := range r.Fields {
			if !f.comparable() {
				return false
			}
		}
		return true
	}
	return true
}

// ---------------------------------------------------------------------------------------------------------------
// CQL type trees for values

// ValueType draws a CQL type valid for version v (depth-bounded, width <= 4; tuples/UDTs have >= 1 field).
func ValueType(t *rapid.T, v primitive.ProtocolVersion, depth int, label string) datatype.DataType {
	k := 0
	if depth > 0 {
		k = rapid.IntRange(0, 9).Draw(t, label+"/kind")
	}
	switch {
	case k == 5:
		return datatype.NewList(ValueType(t, v, depth-1, label+"/e"))
	case k == 6:
		return datatype.NewSet(ValueType(t, v, depth-1, label+"/e"))
	case k == 7:
		return datatype.NewMap(ValueType(t, v, depth-1, label+"/k"), ValueType(t, v, depth-1, label+"/v"))
	case k >= 8 && AtLeast(v, 3):
		n := rapid.IntRange(1, 4).Draw(t, label+"/n")
		fts := make([]datatype.DataType, n)
		for i := range fts {
			fts[i] = ValueType(t, v, depth-1, fmt.Sprintf("%s/f%d", label, i))
		}
		if k == 8 {
			return datatype.NewTuple(fts...)
		}
		names := make([]string, n)
		for i := range names {
			names[i] = fmt.Sprintf("f%d_%s", i, rapid.StringMatching(`[a-zA-Z]{0,4}`).Draw(t, fmt.Sprintf("%s/n%d", label, i))) // CQL field names can be case-sensitive
		}
		u, _ := datatype.NewUserDefined("ks", "udt", names, fts)
		return u
	case k == 4:
		return datatype.NewCustom("org.example.Custom")
	default:
		return rapid.SampledFrom(scalarTypes(v)).Draw(t, label+"/scalar")
	}
}

// ---------------------------------------------------------------------------------------------------------------
// representations

// ScalarRepKinds lists the accepted Go representations of a scalar CQL type (datacodec doc.go table).
func ScalarRepKinds(code primitive.DataTypeCode) []string {
	ints := append([]string{}, IntKindNames...)
	switch code {
	case primitive.DataTypeCodeBigint, primitive.DataTypeCodeCounter:
		return append(ints, "bigint", "string")
	case primitive.DataTypeCodeInt, primitive.DataTypeCodeSmallint, primitive.DataTypeCodeTinyint:
		return append(ints, "string")
	case primitive.DataTypeCodeVarint:
		return append(ints, "bigint", "string")
	case primitive.DataTypeCodeBoolean:
		return append(ints, "bool")
	case primitive.DataTypeCodeFloat:
		return []string{"float32", "float64"}
	case primitive.DataTypeCodeDouble:
		return []string{"float64", "float32", "bigfloat"}
	case primitive.DataTypeCodeDecimal:
		return []string{"decimal"}
	case primitive.DataTypeCodeDuration:
		return []string{"duration"}
	case primitive.DataTypeCodeAscii, primitive.DataTypeCodeVarchar:
		return []string{"string", "bytes", "runes"}
	case primitive.DataTypeCodeBlob, primitive.DataTypeCodeCustom:
		return []string{"bytes", "string"}
	case primitive.DataTypeCodeInet:
		return []string{"ip", "bytes", "string"}
	case primitive.DataTypeCodeUuid, primitive.DataTypeCodeTimeuuid:
		return []string{"uuid", "array16", "bytes", "string"}
	case primitive.DataTypeCodeDate:
		return append(ints, "time", "string")
	case primitive.DataTypeCodeTime:
		return append(ints, "godur", "time", "string")
	case primitive.DataTypeCodeTimestamp:
		return append(ints, "time", "string")
	}
	return nil
}

// PreferredKind: the representation an untyped decode produces.
func PreferredKind(code primitive.DataTypeCode) string {
	switch code {
	case primitive.DataTypeCodeBigint, primitive.DataTypeCodeCounter:
		return "int64"
	case primitive.DataTypeCodeInt:
		return "int32"
	case primitive.DataTypeCodeSmallint:
		return "int16"
	case primitive.DataTypeCodeTinyint:
		return "int8"
	case primitive.DataTypeCodeVarint:
		return "bigint"
	case primitive.DataTypeCodeBoolean:
		return "bool"
	case primitive.DataTypeCodeFloat:
		return "float32"
	case primitive.DataTypeCodeDouble:
		return "float64"
	case primitive.DataTypeCodeDecimal:
		return "decimal"
	case primitive.DataTypeCodeDuration:
		return "duration"
	case primitive.DataTypeCodeAscii, primitive.DataTypeCodeVarchar:
		return "string"
	case primitive.DataTypeCodeBlob, primitive.DataTypeCodeCustom:
		return "bytes"
	case primitive.DataTypeCodeInet:
		return "ip"
	case primitive.DataTypeCodeUuid, primitive.DataTypeCodeTimeuuid:
		return "uuid"
	case primitive.DataTypeCodeDate, primitive.DataTypeCodeTimestamp:
		return "time"
	case primitive.DataTypeCodeTime:
		return "godur"
	}
	return ""
}

// DrawRep draws a Go representation for CQL type dt. asKey: must be usable as a Go map key.
func DrawRep(t *rapid.T, dt datatype.DataType, asKey bool, label string) *Rep {
	r := &Rep{ArrLen: -1}
	switch x := dt.(type) {
	case *datatype.List:
		drawSeqRep(t, r, x.ElementType, label)
	case *datatype.Set:
		drawSeqRep(t, r, x.ElementType, label)
	case *datatype.Map:
		r.Kind = "map"
		r.Key = DrawRep(t, x.KeyType, true, label+"/k")
		r.Elem = DrawRep(t, x.ValueType, false, label+"/v")
	case *datatype.Tuple:
		drawFieldsRep(t, r, x.FieldTypes, nil, label)
	case *datatype.UserDefined:
		drawFieldsRep(t, r, x.FieldTypes, x.FieldNames, label)
	default:
		kinds := ScalarRepKinds(dt.Code())
		// weight the preferred kind
		if rapid.IntRange(0, 2).Draw(t, label+"/pref") == 0 {
			r.Kind = PreferredKind(dt.Code())
		} else {
			r.Kind = rapid.SampledFrom(kinds).Draw(t, label+"/kind")
		}
	}
	switch rapid.IntRange(0, 5).Draw(t, label+"/wrap") {
	case 0:
		r.Ptr = true
	case 1:
		r.Iface = true
	case 2:
		r.Iface, r.Ptr = true, true
	}
	if r.Iface && !UntypedDecodable(dt) {
		// decoding into an interface{} uses the preferred Go type, which does not exist for maps keyed by blob/inet/
		// collections (C04 probes that the attempt fails cleanly)
		r.Iface = false
	}
	if asKey && !r.comparable() {
		r.Ptr = true // pointer keys are comparable (each key distinct) and accepted by the codec
	}
	if asKey {
		fixKeyRep(r, dt)
	}
	if asKey && r.Iface && !PreferredHashable(dt) {
		// an interface{}-typed key is decoded into the preferred Go type, which for these CQL types is a slice or map and
		// cannot be a Go map key: not a representation the codec can decode into (C04 probes that it fails cleanly)
		r.Iface = false
		if !r.comparable() {
			r.Ptr = true
		}
	}
	return r
}

func drawSeqRep(t *rapid.T, r *Rep, et datatype.DataType, label string) {
	r.Elem = DrawRep(t, et, false, label+"/e")
	if rapid.IntRange(0, 4).Draw(t, label+"/array") == 0 {
		r.Kind = "array"
	} else {
		r.Kind = "slice"
	}
}

func drawFieldsRep(t *rapid.T, r *Rep, fts []datatype.DataType, names []string, label string) {
	mode := rapid.IntRange(0, 3).Draw(t, label+"/mode")
	if mode == 3 && names == nil {
		mode = 0
	}
	for _, ft := range fts {
		if !UntypedDecodable(ft) {
			mode = 0 // interface{}-typed fields cannot receive such a field
		}
	}
	r.Fields = make([]*Rep, len(fts))
	switch mode {
	case 0: // struct with one exported field per element
		r.Kind = "struct"
		r.Names = make([]string, len(fts))
		tags := make([]string, len(fts))
		for i, ft := range fts {
			r.Fields[i] = DrawRep(t, ft, false, fmt.Sprintf("%s/f%d", label, i))
			if names != nil {
				// field name matches the UDT field name case-insensitively, or carries a tag
				if rapid.IntRange(0, 3).Draw(t, fmt.Sprintf("%s/tag%d", label, i)) == 0 {
					r.Names[i] = fmt.Sprintf("T%d", i)
					tags[i] = names[i]
				} else {
					r.Names[i] = strings.ToUpper(names[i][:1]) + names[i][1:]
				}
			} else {
				r.Names[i] = fmt.Sprintf("F%d", i)
			}
		}
		r.Tags = tags
	case 1: // []interface{} with per-element representations
		r.Kind = "ifaceslice"
		for i, ft := range fts {
			r.Fields[i] = DrawRep(t, ft, false, fmt.Sprintf("%s/f%d", label, i))
			r.Fields[i].Iface = true
		}
	case 2: // slice/array of a common representation: only when all field types are the same CQL type
		same := true
		for _, ft := range fts {
			if ft.AsCql() != fts[0].AsCql() {
				same = false
			}
		}
		if !same {
			r.Kind = "ifaceslice"
			for i, ft := range fts {
				r.Fields[i] = DrawRep(t, ft, false, fmt.Sprintf("%s/f%d", label, i))
				r.Fields[i].Iface = true
			}
			return
		}
		r.Elem = DrawRep(t, fts[0], false, label+"/e")
		if rapid.Bool().Draw(t, label+"/array") {
			r.Kind = "array"
			r.ArrLen = len(fts)
		} else {
			r.Kind = "slice"
		}
		r.Fields = nil
	default: // UDT as map[string]interface{}
		r.Kind = "ifacemap"
		for i, ft := range fts {
			r.Fields[i] = DrawRep(t, ft, false, fmt.Sprintf("%s/f%d", label, i))
			r.Fields[i].Iface = true
		}
	}
}

// ---------------------------------------------------------------------------------------------------------------
// values

var bigBounds []*big.Int

func init() {
	for _, k := range []uint{0, 7, 8, 15, 16, 31, 32, 63, 64, 127, 128, 130} {
		p := new(big.Int).Lsh(big.NewInt(1), k)
		for _, d := range []int64{-1, 0, 1} {
			x := new(big.Int).Add(p, big.NewInt(d))
			bigBounds = append(bigBounds, x, new(big.Int).Neg(x))
		}
	}
	bigBounds = append(bigBounds, big.NewInt(0))
}

// drawBigIn draws an integer in [lo,hi], boundary-biased.
func drawBigIn(t *rapid.T, lo, hi *big.Int, label string) *big.Int {
	mode := rapid.IntRange(0, 3).Draw(t, label+"/mode")
	if mode <= 1 {
		var cands []*big.Int
		for _, b := range bigBounds {
			if b.Cmp(lo) >= 0 && b.Cmp(hi) <= 0 {
				cands = append(cands, b)
			}
		}
		cands = append(cands, lo, hi)
		return new(big.Int).Set(rapid.SampledFrom(cands).Draw(t, label))
	}
	// uniform-ish: lo + (random mod span)
	span := new(big.Int).Sub(hi, lo)
	span.Add(span, big.NewInt(1))
	raw := rapid.SliceOfN(rapid.Byte(), 1, 20).Draw(t, label+"/raw")
	x := new(big.Int).SetBytes(raw)
	x.Mod(x, span)
	return x.Add(x, lo)
}

func clampRange(lo, hi *big.Int, lo2, hi2 *big.Int) (*big.Int, *big.Int) {
	if lo2.Cmp(lo) > 0 {
		lo = lo2
	}
	if hi2.Cmp(hi) < 0 {
		hi = hi2
	}
	return lo, hi
}

func pow2(k uint) *big.Int { return new(big.Int).Lsh(big.NewInt(1), k) }

// cqlIntRange: the value range of an integer-like CQL type.
func cqlIntRange(code primitive.DataTypeCode) (*big.Int, *big.Int) {
	switch code {
	case primitive.DataTypeCodeTinyint:
		return big.NewInt(-128), big.NewInt(127)
	case primitive.DataTypeCodeSmallint:
		return big.NewInt(-32768), big.NewInt(32767)
	case primitive.DataTypeCodeInt, primitive.DataTypeCodeDate:
		return big.NewInt(math.MinInt32), big.NewInt(math.MaxInt32)
	case primitive.DataTypeCodeTime:
		return big.NewInt(0), big.NewInt(86399999999999)
	case primitive.DataTypeCodeVarint:
		return new(big.Int).Neg(pow2(140)), pow2(140)
	case primitive.DataTypeCodeBoolean:
		return big.NewInt(0), big.NewInt(1)
	}
	return big.NewInt(math.MinInt64), big.NewInt(math.MaxInt64)
}

// DrawAV draws an abstract value of type dt that representation r can hold exactly (the documented lossless domain).
func DrawAV(t *rapid.T, dt datatype.DataType, r *Rep, v primitive.ProtocolVersion, allowNull bool, label string) AV {
	if allowNull && r.Nillable() && rapid.IntRange(0, 7).Draw(t, label+"/null") == 0 {
		return NullAV()
	}
	nested := AtLeast(v, 3) // v2 collections cannot carry null elements
	switch x := dt.(type) {
	case *datatype.List:
		return drawSeqAV(t, x.ElementType, r, v, nested, label)
	case *datatype.Set:
		return drawSeqAV(t, x.ElementType, r, v, nested, label)
	case *datatype.Map:
		n := rapid.IntRange(0, 4).Draw(t, label+"/n")
		av := AV{Elems: []AV{}, Keys: []AV{}}
		seen := map[string]bool{}
		for i := 0; i < n; i++ {
			k := scrubNaN(x.KeyType, DrawAV(t, x.KeyType, r.Key, v, false, fmt.Sprintf("%s/k%d", label, i)))
			ks := fmt.Sprintf("%v", RenderAV(x.KeyType, k))
			if seen[ks] {
				continue
			}
			seen[ks] = true
			av.Keys = append(av.Keys, k)
			av.Elems = append(av.Elems, DrawAV(t, x.ValueType, r.Elem, v, nested, fmt.Sprintf("%s/v%d", label, i)))
		}
		return av
	case *datatype.Tuple:
		return drawFieldsAV(t, x.FieldTypes, r, v, label)
	case *datatype.UserDefined:
		return drawFieldsAV(t, x.FieldTypes, r, v, label)
	}
	code := dt.Code()
	switch code {
	case primitive.DataTypeCodeFloat:
		f := drawFloat32(t, label)
		return AV{Bits: uint64(math.Float32bits(f))}
	case primitive.DataTypeCodeDouble:
		if r.Kind == "float32" {
			return AV{Bits: math.Float64bits(float64(drawFloat32(t, label)))}
		}
		f := drawFloat64(t, label)
		if r.Kind == "bigfloat" && (math.IsNaN(f) || math.IsInf(f, 0)) {
			f = 1.5
		}
		return AV{Bits: math.Float64bits(f)}
	case primitive.DataTypeCodeDecimal:
		return AV{Int: drawBigIn(t, new(big.Int).Neg(pow2(100)), pow2(100), label+"/unscaled"), Scale: Int32(t, label+"/scale")}
	case primitive.DataTypeCodeDuration:
		sign := int64(1)
		if rapid.Bool().Draw(t, label+"/neg") {
			sign = -1
		}
		m := drawBigIn(t, big.NewInt(0), big.NewInt(math.MaxInt32), label+"/months").Int64()
		d := drawBigIn(t, big.NewInt(0), big.NewInt(math.MaxInt32), label+"/days").Int64()
		n := drawBigIn(t, big.NewInt(0), big.NewInt(math.MaxInt64), label+"/nanos")
		return AV{M: sign * m, D: sign * d, Int: n.Mul(n, big.NewInt(sign))}
	case primitive.DataTypeCodeAscii, primitive.DataTypeCodeVarchar:
		s := Str(t, label)
		if v == primitive.ProtocolVersion2 && len(s) > 2000 {
			s = s[:2000] // v2 collection elements are [short bytes]: keep every (nested) element below 65536 bytes
			for !utf8.ValidString(s) && len(s) > 0 {
				s = s[:len(s)-1]
			}
		}
		if r.Kind == "runes" && !utf8.ValidString(s) {
			s = "x"
		}
		if code == primitive.DataTypeCodeAscii {
			s = strings.Map(func(c rune) rune {
				if c > 127 {
					return 'a'
				}
				return c
			}, s)
		}
		return AV{Bytes: []byte(s)}
	case primitive.DataTypeCodeBlob, primitive.DataTypeCodeCustom:
		if v == primitive.ProtocolVersion2 {
			return AV{Bytes: Blob(t, label, 2000)}
		}
		return AV{Bytes: Blob(t, label, 70000)}
	case primitive.DataTypeCodeInet:
		ip := IP(t, label)
		if v4 := ip.To4(); v4 != nil {
			ip = v4
		}
		return AV{Bytes: []byte(ip)}
	case primitive.DataTypeCodeUuid, primitive.DataTypeCodeTimeuuid:
		return AV{Bytes: rapid.SliceOfN(rapid.Byte(), 16, 16).Draw(t, label)}
	}
	// integer-like
	lo, hi := cqlIntRange(code)
	if ik, ok := intKinds[r.Kind]; ok {
		lo, hi = clampRange(lo, hi, ik.min, ik.max)
		if r.Kind == "int" || r.Kind == "uint" {
			// platform ints are 64-bit here
		}
	}
	switch r.Kind {
	case "time":
		switch code {
		case primitive.DataTypeCodeTimestamp: // full int64 millisecond range is convertible
		case primitive.DataTypeCodeDate:
		}
	case "string":
		switch code {
		case primitive.DataTypeCodeDate: // layout 2006-01-02 parses years 0000..9999
			lo, hi = clampRange(lo, hi, big.NewInt(-719162), big.NewInt(2932896))
		case primitive.DataTypeCodeTimestamp:
			lo, hi = clampRange(lo, hi, big.NewInt(-62135596800000), big.NewInt(253402300799999))
		}
	case "bool":
		lo, hi = big.NewInt(0), big.NewInt(1)
	}
	if lo.Cmp(hi) > 0 {
		lo, hi = big.NewInt(0), big.NewInt(0)
	}
	return AV{Int: drawBigIn(t, lo, hi, label)}
}

func drawSeqAV(t *rapid.T, et datatype.DataType, r *Rep, v primitive.ProtocolVersion, nested bool, label string) AV {
	n := rapid.IntRange(0, 4).Draw(t, label+"/n")
	if r.Kind == "array" {
		if r.ArrLen < 0 {
			r.ArrLen = n
		}
		n = r.ArrLen
	}
	av := AV{Elems: make([]AV, n)}
	for i := range av.Elems {
		av.Elems[i] = DrawAV(t, et, r.Elem, v, nested, fmt.Sprintf("%s/e%d", label, i))
	}
	return av
}

func drawFieldsAV(t *rapid.T, fts []datatype.DataType, r *Rep, v primitive.ProtocolVersion, label string) AV {
	av := AV{Elems: make([]AV, len(fts))}
	for i, ft := range fts {
		fr := r.Elem
		if r.Fields != nil {
			fr = r.Fields[i]
		}
		av.Elems[i] = DrawAV(t, ft, fr, v, true, fmt.Sprintf("%s/f%d", label, i))
	}
	return av
}

func drawFloat32(t *rapid.T, label string) float32 {
	if rapid.IntRange(0, 2).Draw(t, label+"/b") == 0 {
		return rapid.SampledFrom([]float32{0, float32(math.Copysign(0, -1)), 1, -1, math.MaxFloat32, -math.MaxFloat32, math.SmallestNonzeroFloat32,
			float32(math.Inf(1)), float32(math.Inf(-1)), float32(math.NaN()), 1.5, 16777217}).Draw(t, label)
	}
	f := math.Float32frombits(rapid.Uint32().Draw(t, label))
	if f != f {
		// NaN payloads: quiet NaNs only. A signalling NaN does not survive a float32 -> float64 -> float32 conversion on
		// the hardware (it comes back quiet), and every NaN bit pattern is a valid encoding of NaN
		f = math.Float32frombits(math.Float32bits(f) | 0x00400000)
	}
	return f
}

func drawFloat64(t *rapid.T, label string) float64 {
	if rapid.IntRange(0, 2).Draw(t, label+"/b") == 0 {
		return rapid.SampledFrom([]float64{0, math.Copysign(0, -1), 1, -1, math.MaxFloat64, -math.MaxFloat64, math.SmallestNonzeroFloat64,
			math.Inf(1), math.Inf(-1), math.NaN(), 1.5, 1 << 53, 1<<53 + 1, math.MaxFloat32 * 2}).Draw(t, label)
	}
	f := math.Float64frombits(rapid.Uint64().Draw(t, label))
	if f != f {
		f = math.Float64frombits(math.Float64bits(f) | 0x0008000000000000) // quiet NaNs only, as above
	}
	return f
}

// ---------------------------------------------------------------------------------------------------------------
// abstract value -> Go source

func wrapDecl(r *Rep, base reflect.Value) reflect.Value {
	v := base
	if (r.Ptr || r.needsPtr()) && v.Kind() != reflect.Ptr {
		p := reflect.New(v.Type())
		p.Elem().Set(v)
		v = p
	}
	if r.Iface {
		iv := reflect.New(tIface).Elem()
		iv.Set(v)
		return iv
	}
	return v
}

// ToGo builds the Go value (of r.DeclType()) denoting av.
func ToGo(av AV, dt datatype.DataType, r *Rep) reflect.Value {
	if av.Null {
		return reflect.Zero(r.DeclType())
	}
	return wrapDecl(r, toGoBase(av, dt, r))
}

func setInt(dst reflect.Value, x *big.Int) {
	switch dst.Kind() {
	case reflect.Int, reflect.Int8, reflect.Int16, reflect.Int32, reflect.Int64:
		dst.SetInt(x.Int64())
	default:
		dst.SetUint(x.Uint64())
	}
}

func toGoBase(av AV, dt datatype.DataType, r *Rep) reflect.Value {
	code := dt.Code()
	bt := r.BaseType()
	out := reflect.New(bt).Elem()
	if _, ok := intKinds[r.Kind]; ok {
		setInt(out, av.Int)
		return out
	}
	switch r.Kind {
	case "bigint":
		return reflect.ValueOf(new(big.Int).Set(av.Int))
	case "bool":
		out.SetBool(av.Int.Sign() != 0)
	case "float32":
		if code == primitive.DataTypeCodeFloat {
			out.SetFloat(float64(math.Float32frombits(uint32(av.Bits))))
		} else {
			out.SetFloat(math.Float64frombits(av.Bits))
		}
	case "float64":
		if code == primitive.DataTypeCodeFloat {
			out.SetFloat(float64(math.Float32frombits(uint32(av.Bits))))
		} else {
			out.SetFloat(math.Float64frombits(av.Bits))
		}
	case "bigfloat":
		return reflect.ValueOf(new(big.Float).SetFloat64(math.Float64frombits(av.Bits)))
	case "decimal":
		out.Set(reflect.ValueOf(datacodec.CqlDecimal{Unscaled: new(big.Int).Set(av.Int), Scale: av.Scale}))
	case "duration":
		out.Set(reflect.ValueOf(datacodec.CqlDuration{Months: int32(av.M), Days: int32(av.D), Nanos: time.Duration(av.Int.Int64())}))
	case "string":
		switch code {
		case primitive.DataTypeCodeAscii, primitive.DataTypeCodeVarchar, primitive.DataTypeCodeBlob, primitive.DataTypeCodeCustom:
			out.SetString(string(av.Bytes))
		case primitive.DataTypeCodeInet:
			out.SetString(net.IP(av.Bytes).String())
		case primitive.DataTypeCodeUuid, primitive.DataTypeCodeTimeuuid:
			var u primitive.UUID
			copy(u[:], av.Bytes)
			text := u.String()
			switch u[15] % 3 { // hex digits in lower case, upper case, or mixed (RFC 4122: case-insensitive on input)
			case 1:
				text = strings.ToUpper(text)
			case 2:
				b := []byte(text)
				for i := range b {
					if i%2 == 1 && b[i] >= 'a' && b[i] <= 'f' {
						b[i] -= 'a' - 'A'
					}
				}
				text = string(b)
			}
			out.SetString(text)
		case primitive.DataTypeCodeDate:
			out.SetString(time.Unix(av.Int.Int64()*86400, 0).UTC().Format("2006-01-02"))
		case primitive.DataTypeCodeTime:
			out.SetString(time.Date(0, 1, 1, 0, 0, 0, 0, time.UTC).Add(time.Duration(av.Int.Int64())).Format("15:04:05.999999999"))
		case primitive.DataTypeCodeTimestamp:
			ms := av.Int.Int64()
			out.SetString(time.Unix(floorDiv(ms, 1000), floorMod(ms, 1000)*1e6).UTC().Format("2006-01-02T15:04:05.999999999-07:00"))
		default:
			out.SetString(av.Int.String())
		}
	case "bytes":
		out.SetBytes(append([]byte{}, av.Bytes...))
	case "runes":
		out.Set(reflect.ValueOf([]rune(string(av.Bytes))))
	case "ip":
		out.Set(reflect.ValueOf(net.IP(append([]byte{}, av.Bytes...))))
	case "uuid":
		var u primitive.UUID
		copy(u[:], av.Bytes)
		out.Set(reflect.ValueOf(u))
	case "array16":
		var u [16]byte
		copy(u[:], av.Bytes)
		out.Set(reflect.ValueOf(u))
	case "time":
		// the same instant is presented in a location that depends on the value ("all time.Time values are normalized to
		// UTC before encoding"): UTC and six fixed zones, among them +14:00, -12:00 and two with minute offsets
		loc := zones[int(floorMod(av.Int.Int64(), int64(len(zones))))]
		switch code {
		case primitive.DataTypeCodeDate:
			out.Set(reflect.ValueOf(time.Unix(av.Int.Int64()*86400, 0).In(loc)))
		case primitive.DataTypeCodeTime:
			out.Set(reflect.ValueOf(time.Date(1970, 1, 1, 0, 0, 0, 0, time.UTC).Add(time.Duration(av.Int.Int64())).In(loc)))
		default:
			ms := av.Int.Int64()
			out.Set(reflect.ValueOf(time.Unix(floorDiv(ms, 1000), floorMod(ms, 1000)*1e6).In(loc)))
		}
	case "godur":
		out.SetInt(av.Int.Int64())
	case "slice", "array":
		var ets []datatype.DataType
		switch x := dt.(type) {
		case *datatype.List:
			ets = repeatType(x.ElementType, len(av.Elems))
		case *datatype.Set:
			ets = repeatType(x.ElementType, len(av.Elems))
		case *datatype.Tuple:
			ets = x.FieldTypes
		case *datatype.UserDefined:
			ets = x.FieldTypes
		}
		if r.Kind == "slice" {
			out.Set(reflect.MakeSlice(bt, len(av.Elems), len(av.Elems)))
		}
		for i, e := range av.Elems {
			out.Index(i).Set(ToGo(e, ets[i], r.Elem))
		}
	case "map":
		m := dt.(*datatype.Map)
		out.Set(reflect.MakeMapWithSize(bt, len(av.Keys)))
		for i := range av.Keys {
			out.SetMapIndex(ToGo(av.Keys[i], m.KeyType, r.Key), ToGo(av.Elems[i], m.ValueType, r.Elem))
		}
	case "struct":
		fts := fieldTypes(dt)
		for i, e := range av.Elems {
			out.Field(i).Set(ToGo(e, fts[i], r.Fields[i]))
		}
	case "ifaceslice":
		fts := fieldTypes(dt)
		out.Set(reflect.MakeSlice(bt, len(av.Elems), len(av.Elems)))
		for i, e := range av.Elems {
			out.Index(i).Set(ToGo(e, fts[i], r.Fields[i]))
		}
	case "ifacemap":
		u := dt.(*datatype.UserDefined)
		out.Set(reflect.MakeMapWithSize(bt, len(av.Elems)))
		for i, e := range av.Elems {
			out.SetMapIndex(reflect.ValueOf(u.FieldNames[i]), ToGo(e, u.FieldTypes[i], r.Fields[i]))
		}
	default:
		panic("gen: toGoBase: " + r.Kind)
	}
	return out
}

func repeatType(t datatype.DataType, n int) []datatype.DataType {
	out := make([]datatype.DataType, n)
	for i := range out {
		out[i] = t
	}
	return out
}

func fieldTypes(dt datatype.DataType) []datatype.DataType {
	switch x := dt.(type) {
	case *datatype.Tuple:
		return x.FieldTypes
	case *datatype.UserDefined:
		return x.FieldTypes
	}
	return nil
}

func floorDiv(a, b int64) int64 {
	q := a / b
	if (a%b != 0) && ((a < 0) != (b < 0)) {
		q--
	}
	return q
}

func floorMod(a, b int64) int64 { return a - floorDiv(a, b)*b }

// ---------------------------------------------------------------------------------------------------------------
// Go value -> abstract value (type-directed, through pointers and interfaces)

// FromGo reads any accepted representation of a value of CQL type dt back into an abstract value.
func FromGo(v reflect.Value, dt datatype.DataType) (AV, error) {
	for v.IsValid() && (v.Kind() == reflect.Ptr || v.Kind() == reflect.Interface) {
		if v.IsNil() {
			return NullAV(), nil
		}
		if v.Kind() == reflect.Ptr {
			switch v.Type().Elem() {
			case tBigInt, tBigFloat:
				return fromGoBase(v, dt)
			}
		}
		v = v.Elem()
	}
	if !v.IsValid() {
		return NullAV(), nil
	}
	return fromGoBase(v, dt)
}

func fromGoBase(v reflect.Value, dt datatype.DataType) (AV, error) {
	code := dt.Code()
	switch x := dt.(type) {
	case *datatype.List:
		return fromGoSeq(v, repeatType(x.ElementType, seqLen(v)))
	case *datatype.Set:
		return fromGoSeq(v, repeatType(x.ElementType, seqLen(v)))
	case *datatype.Tuple:
		return fromGoFields(v, x.FieldTypes, nil)
	case *datatype.UserDefined:
		return fromGoFields(v, x.FieldTypes, x.FieldNames)
	case *datatype.Map:
		if v.Kind() != reflect.Map {
			return AV{}, fmt.Errorf("expected a map for %s, got %v", dt.AsCql(), v.Type())
		}
		if v.IsNil() {
			return NullAV(), nil
		}
		av := AV{Keys: []AV{}, Elems: []AV{}}
		it := v.MapRange()
		for it.Next() {
			k, err := FromGo(it.Key(), x.KeyType)
			if err != nil {
				return AV{}, err
			}
			e, err := FromGo(it.Value(), x.ValueType)
			if err != nil {
				return AV{}, err
			}
			av.Keys = append(av.Keys, k)
			av.Elems = append(av.Elems, e)
		}
		return av, nil
	}
	// scalars
	if v.Kind() == reflect.Slice && v.IsNil() {
		return NullAV(), nil
	}
	switch t := v.Type(); {
	case t == reflect.PtrTo(tBigInt):
		return AV{Int: new(big.Int).Set(v.Interface().(*big.Int))}, nil
	case t == tBigInt:
		bi := v.Interface().(big.Int)
		return AV{Int: new(big.Int).Set(&bi)}, nil
	case t == reflect.PtrTo(tBigFloat):
		f, _ := v.Interface().(*big.Float).Float64()
		return AV{Bits: math.Float64bits(f)}, nil
	case t == tBigFloat:
		bf := v.Interface().(big.Float)
		f, _ := bf.Float64()
		return AV{Bits: math.Float64bits(f)}, nil
	case t == tDecimal:
		d := v.Interface().(datacodec.CqlDecimal)
		u := d.Unscaled
		if u == nil {
			u = big.NewInt(0)
		}
		return AV{Int: new(big.Int).Set(u), Scale: d.Scale}, nil
	case t == tCqlDuration:
		d := v.Interface().(datacodec.CqlDuration)
		return AV{M: int64(d.Months), D: int64(d.Days), Int: big.NewInt(int64(d.Nanos))}, nil
	case t == tTime:
		tm := v.Interface().(time.Time)
		switch code {
		case primitive.DataTypeCodeDate:
			if tm.UTC().Unix()%86400 != 0 || tm.Nanosecond() != 0 {
				return AV{}, fmt.Errorf("date decoded to a time with a clock part: %v", tm)
			}
			return AV{Int: big.NewInt(floorDiv(tm.UTC().Unix(), 86400))}, nil
		case primitive.DataTypeCodeTime:
			u := tm.UTC()
			return AV{Int: big.NewInt(int64(u.Hour())*3600e9 + int64(u.Minute())*60e9 + int64(u.Second())*1e9 + int64(u.Nanosecond()))}, nil
		default:
			ms := new(big.Int).Mul(big.NewInt(tm.Unix()), big.NewInt(1000))
			if tm.Nanosecond()%1e6 != 0 {
				return AV{}, fmt.Errorf("timestamp decoded with sub-millisecond part: %v", tm)
			}
			ms.Add(ms, big.NewInt(int64(tm.Nanosecond()/1e6)))
			return AV{Int: ms}, nil
		}
	case t == tDuration:
		return AV{Int: big.NewInt(v.Int())}, nil
	case t == tUUID || t == tArr16:
		b := make([]byte, 16)
		for i := range b {
			b[i] = byte(v.Index(i).Uint())
		}
		return AV{Bytes: b}, nil
	}
	switch v.Kind() {
	case reflect.Bool:
		if v.Bool() {
			return AV{Int: big.NewInt(1)}, nil
		}
		return AV{Int: big.NewInt(0)}, nil
	case reflect.Int, reflect.Int8, reflect.Int16, reflect.Int32, reflect.Int64:
		if code == primitive.DataTypeCodeBoolean {
			return AV{Int: big.NewInt(boolInt(v.Int() != 0))}, nil
		}
		return AV{Int: big.NewInt(v.Int())}, nil
	case reflect.Uint, reflect.Uint8, reflect.Uint16, reflect.Uint32, reflect.Uint64:
		if code == primitive.DataTypeCodeBoolean {
			return AV{Int: big.NewInt(boolInt(v.Uint() != 0))}, nil
		}
		return AV{Int: new(big.Int).SetUint64(v.Uint())}, nil
	case reflect.Float32:
		if code == primitive.DataTypeCodeFloat {
			return AV{Bits: uint64(math.Float32bits(float32(v.Float())))}, nil
		}
		return AV{Bits: math.Float64bits(v.Float())}, nil
	case reflect.Float64:
		if code == primitive.DataTypeCodeFloat {
			return AV{Bits: uint64(math.Float32bits(float32(v.Float())))}, nil
		}
		return AV{Bits: math.Float64bits(v.Float())}, nil
	case reflect.Slice:
		if v.Type().Elem().Kind() == reflect.Uint8 {
			b := append([]byte{}, v.Bytes()...)
			if code == primitive.DataTypeCodeInet {
				if v4 := net.IP(b).To4(); v4 != nil {
					b = v4
				}
			}
			return AV{Bytes: b}, nil
		}
		if v.Type().Elem().Kind() == reflect.Int32 { // []rune
			return AV{Bytes: []byte(string(v.Interface().([]rune)))}, nil
		}
	case reflect.String:
		s := v.String()
		switch code {
		case primitive.DataTypeCodeAscii, primitive.DataTypeCodeVarchar, primitive.DataTypeCodeBlob, primitive.DataTypeCodeCustom:
			return AV{Bytes: []byte(s)}, nil
		case primitive.DataTypeCodeInet:
			ip := net.ParseIP(s)
			if ip == nil {
				return AV{}, fmt.Errorf("inet decoded to unparsable string %q", s)
			}
			if v4 := ip.To4(); v4 != nil {
				ip = v4
			}
			return AV{Bytes: []byte(ip)}, nil
		case primitive.DataTypeCodeUuid, primitive.DataTypeCodeTimeuuid:
			u, err := primitive.ParseUuid(s)
			if err != nil {
				return AV{}, err
			}
			return AV{Bytes: u[:]}, nil
		case primitive.DataTypeCodeDate:
			tm, err := time.Parse("2006-01-02", s)
			if err != nil {
				return AV{}, err
			}
			return AV{Int: big.NewInt(floorDiv(tm.Unix(), 86400))}, nil
		case primitive.DataTypeCodeTime:
			tm, err := time.Parse("15:04:05.999999999", s)
			if err != nil {
				return AV{}, err
			}
			return AV{Int: big.NewInt(int64(tm.Hour())*3600e9 + int64(tm.Minute())*60e9 + int64(tm.Second())*1e9 + int64(tm.Nanosecond()))}, nil
		case primitive.DataTypeCodeTimestamp:
			tm, err := time.Parse("2006-01-02T15:04:05.999999999-07:00", s)
			if err != nil {
				return AV{}, err
			}
			ms := tm.Unix()*1000 + int64(tm.Nanosecond()/1e6)
			return AV{Int: big.NewInt(ms)}, nil
		default:
			x, ok := new(big.Int).SetString(s, 10)
			if !ok {
				return AV{}, fmt.Errorf("number decoded to unparsable string %q", s)
			}
			if strconv.Quote(x.String()) != strconv.Quote(s) {
				return AV{}, fmt.Errorf("number decoded to non-canonical string %q", s)
			}
			return AV{Int: x}, nil
		}
	}
	return AV{}, fmt.Errorf("cannot read a %v as %s", v.Type(), dt.AsCql())
}

func boolInt(b bool) int64 {
	if b {
		return 1
	}
	return 0
}

func seqLen(v reflect.Value) int {
	switch v.Kind() {
	case reflect.Slice, reflect.Array:
		return v.Len()
	}
	return 0
}

func fromGoSeq(v reflect.Value, ets []datatype.DataType) (AV, error) {
	if v.Kind() != reflect.Slice && v.Kind() != reflect.Array {
		return AV{}, fmt.Errorf("expected slice or array, got %v", v.Type())
	}
	if v.Kind() == reflect.Slice && v.IsNil() {
		return NullAV(), nil
	}
	av := AV{Elems: make([]AV, v.Len())}
	for i := range av.Elems {
		e, err := FromGo(v.Index(i), ets[i])
		if err != nil {
			return AV{}, fmt.Errorf("[%d]: %w", i, err)
		}
		av.Elems[i] = e
	}
	return av, nil
}

func fromGoFields(v reflect.Value, fts []datatype.DataType, names []string) (AV, error) {
	av := AV{Elems: make([]AV, len(fts))}
	switch v.Kind() {
	case reflect.Slice, reflect.Array:
		if v.Kind() == reflect.Slice && v.IsNil() {
			return NullAV(), nil
		}
		if v.Len() != len(fts) {
			return AV{}, fmt.Errorf("decoded %d fields, type has %d", v.Len(), len(fts))
		}
		return fromGoSeq(v, fts)
	case reflect.Struct:
		for i := range fts {
			var f reflect.Value
			if names == nil {
				f = v.Field(i)
			} else {
				for j := 0; j < v.NumField(); j++ {
					sf := v.Type().Field(j)
					if strings.EqualFold(sf.Name, names[i]) || sf.Tag.Get("cassandra") == names[i] {
						f = v.Field(j)
						break
					}
				}
				if !f.IsValid() {
					return AV{}, fmt.Errorf("struct has no field for %q", names[i])
				}
			}
			e, err := FromGo(f, fts[i])
			if err != nil {
				return AV{}, err
			}
			av.Elems[i] = e
		}
		return av, nil
	case reflect.Map:
		if v.IsNil() {
			return NullAV(), nil
		}
		for i := range fts {
			e := v.MapIndex(reflect.ValueOf(names[i]))
			if !e.IsValid() {
				av.Elems[i] = NullAV()
				continue
			}
			x, err := FromGo(e, fts[i])
			if err != nil {
				return AV{}, err
			}
			av.Elems[i] = x
		}
		return av, nil
	}
	return AV{}, fmt.Errorf("cannot read a %v as tuple/udt", v.Type())
}

// ---------------------------------------------------------------------------------------------------------------
// comparison and rendering

// RenderAV renders an abstract value deterministically (also used as equality key).
func RenderAV(dt datatype.DataType, av AV) string {
	if av.Null {
		return "NULL"
	}
	switch x := dt.(type) {
	case *datatype.List:
		return renderSeq(repeatType(x.ElementType, len(av.Elems)), av.Elems, "[", "]")
	case *datatype.Set:
		return renderSeq(repeatType(x.ElementType, len(av.Elems)), av.Elems, "{", "}")
	case *datatype.Tuple:
		return renderSeq(x.FieldTypes, av.Elems, "(", ")")
	case *datatype.UserDefined:
		return renderSeq(x.FieldTypes, av.Elems, "udt(", ")")
	case *datatype.Map:
		parts := make([]string, len(av.Keys))
		for i := range av.Keys {
			parts[i] = RenderAV(x.KeyType, av.Keys[i]) + ":" + RenderAV(x.ValueType, av.Elems[i])
		}
		sortStrings(parts)
		return "map{" + strings.Join(parts, ", ") + "}"
	}
	switch dt.Code() {
	case primitive.DataTypeCodeFloat:
		if f := math.Float32frombits(uint32(av.Bits)); f != f {
			return "f32:NaN"
		}
		return fmt.Sprintf("f32:%08x", uint32(av.Bits))
	case primitive.DataTypeCodeDouble:
		if f := math.Float64frombits(av.Bits); f != f {
			return "f64:NaN"
		}
		return fmt.Sprintf("f64:%016x", av.Bits)
	case primitive.DataTypeCodeDecimal:
		return fmt.Sprintf("dec(%v,%d)", av.Int, av.Scale)
	case primitive.DataTypeCodeDuration:
		return fmt.Sprintf("dur(%d,%d,%v)", av.M, av.D, av.Int)
	case primitive.DataTypeCodeAscii, primitive.DataTypeCodeVarchar, primitive.DataTypeCodeBlob, primitive.DataTypeCodeCustom,
		primitive.DataTypeCodeInet, primitive.DataTypeCodeUuid, primitive.DataTypeCodeTimeuuid:
		if len(av.Bytes) > 40 {
			return fmt.Sprintf("x%x..(%d bytes,h=%x)", av.Bytes[:16], len(av.Bytes), hashBytes(av.Bytes))
		}
		return fmt.Sprintf("x%x", av.Bytes)
	}
	if av.Int == nil {
		return "<nil int>"
	}
	return av.Int.String()
}

func hashBytes(b []byte) uint32 {
	h := uint32(2166136261)
	for _, c := range b {
		h ^= uint32(c)
		h *= 16777619
	}
	return h
}

func renderSeq(ts []datatype.DataType, es []AV, open, close string) string {
	parts := make([]string, len(es))
	for i := range es {
		parts[i] = RenderAV(ts[i], es[i])
	}
	return open + strings.Join(parts, ", ") + close
}

func sortStrings(a []string) { sort.Strings(a) }

// EqualAV compares by value (maps as sets of entries; NaN equal to itself by bits).
func EqualAV(dt datatype.DataType, a, b AV) bool { return RenderAV(dt, a) == RenderAV(dt, b) }

// PreferredHashable: the documented preferred Go type of dt can be used as a Go map key.
func PreferredHashable(dt datatype.DataType) bool {
	switch dt.Code() {
	case primitive.DataTypeCodeBlob, primitive.DataTypeCodeCustom, primitive.DataTypeCodeInet, primitive.DataTypeCodeList,
		primitive.DataTypeCodeSet, primitive.DataTypeCodeMap, primitive.DataTypeCodeTuple, primitive.DataTypeCodeUdt:
		return false
	}
	return true
}

// UntypedDecodable: an untyped (*interface{}) decode of dt has a Go type to decode into, i.e. no map inside dt has a key
// type whose preferred Go type is unhashable.
func UntypedDecodable(dt datatype.DataType) bool {
	switch x := dt.(type) {
	case *datatype.Map:
		return PreferredHashable(x.KeyType) && UntypedDecodable(x.KeyType) && UntypedDecodable(x.ValueType)
	case *datatype.List:
		return UntypedDecodable(x.ElementType)
	case *datatype.Set:
		return UntypedDecodable(x.ElementType)
	case *datatype.Tuple:
		for _, f := range x.FieldTypes {
			if !UntypedDecodable(f) {
				return false
			}
		}
	case *datatype.UserDefined:
		for _, f := range x.FieldTypes {
			if !UntypedDecodable(f) {
				return false
			}
		}
	}
	return true
}

// scrubNaN replaces NaN by 1.5 inside a value used as a map key: a Go map entry keyed by NaN (directly or inside a struct
// or array key) can never be looked up again, so such maps are not usable sources.
func scrubNaN(dt datatype.DataType, av AV) AV {
	if av.Null {
		return av
	}
	switch x := dt.(type) {
	case *datatype.List:
		for i := range av.Elems {
			av.Elems[i] = scrubNaN(x.ElementType, av.Elems[i])
		}
	case *datatype.Set:
		for i := range av.Elems {
			av.Elems[i] = scrubNaN(x.ElementType, av.Elems[i])
		}
	case *datatype.Tuple:
		for i := range av.Elems {
			av.Elems[i] = scrubNaN(x.FieldTypes[i], av.Elems[i])
		}
	case *datatype.UserDefined:
		for i := range av.Elems {
			av.Elems[i] = scrubNaN(x.FieldTypes[i], av.Elems[i])
		}
	case *datatype.Map:
		for i := range av.Keys {
			av.Keys[i] = scrubNaN(x.KeyType, av.Keys[i])
			av.Elems[i] = scrubNaN(x.ValueType, av.Elems[i])
		}
	default:
		switch dt.Code() {
		case primitive.DataTypeCodeFloat:
			if f := math.Float32frombits(uint32(av.Bits)); f != f {
				av.Bits = uint64(math.Float32bits(1.5))
			} else if f == 0 {
				av.Bits = 0 // +0 and -0 are the same Go map key
			}
		case primitive.DataTypeCodeDouble:
			if f := math.Float64frombits(av.Bits); f != f {
				av.Bits = math.Float64bits(1.5)
			} else if f == 0 {
				av.Bits = 0
			}
		}
	}
	return av
}

// fixKeyRep makes a representation used as a Go map key decodable: arrays and structs hash their elements, and an
// interface{}-typed element is decoded into the preferred Go type, which must then be hashable itself.
func fixKeyRep(r *Rep, dt datatype.DataType) {
	if r.Ptr || r.needsPtr() {
		return // pointer identity: contents are not hashed
	}
	fix := func(c *Rep, ct datatype.DataType) {
		if c.Iface && !PreferredHashable(ct) {
			c.Iface = false
			if !c.comparable() {
				c.Ptr = true
			}
		}
		fixKeyRep(c, ct)
	}
	switch r.Kind {
	case "array":
		switch x := dt.(type) {
		case *datatype.List:
			fix(r.Elem, x.ElementType)
		case *datatype.Set:
			fix(r.Elem, x.ElementType)
		case *datatype.Tuple:
			if len(x.FieldTypes) > 0 {
				fix(r.Elem, x.FieldTypes[0])
			}
		case *datatype.UserDefined:
			if len(x.FieldTypes) > 0 {
				fix(r.Elem, x.FieldTypes[0])
			}
		}
	case "struct":
		fts := fieldTypes(dt)
		for i, f := range r.Fields {
			fix(f, fts[i])
		}
	}
}
