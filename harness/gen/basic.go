// Package gen holds the constructive, version-aware generators (DESIGN.md 3.1, 3.5, 3.8).
// Every random choice is drawn from rapid so that cases shrink and replay.
package gen

import (
	"net"
	"strings"

	"github.com/datastax/go-cassandra-native-protocol/primitive"
	"pgregory.net/rapid"
)

var AllVersions = []primitive.ProtocolVersion{
	primitive.ProtocolVersion2, primitive.ProtocolVersion3, primitive.ProtocolVersion4,
	primitive.ProtocolVersion5, primitive.ProtocolVersionDse1, primitive.ProtocolVersionDse2,
}

func Version(t *rapid.T) primitive.ProtocolVersion {
	return rapid.SampledFrom(AllVersions).Draw(t, "version")
}

// Spec-derived version predicates (DESIGN.md Appendix A). Deliberately NOT the library's predicates.
func IsDse(v primitive.ProtocolVersion) bool { return v == 65 || v == 66 }
func AtLeast(v primitive.ProtocolVersion, oss int) bool {
	// DSE1/DSE2 are based on v4+/v5-draft: every feature introduced up to OSS v4 is present; v5 features per table.
	if IsDse(v) {
		return oss <= 4
	}
	return int(v) >= oss
}

// V5Feature: features the v5 spec introduces, with explicit DSE columns from Appendix A.
func HasKeyspaceFlag(v primitive.ProtocolVersion) bool     { return v == 5 || v == 66 }
func HasPrepareFlags(v primitive.ProtocolVersion) bool     { return v == 5 || v == 66 }
func HasResultMetadataId(v primitive.ProtocolVersion) bool { return v == 5 || v == 66 }
func HasNowInSeconds(v primitive.ProtocolVersion) bool     { return v == 5 }
func HasIntQueryFlags(v primitive.ProtocolVersion) bool    { return v == 5 || IsDse(v) }
func HasReasonMap(v primitive.ProtocolVersion) bool        { return v == 5 || IsDse(v) }
func HasContentions(v primitive.ProtocolVersion) bool      { return v == 5 }
func HasDuration(v primitive.ProtocolVersion) bool         { return v == 5 || IsDse(v) }
func HasSegments(v primitive.ProtocolVersion) bool         { return v == 5 }

// expand produces n bytes deterministically from (class, seed): the body of big values is a pure function of a
// small drawn triple so that rapid shrinks the triple.
func expand(class int, seed uint64, n int) []byte {
	b := make([]byte, n)
	switch class {
	case 0: // all equal
		c := byte(seed)
		for i := range b {
			b[i] = c
		}
	case 1: // short period
		period := int(seed%7) + 2
		for i := range b {
			b[i] = byte('a' + (i % period))
		}
	case 2: // text-like
		words := []string{"select ", "from ", "where ", "keyspace ", "table ", "value ", "and ", "= ? ", "cassandra ", "0123456789 "}
		var sb strings.Builder
		x := seed | 1
		for sb.Len() < n {
			x ^= x << 13
			x ^= x >> 7
			x ^= x << 17
			sb.WriteString(words[x%uint64(len(words))])
		}
		copy(b, sb.String())
	default: // incompressible xorshift stream
		x := seed*2685821657736338717 + 1442695040888963407
		if x == 0 {
			x = 1
		}
		for i := 0; i < n; i += 8 {
			x ^= x << 13
			x ^= x >> 7
			x ^= x << 17
			for j := 0; j < 8 && i+j < n; j++ {
				b[i+j] = byte(x >> (8 * uint(j)))
			}
		}
	}
	return b
}

// Expand is the exported form used by other generators (segments, compression).
func Expand(class int, seed uint64, n int) []byte { return expand(class, seed, n) }

// Blob draws a byte string: mostly short and drawn byte by byte, sometimes long and expanded from a triple.
// maxLen bounds the length. Never returns nil.
func Blob(t *rapid.T, label string, maxLen int) []byte {
	mode := rapid.IntRange(0, 19).Draw(t, label+"/mode")
	switch {
	case mode < 12 || maxLen <= 64:
		m := 24
		if maxLen < m {
			m = maxLen
		}
		b := rapid.SliceOfN(rapid.Byte(), 0, m).Draw(t, label)
		if b == nil {
			b = []byte{}
		}
		return b
	case mode < 18:
		hi := 4096
		if maxLen < hi {
			hi = maxLen
		}
		n := rapid.IntRange(0, hi).Draw(t, label+"/len")
		return expand(rapid.IntRange(0, 3).Draw(t, label+"/class"), rapid.Uint64().Draw(t, label+"/seed"), n)
	default:
		n := rapid.IntRange(maxLen/2, maxLen).Draw(t, label+"/len")
		return expand(rapid.IntRange(0, 3).Draw(t, label+"/class"), rapid.Uint64().Draw(t, label+"/seed"), n)
	}
}

// NonEmptyBlob: length >= 1.
func NonEmptyBlob(t *rapid.T, label string, maxLen int) []byte {
	b := Blob(t, label, maxLen)
	if len(b) == 0 {
		return []byte{rapid.Byte().Draw(t, label+"/b0")}
	}
	return b
}

// ShortBytesId: a prepared-statement or metadata id ([short bytes], 1..65535 bytes): mostly short, sometimes at the
// boundaries of the unsigned 16-bit length prefix.
func ShortBytesId(t *rapid.T, label string) []byte {
	if rapid.IntRange(0, 11).Draw(t, label+"/boundary") == 0 {
		n := rapid.SampledFrom([]int{255, 256, 32767, 32768, 40000, 65535}).Draw(t, label+"/len")
		return expand(rapid.IntRange(0, 3).Draw(t, label+"/class"), rapid.Uint64().Draw(t, label+"/seed"), n)
	}
	return NonEmptyBlob(t, label, 64)
}

// NullableBlob: nil (wire null), empty, or filled - for [bytes]/[value] positions.
func NullableBlob(t *rapid.T, label string, maxLen int) []byte {
	switch rapid.IntRange(0, 5).Draw(t, label+"/null") {
	case 0:
		return nil
	case 1:
		return []byte{}
	default:
		return Blob(t, label, maxLen)
	}
}

var boundaryLens = []int{255, 256, 65534, 65535}

// Str draws a [string] value (<= 65535 bytes), possibly empty.
func Str(t *rapid.T, label string) string {
	mode := rapid.IntRange(0, 49).Draw(t, label+"/mode")
	switch {
	case mode == 0:
		n := rapid.SampledFrom(boundaryLens).Draw(t, label+"/len")
		return string(expand(rapid.IntRange(1, 2).Draw(t, label+"/class"), rapid.Uint64().Draw(t, label+"/seed"), n))
	case mode < 4:
		return ""
	case mode < 30:
		return rapid.StringMatching(`[a-zA-Z_][a-zA-Z0-9_]{0,15}`).Draw(t, label)
	default:
		s := rapid.StringN(0, 20, 60).Draw(t, label) // arbitrary unicode, <= 60 bytes
		return s
	}
}

func NonEmptyStr(t *rapid.T, label string) string {
	s := Str(t, label)
	if s == "" {
		return rapid.StringMatching(`[a-z]{1,8}`).Draw(t, label+"/ne")
	}
	return s
}

// LongStr draws a [long string] value, up to maxLen bytes.
func LongStr(t *rapid.T, label string, maxLen int) string {
	mode := rapid.IntRange(0, 29).Draw(t, label+"/mode")
	switch {
	case mode == 0:
		lo := 65536
		if maxLen < lo {
			lo = maxLen / 2
		}
		n := rapid.IntRange(lo, maxLen).Draw(t, label+"/len")
		return string(expand(rapid.IntRange(0, 2).Draw(t, label+"/class"), rapid.Uint64().Draw(t, label+"/seed"), n))
	case mode < 4:
		n := rapid.IntRange(100, 5000).Draw(t, label+"/len")
		return string(expand(2, rapid.Uint64().Draw(t, label+"/seed"), n))
	case mode < 20:
		return "SELECT " + rapid.StringMatching(`[a-z]{1,6}`).Draw(t, label) + " FROM t WHERE k = ?"
	default:
		return rapid.StringN(0, 30, 100).Draw(t, label)
	}
}

var int32Bounds = []int32{0, 1, -1, 2, -2, 127, 128, 255, 256, 32767, 32768, 65535, 65536, 1<<31 - 1, -1 << 31, -1<<31 + 1, 1<<24 - 1, 1 << 24}
var int64Bounds = []int64{0, 1, -1, 1<<31 - 1, 1 << 31, -1 << 31, 1<<32 - 1, 1 << 32, 1<<63 - 1, -1 << 63, -1<<63 + 1, 1 << 40, -(1 << 40)}

func Int32(t *rapid.T, label string) int32 {
	if rapid.IntRange(0, 2).Draw(t, label+"/b") == 0 {
		return rapid.SampledFrom(int32Bounds).Draw(t, label)
	}
	return rapid.Int32().Draw(t, label)
}

func Int64(t *rapid.T, label string) int64 {
	if rapid.IntRange(0, 2).Draw(t, label+"/b") == 0 {
		return rapid.SampledFrom(int64Bounds).Draw(t, label)
	}
	return rapid.Int64().Draw(t, label)
}

func Uint16(t *rapid.T, label string) uint16 {
	if rapid.IntRange(0, 2).Draw(t, label+"/b") == 0 {
		return rapid.SampledFrom([]uint16{0, 1, 127, 128, 255, 256, 32767, 32768, 65534, 65535}).Draw(t, label)
	}
	return rapid.Uint16().Draw(t, label)
}

// IP draws an address as the library will see it: 4-byte v4, 16-byte v4 (v4-mapped), or 16-byte v6.
func IP(t *rapid.T, label string) net.IP {
	switch rapid.IntRange(0, 3).Draw(t, label+"/kind") {
	case 0:
		b := rapid.SliceOfN(rapid.Byte(), 4, 4).Draw(t, label)
		return net.IP(b)
	case 1:
		b := rapid.SliceOfN(rapid.Byte(), 4, 4).Draw(t, label)
		return net.IPv4(b[0], b[1], b[2], b[3])
	case 2:
		return net.ParseIP("::1")
	default:
		b := rapid.SliceOfN(rapid.Byte(), 16, 16).Draw(t, label)
		return net.IP(b)
	}
}

func Inet(t *rapid.T, label string) *primitive.Inet {
	return &primitive.Inet{Addr: IP(t, label+"/addr"), Port: Int32(t, label+"/port")}
}

func UUID(t *rapid.T, label string) *primitive.UUID {
	var u primitive.UUID
	switch rapid.IntRange(0, 9).Draw(t, label+"/boundary") {
	case 0: // the nil UUID
		return &u
	case 1:
		for i := range u {
			u[i] = 0xff
		}
		return &u
	}
	copy(u[:], rapid.SliceOfN(rapid.Byte(), 16, 16).Draw(t, label))
	return &u
}

func StrList(t *rapid.T, label string, max int) []string {
	n := rapid.IntRange(0, max).Draw(t, label+"/n")
	if n == 0 {
		if rapid.Bool().Draw(t, label+"/nil") {
			return nil
		}
		return []string{}
	}
	out := make([]string, n)
	for i := range out {
		out[i] = Str(t, label)
	}
	return out
}
