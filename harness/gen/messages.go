package gen

import (
	"fmt"
	"unicode/utf8"

	"github.com/datastax/go-cassandra-native-protocol/datatype"
	"github.com/datastax/go-cassandra-native-protocol/message"
	"github.com/datastax/go-cassandra-native-protocol/primitive"
	"pgregory.net/rapid"
)

// ---- column types (type descriptors), gated by the version's specification

func scalarTypes(v primitive.ProtocolVersion) []datatype.DataType {
	ts := []datatype.DataType{datatype.Ascii, datatype.Bigint, datatype.Blob, datatype.Boolean, datatype.Counter, datatype.Decimal,
		datatype.Double, datatype.Float, datatype.Int, datatype.Timestamp, datatype.Uuid, datatype.Varchar, datatype.Varint,
		datatype.Timeuuid, datatype.Inet}
	if AtLeast(v, 4) {
		ts = append(ts, datatype.Date, datatype.Time, datatype.Smallint, datatype.Tinyint)
	}
	if HasDuration(v) {
		ts = append(ts, datatype.Duration)
	}
	return ts
}

// DataType draws a type descriptor valid for version v, nested to at most depth levels.
func DataType(t *rapid.T, v primitive.ProtocolVersion, depth int, label string) datatype.DataType {
	kinds := 8
	if !AtLeast(v, 3) {
		kinds = 6 // no tuple / UDT in v2
	}
	k := 0
	if depth > 0 {
		k = rapid.IntRange(0, kinds+3).Draw(t, label+"/kind")
	} else if rapid.IntRange(0, 9).Draw(t, label+"/custom") == 0 {
		k = 3
	}
	switch k {
	case 4:
		return datatype.NewList(DataType(t, v, depth-1, label+"/e"))
	case 5:
		return datatype.NewSet(DataType(t, v, depth-1, label+"/e"))
	case 6:
		return datatype.NewMap(DataType(t, v, depth-1, label+"/k"), DataType(t, v, depth-1, label+"/v"))
	case 3:
		return datatype.NewCustom(Str(t, label+"/class"))
	case 7, 8:
		if kinds == 6 {
			return datatype.NewList(DataType(t, v, depth-1, label+"/e"))
		}
		n := rapid.IntRange(0, 4).Draw(t, label+"/n")
		fts := make([]datatype.DataType, n)
		for i := range fts {
			fts[i] = DataType(t, v, depth-1, fmt.Sprintf("%s/f%d", label, i))
		}
		if k == 7 {
			return datatype.NewTuple(fts...)
		}
		names := make([]string, n)
		for i := range names {
			names[i] = Str(t, fmt.Sprintf("%s/n%d", label, i))
		}
		u, _ := datatype.NewUserDefined(Str(t, label+"/ks"), Str(t, label+"/name"), names, fts)
		return u
	default:
		return rapid.SampledFrom(scalarTypes(v)).Draw(t, label+"/scalar")
	}
}

// ---- [value]s

func Value(t *rapid.T, v primitive.ProtocolVersion, label string) *primitive.Value {
	hi := 7
	if AtLeast(v, 4) {
		hi = 8
	}
	switch rapid.IntRange(0, hi).Draw(t, label+"/kind") {
	case 0:
		return primitive.NewNullValue()
	case 1:
		return primitive.NewValue([]byte{})
	case 8:
		return primitive.NewUnsetValue()
	default:
		return primitive.NewValue(Blob(t, label, 70000))
	}
}

func PositionalValues(t *rapid.T, v primitive.ProtocolVersion, label string, allowNil bool) []*primitive.Value {
	n := rapid.IntRange(0, 5).Draw(t, label+"/n")
	if n == 0 && allowNil && rapid.Bool().Draw(t, label+"/nil") {
		return nil
	}
	out := make([]*primitive.Value, n)
	for i := range out {
		out[i] = Value(t, v, fmt.Sprintf("%s/%d", label, i))
	}
	return out
}

func consistency(t *rapid.T, label string) primitive.ConsistencyLevel {
	return primitive.ConsistencyLevel(rapid.IntRange(0, 10).Draw(t, label))
}

func serialConsistency(t *rapid.T, label string) *primitive.ConsistencyLevel {
	c := rapid.SampledFrom([]primitive.ConsistencyLevel{primitive.ConsistencyLevelSerial, primitive.ConsistencyLevelLocalSerial}).Draw(t, label)
	return &c
}

// QueryOptions draws options using only features the specification of v defines.
func QueryOptions(t *rapid.T, v primitive.ProtocolVersion, label string) *message.QueryOptions {
	if rapid.IntRange(0, 11).Draw(t, label+"/nil") == 0 {
		return nil // "use defaults if nil provided"
	}
	o := &message.QueryOptions{Consistency: consistency(t, label+"/cl")}
	switch rapid.IntRange(0, 3).Draw(t, label+"/values") {
	case 1:
		o.PositionalValues = PositionalValues(t, v, label+"/pos", false)
	case 2:
		if AtLeast(v, 3) {
			n := rapid.IntRange(0, 4).Draw(t, label+"/named/n")
			o.NamedValues = map[string]*primitive.Value{}
			for i := 0; i < n; i++ {
				o.NamedValues[Str(t, fmt.Sprintf("%s/named/k%d", label, i))] = Value(t, v, fmt.Sprintf("%s/named/v%d", label, i))
			}
		} else {
			o.PositionalValues = PositionalValues(t, v, label+"/pos", false)
		}
	}
	o.SkipMetadata = rapid.Bool().Draw(t, label+"/skip")
	if rapid.Bool().Draw(t, label+"/hasPageSize") {
		o.PageSize = rapid.SampledFrom([]int32{1, 2, 100, 5000, 65536, 1<<31 - 1}).Draw(t, label+"/pageSize")
		if IsDse(v) {
			o.PageSizeInBytes = rapid.Bool().Draw(t, label+"/pageSizeBytes")
		}
	}
	if rapid.Bool().Draw(t, label+"/hasPagingState") {
		o.PagingState = Blob(t, label+"/pagingState", 2000)
	}
	if rapid.Bool().Draw(t, label+"/hasSerial") {
		o.SerialConsistency = serialConsistency(t, label+"/serial")
	}
	if AtLeast(v, 3) && rapid.Bool().Draw(t, label+"/hasTs") {
		ts := Int64(t, label+"/ts")
		o.DefaultTimestamp = &ts
	}
	if HasKeyspaceFlag(v) && rapid.Bool().Draw(t, label+"/hasKs") {
		o.Keyspace = NonEmptyStr(t, label+"/ks")
	}
	if HasNowInSeconds(v) && rapid.Bool().Draw(t, label+"/hasNow") {
		n := Int32(t, label+"/now")
		o.NowInSeconds = &n
	}
	if IsDse(v) && rapid.Bool().Draw(t, label+"/hasCp") {
		o.ContinuousPagingOptions = &message.ContinuousPagingOptions{MaxPages: Int32(t, label+"/cp/max"), PagesPerSecond: Int32(t, label+"/cp/pps")}
		if v == primitive.ProtocolVersionDse2 {
			o.ContinuousPagingOptions.NextPages = Int32(t, label+"/cp/next")
		}
	}
	return o
}

func columnMetadata(t *rapid.T, v primitive.ProtocolVersion, depth int, sameTable bool, ks, table string, label string) *message.ColumnMetadata {
	c := &message.ColumnMetadata{Keyspace: ks, Table: table, Name: Str(t, label+"/name"), Type: DataType(t, v, depth, label+"/type")}
	if !sameTable {
		c.Keyspace = Str(t, label+"/ks")
		c.Table = Str(t, label+"/table")
	}
	return c
}

// fit leaves room for a one-character suffix within the 65535 bytes of a [string] (cut at a rune boundary).
func fit(s string) string {
	for len(s) > 65534 {
		s = s[:len(s)-1]
	}
	for len(s) > 0 && !utf8.ValidString(s) {
		s = s[:len(s)-1]
	}
	return s
}

func columns(t *rapid.T, v primitive.ProtocolVersion, n, depth int, label string) []*message.ColumnMetadata {
	// all columns of one table (global table spec) / each column from its own table / near misses of "one table": the
	// same table name in different keyspaces, different tables of one keyspace, one stray column among same-table ones
	mode := rapid.IntRange(0, 7).Draw(t, label+"/tableMode")
	same := mode <= 2
	ks, tb := Str(t, label+"/gks"), Str(t, label+"/gtable")
	cols := make([]*message.ColumnMetadata, n)
	for i := range cols {
		cols[i] = columnMetadata(t, v, depth, same || mode >= 5, ks, tb, fmt.Sprintf("%s/c%d", label, i))
		switch {
		case mode == 5: // same table name, keyspaces differ
			cols[i].Keyspace = fmt.Sprintf("%s%d", fit(ks), i%2)
		case mode == 6: // same keyspace, table names differ
			cols[i].Table = fmt.Sprintf("%s%d", fit(tb), i%2)
		case mode == 7 && i == n-1 && n > 1: // only the last column is from elsewhere
			cols[i].Keyspace = fit(ks) + "x"
		}
	}
	return cols
}

// RowsMetadata: result metadata for ROWS (forRows) or PREPARED.
func RowsMetadata(t *rapid.T, v primitive.ProtocolVersion, depth int, label string) *message.RowsMetadata {
	m := &message.RowsMetadata{}
	n := rapid.IntRange(0, 5).Draw(t, label+"/ncols")
	m.ColumnCount = int32(n)
	if n > 0 && rapid.IntRange(0, 3).Draw(t, label+"/noMetadata") != 0 {
		m.Columns = columns(t, v, n, depth, label)
	}
	if rapid.Bool().Draw(t, label+"/hasPagingState") {
		m.PagingState = Blob(t, label+"/pagingState", 2000)
	}
	if HasResultMetadataId(v) && rapid.Bool().Draw(t, label+"/hasNewId") {
		m.NewResultMetadataId = ShortBytesId(t, label+"/newId")
	}
	if IsDse(v) && rapid.Bool().Draw(t, label+"/cp") {
		m.ContinuousPageNumber = rapid.SampledFrom([]int32{1, 2, 1000, 1<<31 - 1}).Draw(t, label+"/pageNo")
		m.LastContinuousPage = rapid.Bool().Draw(t, label+"/last")
	}
	return m
}

func rowsData(t *rapid.T, ncols int, label string) message.RowSet {
	mode := rapid.IntRange(0, 9).Draw(t, label+"/mode")
	var nrows int
	switch {
	case mode < 6:
		nrows = rapid.IntRange(0, 4).Draw(t, label+"/nrows")
	case mode < 9:
		nrows = rapid.IntRange(5, 60).Draw(t, label+"/nrows")
	default:
		nrows = rapid.IntRange(100, 1500).Draw(t, label+"/nrows")
	}
	if nrows == 0 && rapid.Bool().Draw(t, label+"/nil") {
		return nil
	}
	data := make(message.RowSet, nrows)
	if mode == 9 || (mode >= 6 && rapid.Bool().Draw(t, label+"/repeated")) {
		// repeated-value rows (highly compressible) or random rows (incompressible): expanded from a triple
		class := rapid.SampledFrom([]int{0, 0, 1, 2, 3}).Draw(t, label+"/class")
		seed := rapid.Uint64().Draw(t, label+"/seed")
		cell := rapid.IntRange(0, 600).Draw(t, label+"/cell")
		for i := range data {
			row := make(message.Row, ncols)
			for j := range row {
				s := seed
				if class == 3 {
					s = seed + uint64(i*ncols+j)
				}
				row[j] = expand(class, s, cell)
			}
			data[i] = row
		}
		return data
	}
	for i := range data {
		row := make(message.Row, ncols)
		for j := range row {
			row[j] = NullableBlob(t, fmt.Sprintf("%s/r%dc%d", label, i, j), 300)
		}
		data[i] = row
	}
	return data
}

var schemaChangeTypes = []primitive.SchemaChangeType{primitive.SchemaChangeTypeCreated, primitive.SchemaChangeTypeUpdated, primitive.SchemaChangeTypeDropped}

func schemaChange(t *rapid.T, v primitive.ProtocolVersion, label string) (ct primitive.SchemaChangeType, target primitive.SchemaChangeTarget, ks, obj string, args []string) {
	ct = rapid.SampledFrom(schemaChangeTypes).Draw(t, label+"/changeType")
	targets := []primitive.SchemaChangeTarget{primitive.SchemaChangeTargetKeyspace, primitive.SchemaChangeTargetTable}
	if AtLeast(v, 3) {
		targets = append(targets, primitive.SchemaChangeTargetType)
	}
	if AtLeast(v, 4) {
		targets = append(targets, primitive.SchemaChangeTargetFunction, primitive.SchemaChangeTargetAggregate)
	}
	target = rapid.SampledFrom(targets).Draw(t, label+"/target")
	ks = NonEmptyStr(t, label+"/ks")
	switch target {
	case primitive.SchemaChangeTargetKeyspace:
	case primitive.SchemaChangeTargetFunction, primitive.SchemaChangeTargetAggregate:
		obj = NonEmptyStr(t, label+"/obj")
		args = StrList(t, label+"/args", 4)
	default:
		obj = NonEmptyStr(t, label+"/obj")
	}
	return
}

// write types per specification text: v2-v4 and DSE list five; v5 adds CAS, VIEW, CDC (Appendix A '?' cells are generated
// for the round trip only when `all` is set).
func writeType(t *rapid.T, v primitive.ProtocolVersion, all bool, label string) primitive.WriteType {
	wts := []primitive.WriteType{primitive.WriteTypeSimple, primitive.WriteTypeBatch, primitive.WriteTypeUnloggedBatch, primitive.WriteTypeCounter, primitive.WriteTypeBatchLog}
	if v == 5 || all {
		wts = append(wts, primitive.WriteTypeCas, primitive.WriteTypeView, primitive.WriteTypeCdc)
	}
	return rapid.SampledFrom(wts).Draw(t, label)
}

func reasonMap(t *rapid.T, label string) []*primitive.FailureReason {
	n := rapid.IntRange(0, 4).Draw(t, label+"/n")
	if n == 0 && rapid.Bool().Draw(t, label+"/nil") {
		return nil
	}
	out := make([]*primitive.FailureReason, n)
	for i := range out {
		out[i] = &primitive.FailureReason{Endpoint: IP(t, fmt.Sprintf("%s/ip%d", label, i)), Code: primitive.FailureCode(rapid.IntRange(0, 6).Draw(t, fmt.Sprintf("%s/code%d", label, i)))}
	}
	return out
}

// Kind describes one message kind with the versions whose specification defines it.
type Kind struct {
	Name     string
	Response bool
	OpCode   primitive.OpCode
	Valid    func(v primitive.ProtocolVersion) bool
	Draw     func(t *rapid.T, v primitive.ProtocolVersion, o Opts) message.Message
}

// Opts tune sizes.
type Opts struct {
	TypeDepth     int  // nesting of column types
	MaxLongString int  // upper bound for [long string] (query strings)
	AllWriteTypes bool // generate write types beyond those the version's spec text lists (round trip only)
}

func DefaultOpts() Opts { return Opts{TypeDepth: 3, MaxLongString: 262144, AllWriteTypes: true} }

func always(primitive.ProtocolVersion) bool   { return true }
func v4plus(v primitive.ProtocolVersion) bool { return AtLeast(v, 4) }

func simpleError(name string, mk func(string) message.Message) Kind {
	return Kind{Name: "ERROR/" + name, Response: true, OpCode: primitive.OpCodeError, Valid: always,
		Draw: func(t *rapid.T, v primitive.ProtocolVersion, o Opts) message.Message { return mk(Str(t, "msg")) }}
}

var Kinds = []Kind{
	{Name: "STARTUP", OpCode: primitive.OpCodeStartup, Valid: always, Draw: func(t *rapid.T, v primitive.ProtocolVersion, o Opts) message.Message {
		if rapid.IntRange(0, 3).Draw(t, "plain") == 0 {
			return message.NewStartup()
		}
		m := &message.Startup{Options: map[string]string{}}
		keys := []string{message.StartupOptionCqlVersion, message.StartupOptionCompression, message.StartupOptionClientId, message.StartupOptionApplicationName,
			message.StartupOptionApplicationVersion, message.StartupOptionDriverName, message.StartupOptionDriverVersion, message.StartupOptionThrowOnOverload}
		n := rapid.IntRange(0, 5).Draw(t, "n")
		for i := 0; i < n; i++ {
			k := Str(t, fmt.Sprintf("k%d", i))
			if rapid.Bool().Draw(t, fmt.Sprintf("known%d", i)) {
				k = rapid.SampledFrom(keys).Draw(t, fmt.Sprintf("kk%d", i))
			}
			m.Options[k] = Str(t, fmt.Sprintf("v%d", i))
		}
		if n == 0 && rapid.Bool().Draw(t, "nilmap") {
			m.Options = nil
		}
		return m
	}},
	{Name: "OPTIONS", OpCode: primitive.OpCodeOptions, Valid: always, Draw: func(t *rapid.T, v primitive.ProtocolVersion, o Opts) message.Message { return &message.Options{} }},
	{Name: "QUERY", OpCode: primitive.OpCodeQuery, Valid: always, Draw: func(t *rapid.T, v primitive.ProtocolVersion, o Opts) message.Message {
		return &message.Query{Query: LongStr(t, "query", o.MaxLongString), Options: QueryOptions(t, v, "opts")}
	}},
	{Name: "PREPARE", OpCode: primitive.OpCodePrepare, Valid: always, Draw: func(t *rapid.T, v primitive.ProtocolVersion, o Opts) message.Message {
		q := LongStr(t, "query", o.MaxLongString)
		if q == "" {
			q = "SELECT 1"
		}
		m := &message.Prepare{Query: q}
		if HasPrepareFlags(v) && rapid.Bool().Draw(t, "hasKs") {
			m.Keyspace = NonEmptyStr(t, "ks")
		}
		return m
	}},
	{Name: "EXECUTE", OpCode: primitive.OpCodeExecute, Valid: always, Draw: func(t *rapid.T, v primitive.ProtocolVersion, o Opts) message.Message {
		m := &message.Execute{QueryId: ShortBytesId(t, "queryId"), Options: QueryOptions(t, v, "opts")}
		if HasResultMetadataId(v) {
			m.ResultMetadataId = ShortBytesId(t, "resultMetadataId")
		}
		return m
	}},
	{Name: "REGISTER", OpCode: primitive.OpCodeRegister, Valid: always, Draw: func(t *rapid.T, v primitive.ProtocolVersion, o Opts) message.Message {
		ets := rapid.SliceOfN(rapid.SampledFrom([]primitive.EventType{primitive.EventTypeSchemaChange, primitive.EventTypeStatusChange, primitive.EventTypeTopologyChange}), 1, 4).Draw(t, "eventTypes")
		return &message.Register{EventTypes: ets}
	}},
	{Name: "BATCH", OpCode: primitive.OpCodeBatch, Valid: always, Draw: func(t *rapid.T, v primitive.ProtocolVersion, o Opts) message.Message {
		m := &message.Batch{Type: primitive.BatchType(rapid.IntRange(0, 2).Draw(t, "type")), Consistency: consistency(t, "cl")}
		n := rapid.IntRange(1, 5).Draw(t, "nchildren")
		if rapid.IntRange(0, 40).Draw(t, "many") == 0 {
			n = rapid.IntRange(50, 400).Draw(t, "nchildren2")
		}
		for i := 0; i < n; i++ {
			c := &message.BatchChild{}
			if rapid.Bool().Draw(t, fmt.Sprintf("c%d/prepared", i)) {
				c.Id = ShortBytesId(t, fmt.Sprintf("c%d/id", i))
			} else {
				q := LongStr(t, fmt.Sprintf("c%d/query", i), 70000)
				if q == "" {
					q = "INSERT"
				}
				c.Query = q
			}
			c.Values = PositionalValues(t, v, fmt.Sprintf("c%d/values", i), true)
			m.Children = append(m.Children, c)
		}
		if AtLeast(v, 3) {
			if rapid.Bool().Draw(t, "hasSerial") {
				m.SerialConsistency = serialConsistency(t, "serial")
			}
			if rapid.Bool().Draw(t, "hasTs") {
				ts := Int64(t, "ts")
				m.DefaultTimestamp = &ts
			}
		}
		if HasKeyspaceFlag(v) && rapid.Bool().Draw(t, "hasKs") {
			m.Keyspace = NonEmptyStr(t, "ks")
		}
		if HasNowInSeconds(v) && rapid.Bool().Draw(t, "hasNow") {
			x := Int32(t, "now")
			m.NowInSeconds = &x
		}
		return m
	}},
	{Name: "AUTH_RESPONSE", OpCode: primitive.OpCodeAuthResponse, Valid: always, Draw: func(t *rapid.T, v primitive.ProtocolVersion, o Opts) message.Message {
		return &message.AuthResponse{Token: NullableBlob(t, "token", 5000)}
	}},
	{Name: "REVISE", OpCode: primitive.OpCodeDseRevise, Valid: IsDse, Draw: func(t *rapid.T, v primitive.ProtocolVersion, o Opts) message.Message {
		m := &message.Revise{RevisionType: primitive.DseRevisionTypeCancelContinuousPaging, TargetStreamId: Int32(t, "target")}
		if v == primitive.ProtocolVersionDse2 && rapid.Bool().Draw(t, "more") {
			m.RevisionType = primitive.DseRevisionTypeMoreContinuousPages
			m.NextPages = Int32(t, "nextPages")
		}
		return m
	}},

	// ---- responses
	simpleError("ServerError", func(s string) message.Message { return &message.ServerError{ErrorMessage: s} }),
	simpleError("ProtocolError", func(s string) message.Message { return &message.ProtocolError{ErrorMessage: s} }),
	simpleError("AuthenticationError", func(s string) message.Message { return &message.AuthenticationError{ErrorMessage: s} }),
	simpleError("Overloaded", func(s string) message.Message { return &message.Overloaded{ErrorMessage: s} }),
	simpleError("IsBootstrapping", func(s string) message.Message { return &message.IsBootstrapping{ErrorMessage: s} }),
	simpleError("TruncateError", func(s string) message.Message { return &message.TruncateError{ErrorMessage: s} }),
	simpleError("SyntaxError", func(s string) message.Message { return &message.SyntaxError{ErrorMessage: s} }),
	simpleError("Unauthorized", func(s string) message.Message { return &message.Unauthorized{ErrorMessage: s} }),
	simpleError("Invalid", func(s string) message.Message { return &message.Invalid{ErrorMessage: s} }),
	simpleError("ConfigError", func(s string) message.Message { return &message.ConfigError{ErrorMessage: s} }),
	{Name: "ERROR/Unavailable", Response: true, OpCode: primitive.OpCodeError, Valid: always, Draw: func(t *rapid.T, v primitive.ProtocolVersion, o Opts) message.Message {
		return &message.Unavailable{ErrorMessage: Str(t, "msg"), Consistency: consistency(t, "cl"), Required: Int32(t, "required"), Alive: Int32(t, "alive")}
	}},
	{Name: "ERROR/ReadTimeout", Response: true, OpCode: primitive.OpCodeError, Valid: always, Draw: func(t *rapid.T, v primitive.ProtocolVersion, o Opts) message.Message {
		return &message.ReadTimeout{ErrorMessage: Str(t, "msg"), Consistency: consistency(t, "cl"), Received: Int32(t, "received"), BlockFor: Int32(t, "blockFor"), DataPresent: rapid.Bool().Draw(t, "dataPresent")}
	}},
	{Name: "ERROR/WriteTimeout", Response: true, OpCode: primitive.OpCodeError, Valid: always, Draw: func(t *rapid.T, v primitive.ProtocolVersion, o Opts) message.Message {
		m := &message.WriteTimeout{ErrorMessage: Str(t, "msg"), Consistency: consistency(t, "cl"), Received: Int32(t, "received"), BlockFor: Int32(t, "blockFor"), WriteType: writeType(t, v, o.AllWriteTypes, "writeType")}
		if HasContentions(v) && m.WriteType == primitive.WriteTypeCas {
			m.Contentions = Uint16(t, "contentions")
		}
		return m
	}},
	{Name: "ERROR/ReadFailure", Response: true, OpCode: primitive.OpCodeError, Valid: v4plus, Draw: func(t *rapid.T, v primitive.ProtocolVersion, o Opts) message.Message {
		m := &message.ReadFailure{ErrorMessage: Str(t, "msg"), Consistency: consistency(t, "cl"), Received: Int32(t, "received"), BlockFor: Int32(t, "blockFor"), DataPresent: rapid.Bool().Draw(t, "dataPresent")}
		if HasReasonMap(v) {
			m.FailureReasons = reasonMap(t, "reasons")
		} else {
			m.NumFailures = Int32(t, "numFailures")
		}
		return m
	}},
	{Name: "ERROR/WriteFailure", Response: true, OpCode: primitive.OpCodeError, Valid: v4plus, Draw: func(t *rapid.T, v primitive.ProtocolVersion, o Opts) message.Message {
		m := &message.WriteFailure{ErrorMessage: Str(t, "msg"), Consistency: consistency(t, "cl"), Received: Int32(t, "received"), BlockFor: Int32(t, "blockFor"), WriteType: writeType(t, v, o.AllWriteTypes, "writeType")}
		if HasReasonMap(v) {
			m.FailureReasons = reasonMap(t, "reasons")
		} else {
			m.NumFailures = Int32(t, "numFailures")
		}
		return m
	}},
	{Name: "ERROR/FunctionFailure", Response: true, OpCode: primitive.OpCodeError, Valid: v4plus, Draw: func(t *rapid.T, v primitive.ProtocolVersion, o Opts) message.Message {
		return &message.FunctionFailure{ErrorMessage: Str(t, "msg"), Keyspace: Str(t, "ks"), Function: Str(t, "function"), Arguments: StrList(t, "args", 4)}
	}},
	{Name: "ERROR/Unprepared", Response: true, OpCode: primitive.OpCodeError, Valid: always, Draw: func(t *rapid.T, v primitive.ProtocolVersion, o Opts) message.Message {
		return &message.Unprepared{ErrorMessage: Str(t, "msg"), Id: ShortBytesId(t, "id")}
	}},
	{Name: "ERROR/AlreadyExists", Response: true, OpCode: primitive.OpCodeError, Valid: always, Draw: func(t *rapid.T, v primitive.ProtocolVersion, o Opts) message.Message {
		return &message.AlreadyExists{ErrorMessage: Str(t, "msg"), Keyspace: Str(t, "ks"), Table: Str(t, "table")}
	}},
	{Name: "READY", Response: true, OpCode: primitive.OpCodeReady, Valid: always, Draw: func(t *rapid.T, v primitive.ProtocolVersion, o Opts) message.Message { return &message.Ready{} }},
	{Name: "AUTHENTICATE", Response: true, OpCode: primitive.OpCodeAuthenticate, Valid: always, Draw: func(t *rapid.T, v primitive.ProtocolVersion, o Opts) message.Message {
		return &message.Authenticate{Authenticator: NonEmptyStr(t, "authenticator")}
	}},
	{Name: "SUPPORTED", Response: true, OpCode: primitive.OpCodeSupported, Valid: always, Draw: func(t *rapid.T, v primitive.ProtocolVersion, o Opts) message.Message {
		n := rapid.IntRange(0, 4).Draw(t, "n")
		if n == 0 && rapid.Bool().Draw(t, "nil") {
			return &message.Supported{}
		}
		m := &message.Supported{Options: map[string][]string{}}
		for i := 0; i < n; i++ {
			m.Options[Str(t, fmt.Sprintf("k%d", i))] = StrList(t, fmt.Sprintf("v%d", i), 4)
		}
		return m
	}},
	{Name: "RESULT/Void", Response: true, OpCode: primitive.OpCodeResult, Valid: always, Draw: func(t *rapid.T, v primitive.ProtocolVersion, o Opts) message.Message { return &message.VoidResult{} }},
	{Name: "RESULT/Rows", Response: true, OpCode: primitive.OpCodeResult, Valid: always, Draw: func(t *rapid.T, v primitive.ProtocolVersion, o Opts) message.Message {
		md := RowsMetadata(t, v, o.TypeDepth, "metadata")
		return &message.RowsResult{Metadata: md, Data: rowsData(t, int(md.ColumnCount), "data")}
	}},
	{Name: "RESULT/SetKeyspace", Response: true, OpCode: primitive.OpCodeResult, Valid: always, Draw: func(t *rapid.T, v primitive.ProtocolVersion, o Opts) message.Message {
		return &message.SetKeyspaceResult{Keyspace: NonEmptyStr(t, "ks")}
	}},
	{Name: "RESULT/Prepared", Response: true, OpCode: primitive.OpCodeResult, Valid: always, Draw: func(t *rapid.T, v primitive.ProtocolVersion, o Opts) message.Message {
		m := &message.PreparedResult{PreparedQueryId: ShortBytesId(t, "id")}
		if HasResultMetadataId(v) {
			m.ResultMetadataId = ShortBytesId(t, "resultMetadataId")
		}
		vm := &message.VariablesMetadata{}
		n := rapid.IntRange(0, 4).Draw(t, "nvars")
		if n > 0 {
			vm.Columns = columns(t, v, n, o.TypeDepth, "vars")
		}
		if AtLeast(v, 4) {
			npk := rapid.IntRange(0, 3).Draw(t, "npk")
			for i := 0; i < npk; i++ {
				vm.PkIndices = append(vm.PkIndices, Uint16(t, fmt.Sprintf("pk%d", i)))
			}
		}
		m.VariablesMetadata = vm
		rm := RowsMetadata(t, v, o.TypeDepth, "resultMetadata")
		// prepared result metadata never carries continuous-paging fields
		rm.ContinuousPageNumber, rm.LastContinuousPage = 0, false
		m.ResultMetadata = rm
		return m
	}},
	{Name: "RESULT/SchemaChange", Response: true, OpCode: primitive.OpCodeResult, Valid: always, Draw: func(t *rapid.T, v primitive.ProtocolVersion, o Opts) message.Message {
		ct, tg, ks, obj, args := schemaChange(t, v, "sc")
		return &message.SchemaChangeResult{ChangeType: ct, Target: tg, Keyspace: ks, Object: obj, Arguments: args}
	}},
	{Name: "EVENT/SchemaChange", Response: true, OpCode: primitive.OpCodeEvent, Valid: always, Draw: func(t *rapid.T, v primitive.ProtocolVersion, o Opts) message.Message {
		ct, tg, ks, obj, args := schemaChange(t, v, "sc")
		return &message.SchemaChangeEvent{ChangeType: ct, Target: tg, Keyspace: ks, Object: obj, Arguments: args}
	}},
	{Name: "EVENT/StatusChange", Response: true, OpCode: primitive.OpCodeEvent, Valid: always, Draw: func(t *rapid.T, v primitive.ProtocolVersion, o Opts) message.Message {
		return &message.StatusChangeEvent{ChangeType: rapid.SampledFrom([]primitive.StatusChangeType{primitive.StatusChangeTypeUp, primitive.StatusChangeTypeDown}).Draw(t, "changeType"), Address: Inet(t, "addr")}
	}},
	{Name: "EVENT/TopologyChange", Response: true, OpCode: primitive.OpCodeEvent, Valid: always, Draw: func(t *rapid.T, v primitive.ProtocolVersion, o Opts) message.Message {
		cts := []primitive.TopologyChangeType{primitive.TopologyChangeTypeNewNode, primitive.TopologyChangeTypeRemovedNode}
		if AtLeast(v, 3) {
			cts = append(cts, primitive.TopologyChangeTypeMovedNode) // only v3's text lists it; never removed (Appendix A '?')
		}
		return &message.TopologyChangeEvent{ChangeType: rapid.SampledFrom(cts).Draw(t, "changeType"), Address: Inet(t, "addr")}
	}},
	{Name: "AUTH_CHALLENGE", Response: true, OpCode: primitive.OpCodeAuthChallenge, Valid: always, Draw: func(t *rapid.T, v primitive.ProtocolVersion, o Opts) message.Message {
		return &message.AuthChallenge{Token: NullableBlob(t, "token", 5000)}
	}},
	{Name: "AUTH_SUCCESS", Response: true, OpCode: primitive.OpCodeAuthSuccess, Valid: always, Draw: func(t *rapid.T, v primitive.ProtocolVersion, o Opts) message.Message {
		return &message.AuthSuccess{Token: NullableBlob(t, "token", 5000)}
	}},
}

// KindsFor returns the kinds whose specification defines them for v.
func KindsFor(v primitive.ProtocolVersion) []Kind {
	var out []Kind
	for _, k := range Kinds {
		if k.Valid(v) {
			out = append(out, k)
		}
	}
	return out
}

// Message draws a message of any kind valid for v.
func Message(t *rapid.T, v primitive.ProtocolVersion, o Opts) (Kind, message.Message) {
	ks := KindsFor(v)
	names := make([]string, len(ks))
	for i, k := range ks {
		names[i] = k.Name
	}
	// weight the structured kinds higher
	heavy := []string{"QUERY", "EXECUTE", "BATCH", "RESULT/Rows", "RESULT/Prepared", "PREPARE"}
	if rapid.IntRange(0, 2).Draw(t, "heavy") == 0 {
		names = heavy
	}
	name := rapid.SampledFrom(names).Draw(t, "kind")
	for _, k := range ks {
		if k.Name == name {
			return k, k.Draw(t, v, o)
		}
	}
	panic("unreachable")
}
