package gen

import (
	"fmt"

	"github.com/datastax/go-cassandra-native-protocol/frame"
	"github.com/datastax/go-cassandra-native-protocol/message"
	"github.com/datastax/go-cassandra-native-protocol/primitive"
	"pgregory.net/rapid"
)

// FrameCase is a generated version-valid frame with the facts the properties classify on.
type FrameCase struct {
	Frame    *frame.Frame
	Kind     string
	Version  primitive.ProtocolVersion
	Optional int // number of optional body-prefix parts / header flags present
}

func StreamId(t *rapid.T, v primitive.ProtocolVersion, event bool) int16 {
	if event && rapid.IntRange(0, 9).Draw(t, "streamId/event") != 0 {
		return -1
	}
	if v == primitive.ProtocolVersion2 {
		return int16(rapid.Int8().Draw(t, "streamId"))
	}
	if rapid.IntRange(0, 3).Draw(t, "streamId/b") == 0 {
		return rapid.SampledFrom([]int16{0, 1, -1, 127, 128, -128, -129, 255, 256, 32767, -32768}).Draw(t, "streamId")
	}
	return rapid.Int16().Draw(t, "streamId")
}

func CustomPayload(t *rapid.T, label string) map[string][]byte {
	n := rapid.IntRange(1, 4).Draw(t, label+"/n")
	m := map[string][]byte{}
	for i := 0; i < n; i++ {
		m[Str(t, fmt.Sprintf("%s/k%d", label, i))] = NullableBlob(t, fmt.Sprintf("%s/v%d", label, i), 3000)
	}
	return m
}

// Frame draws a frame that uses only what the specification of its version defines. compressible tells whether the
// caller's codec has a compressor (then the COMPRESSED flag may be set, on every opcode except STARTUP).
func Frame(t *rapid.T, v primitive.ProtocolVersion, compressible bool, o Opts) FrameCase {
	kind, msg := Message(t, v, o)
	return FrameOf(t, v, kind, msg, compressible)
}

// FrameOf wraps a message into a frame with generated header flags and body-prefix parts, built the way a user
// builds them: NewFrame plus the documented mutators.
func FrameOf(t *rapid.T, v primitive.ProtocolVersion, kind Kind, msg message.Message, compressible bool) FrameCase {
	f := frame.NewFrame(v, StreamId(t, v, kind.OpCode == primitive.OpCodeEvent), msg)
	fc := FrameCase{Frame: f, Kind: kind.Name, Version: v}
	if AtLeast(v, 4) && rapid.IntRange(0, 3).Draw(t, "hasPayload") == 0 {
		f.SetCustomPayload(CustomPayload(t, "payload"))
		fc.Optional++
	}
	if kind.Response {
		if rapid.IntRange(0, 3).Draw(t, "hasTracingId") == 0 {
			f.SetTracingId(UUID(t, "tracingId"))
			fc.Optional++
		}
		if AtLeast(v, 4) && rapid.IntRange(0, 3).Draw(t, "hasWarnings") == 0 {
			n := rapid.IntRange(1, 3).Draw(t, "warnings/n")
			w := make([]string, n)
			for i := range w {
				w[i] = Str(t, fmt.Sprintf("warnings/%d", i))
			}
			f.SetWarnings(w)
			fc.Optional++
		}
	} else {
		switch rapid.IntRange(0, 7).Draw(t, "requestTracing") {
		case 0, 1:
			f.RequestTracingId(true)
			fc.Optional++
		case 2:
			// "The tracing id. Only valid for response frames, ignored otherwise": a request carrying one must be
			// encoded exactly as if it had none
			f.SetTracingId(UUID(t, "ignoredTracingId"))
			fc.Optional++
		case 3:
			f.Body.TracingId = UUID(t, "ignoredTracingId")
		}
	}
	if (v == primitive.ProtocolVersion5 || IsDse(v)) && rapid.IntRange(0, 15).Draw(t, "useBeta") == 0 {
		f.Header.Flags = f.Header.Flags.Add(primitive.HeaderFlagUseBeta)
		fc.Optional++
	}
	if compressible && kind.OpCode != primitive.OpCodeStartup && rapid.IntRange(0, 2).Draw(t, "compress") != 0 {
		// the specifications forbid compression only for STARTUP; SetCompress additionally skips OPTIONS and READY,
		// and the library's own server sets the flag directly on READY/SUPPORTED
		if rapid.Bool().Draw(t, "viaSetCompress") {
			f.SetCompress(true)
		} else {
			f.Header.Flags = f.Header.Flags.Add(primitive.HeaderFlagCompressed)
		}
		if f.Header.Flags.Contains(primitive.HeaderFlagCompressed) {
			fc.Optional++
		}
	}
	return fc
}
