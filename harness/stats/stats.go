// Package stats collects, per property and per shard process, what a run actually covered:
// cases executed, distinct non-trivial cases (by 64-bit case hash), class histogram, samples,
// cases excluded because they match an open known finding, and violations found by
// non-rapid loops (enumerations, fuzz-style loops). The driver merges shard files into
// /verif/evidence/<id>.json.
package stats

import (
	"encoding/binary"
	"encoding/json"
	"fmt"
	"hash/fnv"
	"os"
	"path/filepath"
	"runtime"
	"sort"
	"strconv"
	"strings"
	"sync"
	"time"
)

const maxHashes = 1 << 20 // per shard; beyond this distinct_nontrivial is a lower bound

type sample struct {
	h uint64
	s string
}

type Recorder struct {
	mu          sync.Mutex
	Prop        string
	evals       int64
	hashes      map[uint64]struct{}
	overflow    int64 // non-trivial cases not stored because the set was full
	distinctEnu int64 // distinct by construction (enumerations)
	classes     map[string]int64
	first       []string
	bottom      []sample // bottom-k by hash: deterministic "reservoir"
	excluded    map[string]int64
	exhaustive  map[string]int64
	notes       []string
	violations  []string
	start       time.Time
}

var (
	regMu sync.Mutex
	reg   = map[string]*Recorder{}
)

// For returns the recorder of a property (one per process).
func For(prop string) *Recorder {
	regMu.Lock()
	defer regMu.Unlock()
	r := reg[prop]
	if r == nil {
		r = &Recorder{Prop: prop, hashes: map[uint64]struct{}{}, classes: map[string]int64{},
			excluded: map[string]int64{}, exhaustive: map[string]int64{}, start: time.Now()}
		reg[prop] = r
	}
	return r
}

// Hash is FNV-1a over the parts.
func Hash(parts ...[]byte) uint64 {
	h := fnv.New64a()
	var l [4]byte
	for _, p := range parts {
		binary.LittleEndian.PutUint32(l[:], uint32(len(p)))
		h.Write(l[:])
		h.Write(p)
	}
	return h.Sum64()
}

func HashString(s string) uint64 { return Hash([]byte(s)) }

// Case records one executed case. render is only called if the case is kept as a sample.
func (r *Recorder) Case(nontrivial bool, hash uint64, render func() string, classes ...string) {
	r.mu.Lock()
	defer r.mu.Unlock()
	r.evals++
	for _, c := range classes {
		r.classes[c]++
	}
	if !nontrivial {
		return
	}
	if _, ok := r.hashes[hash]; ok {
		return
	}
	if len(r.hashes) < maxHashes {
		r.hashes[hash] = struct{}{}
	} else {
		r.overflow++
	}
	if render == nil {
		return
	}
	if len(r.first) < 2 {
		r.first = append(r.first, clip(render()))
		return
	}
	const k = 3
	if len(r.bottom) < k || hash < r.bottom[len(r.bottom)-1].h {
		r.bottom = append(r.bottom, sample{hash, clip(render())})
		sort.Slice(r.bottom, func(i, j int) bool { return r.bottom[i].h < r.bottom[j].h })
		if len(r.bottom) > k {
			r.bottom = r.bottom[:k]
		}
	}
}

// Bulk records n executed cases of an enumeration whose members are distinct by construction,
// nt of which are non-trivial.
func (r *Recorder) Bulk(n, nt int64, class string) {
	r.mu.Lock()
	defer r.mu.Unlock()
	r.evals += n
	r.distinctEnu += nt
	if class != "" {
		r.classes[class] += n
	}
}

func (r *Recorder) Class(class string, n int64) {
	r.mu.Lock()
	defer r.mu.Unlock()
	r.classes[class] += n
}

// AddSample stores a rendered case unconditionally (used by enumerations).
func (r *Recorder) AddSample(s string) {
	r.mu.Lock()
	defer r.mu.Unlock()
	if len(r.first) < 4 {
		r.first = append(r.first, clip(s))
	}
}

// Excluded counts a failing case that matches an open known finding.
func (r *Recorder) Excluded(findingID string) {
	r.mu.Lock()
	defer r.mu.Unlock()
	r.excluded[findingID]++
}

// Exhaustive declares a fully enumerated sub-space and its size.
func (r *Recorder) Exhaustive(space string, size int64) {
	r.mu.Lock()
	defer r.mu.Unlock()
	r.exhaustive[space] += size
}

func (r *Recorder) Note(s string) {
	r.mu.Lock()
	defer r.mu.Unlock()
	if len(r.notes) < 50 {
		r.notes = append(r.notes, s)
	}
}

// Violation records a violation found outside rapid (enumerations etc.): writes a replay file and
// returns its path. The caller must fail the test.
func (r *Recorder) Violation(kind string, replay interface{}) string {
	r.mu.Lock()
	defer r.mu.Unlock()
	dir := os.Getenv("VERIF_REPLAY_DIR")
	if dir == "" {
		dir = os.TempDir()
	}
	_ = os.MkdirAll(dir, 0o755)
	// the test to re-run: the enumerating test that found it (enumerations are deterministic given tier and shard),
	// unless the case names a dedicated replay test
	test := callerTest()
	if m, ok := replay.(map[string]interface{}); ok {
		if rt, ok := m["replay_test"].(string); ok {
			test = rt
		}
	}
	b, _ := json.MarshalIndent(map[string]interface{}{"property": r.Prop, "kind": kind, "case": replay, "test": test,
		"tier": os.Getenv("VERIF_TIER"), "shard": os.Getenv("VERIF_SHARD"), "nshards": os.Getenv("VERIF_NSHARDS")}, "", " ")
	name := fmt.Sprintf("%s-%s-%016x.json", r.Prop, kind, Hash(b))
	p := filepath.Join(dir, name)
	_ = os.WriteFile(p, b, 0o644)
	r.violations = append(r.violations, p)
	fmt.Printf("VERIF-VIOLATION property=%s kind=%s replay=%s\n", r.Prop, kind, p)
	return p
}

// callerTest: the name of the Test function on the calling goroutine's stack ("" if none).
func callerTest() string {
	pcs := make([]uintptr, 64)
	n := runtime.Callers(2, pcs)
	frames := runtime.CallersFrames(pcs[:n])
	for {
		f, more := frames.Next()
		if i := strings.LastIndex(f.Function, ".Test"); i >= 0 {
			name := f.Function[i+1:]
			if j := strings.IndexAny(name, ".("); j >= 0 {
				name = name[:j]
			}
			return name
		}
		if !more {
			return ""
		}
	}
}

func clip(s string) string {
	if len(s) > 1500 {
		return s[:1500] + fmt.Sprintf("...(+%d bytes)", len(s)-1500)
	}
	return s
}

type shardFile struct {
	Prop        string           `json:"prop"`
	Shard       int              `json:"shard"`
	Evals       int64            `json:"evals"`
	DistinctEnu int64            `json:"distinct_enum"`
	Overflow    int64            `json:"overflow"`
	Classes     map[string]int64 `json:"classes"`
	Samples     []string         `json:"samples"`
	Excluded    map[string]int64 `json:"excluded"`
	Exhaustive  map[string]int64 `json:"exhaustive"`
	Notes       []string         `json:"notes"`
	Violations  []string         `json:"violations"`
	WallS       float64          `json:"wall_s"`
	HashFile    string           `json:"hash_file"`
}

// Flush writes every recorder to $VERIF_OUT (called from TestMain).
func Flush() {
	out := os.Getenv("VERIF_OUT")
	if out == "" {
		return
	}
	_ = os.MkdirAll(out, 0o755)
	shard, _ := strconv.Atoi(os.Getenv("VERIF_SHARD"))
	regMu.Lock()
	defer regMu.Unlock()
	for _, r := range reg {
		r.mu.Lock()
		sf := shardFile{Prop: r.Prop, Shard: shard, Evals: r.evals, DistinctEnu: r.distinctEnu, Overflow: r.overflow,
			Classes: r.classes, Excluded: r.excluded, Exhaustive: r.exhaustive, Notes: r.notes, Violations: r.violations,
			WallS: time.Since(r.start).Seconds()}
		sf.Samples = append(sf.Samples, r.first...)
		for _, b := range r.bottom {
			sf.Samples = append(sf.Samples, b.s)
		}
		hf := filepath.Join(out, fmt.Sprintf("%s.shard%d.hashes", r.Prop, shard))
		buf := make([]byte, 0, 8*len(r.hashes))
		for h := range r.hashes {
			buf = binary.LittleEndian.AppendUint64(buf, h)
		}
		_ = os.WriteFile(hf, buf, 0o644)
		sf.HashFile = hf
		b, _ := json.Marshal(sf)
		_ = os.WriteFile(filepath.Join(out, fmt.Sprintf("%s.shard%d.json", r.Prop, shard)), b, 0o644)
		r.mu.Unlock()
	}
}
