// Package canon implements the equality the properties state: strict comparison of frames, messages and data
// types up to the distinctions the wire format cannot carry (nil vs empty collections; IPv4 in 4 or 16 bytes;
// nil vs empty [short bytes]; a nil *QueryOptions standing for the defaults), plus rendering and hashing of cases.
package canon

import (
	"bytes"
	"encoding/hex"
	"fmt"
	"hash/fnv"
	"io"
	"net"
	"reflect"
	"sort"
	"strings"
)

var ipType = reflect.TypeOf(net.IP{})

// [short bytes] fields: the wire has no null form, so nil and empty are the same value.
var shortBytesFields = map[string]bool{"Id": true, "QueryId": true, "ResultMetadataId": true, "PreparedQueryId": true}

// pointer-to-struct fields where nil stands for the zero value ("use defaults if nil provided").
var nilMeansZero = map[string]bool{"Options": true}

// Diff returns "" if a and b are equal under the canonical equality, else a description of the first difference.
func Diff(a, b interface{}) string {
	return diff(reflect.ValueOf(a), reflect.ValueOf(b), "", "")
}

func Equal(a, b interface{}) bool { return Diff(a, b) == "" }

func isNilable(k reflect.Kind) bool {
	switch k {
	case reflect.Ptr, reflect.Map, reflect.Slice, reflect.Interface:
		return true
	}
	return false
}

func diff(a, b reflect.Value, path, field string) string {
	if !a.IsValid() || !b.IsValid() {
		if a.IsValid() != b.IsValid() {
			return fmt.Sprintf("%s: one side is absent", path)
		}
		return ""
	}
	if a.Type() != b.Type() {
		return fmt.Sprintf("%s: type %v != %v", path, a.Type(), b.Type())
	}
	switch a.Kind() {
	case reflect.Interface:
		if a.IsNil() || b.IsNil() {
			if a.IsNil() != b.IsNil() {
				return fmt.Sprintf("%s: nil interface vs %v", path, pick(a, b))
			}
			return ""
		}
		return diff(a.Elem(), b.Elem(), path, field)
	case reflect.Ptr:
		if a.IsNil() || b.IsNil() {
			if a.IsNil() && b.IsNil() {
				return ""
			}
			if nilMeansZero[field] && a.Type().Elem().Kind() == reflect.Struct {
				z := reflect.New(a.Type().Elem())
				if a.IsNil() {
					return diff(z.Elem(), b.Elem(), path, field)
				}
				return diff(a.Elem(), z.Elem(), path, field)
			}
			return fmt.Sprintf("%s: nil pointer vs %s", path, Render(pick(a, b).Interface()))
		}
		return diff(a.Elem(), b.Elem(), path, field)
	case reflect.Struct:
		for i := 0; i < a.NumField(); i++ {
			f := a.Type().Field(i)
			if d := diff(a.Field(i), b.Field(i), path+"."+f.Name, f.Name); d != "" {
				return d
			}
		}
		return ""
	case reflect.Slice:
		if a.Type() == ipType {
			ia, ib := net.IP(a.Bytes()), net.IP(b.Bytes())
			if len(ia) == 0 && len(ib) == 0 {
				return ""
			}
			if !ia.Equal(ib) {
				return fmt.Sprintf("%s: ip %v != %v", path, ia, ib)
			}
			return ""
		}
		if a.Type().Elem().Kind() == reflect.Uint8 {
			if !shortBytesFields[field] && a.IsNil() != b.IsNil() {
				return fmt.Sprintf("%s: null vs non-null bytes (%v vs %v)", path, a.IsNil(), b.IsNil())
			}
			if !bytes.Equal(a.Bytes(), b.Bytes()) {
				return fmt.Sprintf("%s: bytes differ (len %d vs %d): %s vs %s", path, a.Len(), b.Len(), clipHex(a.Bytes()), clipHex(b.Bytes()))
			}
			return ""
		}
		if a.Len() != b.Len() {
			return fmt.Sprintf("%s: length %d != %d", path, a.Len(), b.Len())
		}
		for i := 0; i < a.Len(); i++ {
			if d := diff(a.Index(i), b.Index(i), fmt.Sprintf("%s[%d]", path, i), ""); d != "" {
				return d
			}
		}
		return ""
	case reflect.Array:
		for i := 0; i < a.Len(); i++ {
			if d := diff(a.Index(i), b.Index(i), fmt.Sprintf("%s[%d]", path, i), ""); d != "" {
				return d
			}
		}
		return ""
	case reflect.Map:
		if a.Len() != b.Len() {
			return fmt.Sprintf("%s: map size %d != %d", path, a.Len(), b.Len())
		}
		for _, k := range a.MapKeys() {
			bv := b.MapIndex(k)
			if !bv.IsValid() {
				return fmt.Sprintf("%s: key %s missing on one side", path, clipStr(fmt.Sprint(k)))
			}
			if d := diff(a.MapIndex(k), bv, fmt.Sprintf("%s[%s]", path, clipStr(fmt.Sprint(k))), ""); d != "" {
				return d
			}
		}
		return ""
	case reflect.Bool:
		if a.Bool() != b.Bool() {
			return fmt.Sprintf("%s: %v != %v", path, a.Bool(), b.Bool())
		}
	case reflect.Int, reflect.Int8, reflect.Int16, reflect.Int32, reflect.Int64:
		if a.Int() != b.Int() {
			return fmt.Sprintf("%s: %d != %d", path, a.Int(), b.Int())
		}
	case reflect.Uint, reflect.Uint8, reflect.Uint16, reflect.Uint32, reflect.Uint64, reflect.Uintptr:
		if a.Uint() != b.Uint() {
			return fmt.Sprintf("%s: %d != %d", path, a.Uint(), b.Uint())
		}
	case reflect.String:
		if a.String() != b.String() {
			return fmt.Sprintf("%s: %q != %q", path, clipStr(a.String()), clipStr(b.String()))
		}
	case reflect.Float32, reflect.Float64:
		if a.Float() != b.Float() {
			return fmt.Sprintf("%s: %v != %v", path, a.Float(), b.Float())
		}
	default:
		return fmt.Sprintf("%s: unsupported kind %v", path, a.Kind())
	}
	return ""
}

func pick(a, b reflect.Value) reflect.Value {
	if isNilable(a.Kind()) && a.IsNil() {
		return b
	}
	return a
}

func clipHex(b []byte) string {
	if len(b) > 24 {
		return hex.EncodeToString(b[:24]) + "..."
	}
	return hex.EncodeToString(b)
}

func clipStr(s string) string {
	if len(s) > 60 {
		return s[:60] + "..."
	}
	return s
}

// Render writes a compact, deterministic description (maps sorted, long byte strings clipped).
func Render(v interface{}) string {
	var sb strings.Builder
	walk(&sb, reflect.ValueOf(v), true, 0)
	return sb.String()
}

// RenderFull is Render without any clipping (used where every byte matters).
func RenderFull(v interface{}) string {
	var sb strings.Builder
	walk(&sb, reflect.ValueOf(v), false, 0)
	return sb.String()
}

// Hash is a deterministic 64-bit hash of the full value (no clipping, maps sorted, nil and empty collections alike).
func Hash(v interface{}) uint64 {
	h := fnv.New64a()
	walk(h, reflect.ValueOf(v), false, 0)
	return h.Sum64()
}

func walk(w io.Writer, v reflect.Value, clip bool, depth int) {
	if !v.IsValid() {
		io.WriteString(w, "<nil>")
		return
	}
	if depth > 60 {
		io.WriteString(w, "<deep>")
		return
	}
	switch v.Kind() {
	case reflect.Interface, reflect.Ptr:
		if v.IsNil() {
			io.WriteString(w, "nil")
			return
		}
		if v.Kind() == reflect.Ptr {
			io.WriteString(w, "&")
		}
		walk(w, v.Elem(), clip, depth+1)
	case reflect.Struct:
		io.WriteString(w, v.Type().Name())
		io.WriteString(w, "{")
		for i := 0; i < v.NumField(); i++ {
			if i > 0 {
				io.WriteString(w, " ")
			}
			io.WriteString(w, v.Type().Field(i).Name)
			io.WriteString(w, ":")
			walk(w, v.Field(i), clip, depth+1)
		}
		io.WriteString(w, "}")
	case reflect.Slice, reflect.Array:
		if v.Kind() == reflect.Slice && v.Type() == ipType {
			fmt.Fprintf(w, "ip(%v)", net.IP(v.Bytes()).To16())
			return
		}
		if v.Type().Elem().Kind() == reflect.Uint8 {
			var b []byte
			if v.Kind() == reflect.Slice {
				if v.IsNil() {
					io.WriteString(w, "null")
					return
				}
				b = v.Bytes()
			} else {
				b = make([]byte, v.Len())
				for i := range b {
					b[i] = byte(v.Index(i).Uint())
				}
			}
			if clip && len(b) > 32 {
				fmt.Fprintf(w, "x%s..(%d bytes)", hex.EncodeToString(b[:32]), len(b))
			} else {
				io.WriteString(w, "x")
				io.WriteString(w, hex.EncodeToString(b))
			}
			return
		}
		io.WriteString(w, "[")
		n := v.Len()
		for i := 0; i < n; i++ {
			if clip && i >= 6 {
				fmt.Fprintf(w, " ..(%d elements)", n)
				break
			}
			if i > 0 {
				io.WriteString(w, " ")
			}
			walk(w, v.Index(i), clip, depth+1)
		}
		io.WriteString(w, "]")
	case reflect.Map:
		keys := v.MapKeys()
		sort.Slice(keys, func(i, j int) bool { return fmt.Sprint(keys[i]) < fmt.Sprint(keys[j]) })
		io.WriteString(w, "map[")
		for i, k := range keys {
			if i > 0 {
				io.WriteString(w, " ")
			}
			fmt.Fprintf(w, "%q:", fmt.Sprint(k))
			walk(w, v.MapIndex(k), clip, depth+1)
		}
		io.WriteString(w, "]")
	case reflect.String:
		s := v.String()
		if clip && len(s) > 48 {
			fmt.Fprintf(w, "%q..(%d bytes)", s[:48], len(s))
		} else {
			fmt.Fprintf(w, "%q", s)
		}
	case reflect.Bool:
		fmt.Fprintf(w, "%v", v.Bool())
	case reflect.Int, reflect.Int8, reflect.Int16, reflect.Int32, reflect.Int64:
		fmt.Fprintf(w, "%d", v.Int())
	case reflect.Uint, reflect.Uint8, reflect.Uint16, reflect.Uint32, reflect.Uint64, reflect.Uintptr:
		fmt.Fprintf(w, "%d", v.Uint())
	case reflect.Float32, reflect.Float64:
		fmt.Fprintf(w, "%v", v.Float())
	default:
		fmt.Fprintf(w, "<%v>", v.Kind())
	}
}
