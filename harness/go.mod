module verifharness

go 1.23

require (
	github.com/datastax/go-cassandra-native-protocol v0.0.0
	github.com/rs/zerolog v1.20.0
	pgregory.net/rapid v1.3.0
)

require (
	github.com/golang/snappy v0.0.3 // indirect
	github.com/pierrec/lz4/v4 v4.0.3 // indirect
)

replace github.com/datastax/go-cassandra-native-protocol => /repo
