// mergestats prints the number of distinct 64-bit hashes in the files given as arguments.
package main

import (
	"encoding/binary"
	"fmt"
	"os"
	"slices"
)

func main() {
	var all []uint64
	for _, f := range os.Args[1:] {
		b, err := os.ReadFile(f)
		if err != nil {
			continue
		}
		for i := 0; i+8 <= len(b); i += 8 {
			all = append(all, binary.LittleEndian.Uint64(b[i:]))
		}
	}
	slices.Sort(all)
	n := 0
	for i, h := range all {
		if i == 0 || h != all[i-1] {
			n++
		}
	}
	fmt.Println(n)
}
