package props

import (
	"os"

	"github.com/rs/zerolog"
	"strconv"
	"testing"

	"verifharness/stats"
)

func TestMain(m *testing.M) {
	zerolog.SetGlobalLevel(zerolog.Disabled) // the client package logs every frame
	if os.Getenv("VERIF_WORKER") != "" {
		workerMain()
		os.Exit(0)
	}
	rc := m.Run()
	shutdownWorker()
	stats.Flush()
	os.Exit(rc)
}

func TestNothing(t *testing.T) {}

func tier() string {
	if t := os.Getenv("VERIF_TIER"); t != "" {
		return t
	}
	return "quick"
}

func thorough() bool { return tier() == "thorough" }

func shard() (k, n int) {
	k, _ = strconv.Atoi(os.Getenv("VERIF_SHARD"))
	n, _ = strconv.Atoi(os.Getenv("VERIF_NSHARDS"))
	if n <= 0 {
		n = 1
	}
	return
}

func repoDir() string {
	if d := os.Getenv("VERIF_REPO"); d != "" {
		return d
	}
	return "/repo"
}
