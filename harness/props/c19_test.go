package props

// C19: declared constants and validity checks agree; capability tables match the specifications.
//
// Generated domain: every constant of a named type declared in primitive/constants.go (read from the working tree
// with go/types), the complete 8- and 16-bit value domains, the 32-bit domains (quick: neighbourhoods, single-bit
// flips, rapid-drawn values; thorough: all 2^32 split over the shards), near-miss strings for string-typed codes,
// all 256 version numbers, and every (predicate, version) cell of the table typed in from the specs.
// Oracle: declared <=> accepted by IsValid and by the matching Check* function; declared => String() is a specific,
// pairwise distinct name; opcode is exactly one of request/response iff declared; predicates == spec table.

import (
	"fmt"
	"strings"
	"testing"

	p "github.com/datastax/go-cassandra-native-protocol/primitive"
	"pgregory.net/rapid"

	"verifharness/stats"
)

var allVersions = []p.ProtocolVersion{p.ProtocolVersion2, p.ProtocolVersion3, p.ProtocolVersion4, p.ProtocolVersion5, p.ProtocolVersionDse1, p.ProtocolVersionDse2}

type numCode struct {
	bits    int
	isValid func(uint64) bool             // nil: the type has no validity predicate (flag types)
	checks  []func(uint64) (bool, string) // each returns (accepted, name)
	str     func(uint64) string
}

func okErr(err error) bool { return err == nil }

// anyVersionAccepts: a version-dependent Check accepts the value for at least one supported version.
func anyVersion(f func(v p.ProtocolVersion) error) bool {
	for _, v := range allVersions {
		if f(v) == nil {
			return true
		}
	}
	return false
}

var numCodes = map[string]numCode{
	"ProtocolVersion": {8, func(x uint64) bool { return p.ProtocolVersion(x).IsSupported() },
		[]func(uint64) (bool, string){
			func(x uint64) (bool, string) {
				return okErr(p.CheckSupportedProtocolVersion(p.ProtocolVersion(x))), "CheckSupportedProtocolVersion"
			},
			func(x uint64) (bool, string) {
				v := p.ProtocolVersion(x)
				return v.IsOss() != v.IsDse(), "exactly one of IsOss/IsDse"
			},
		},
		func(x uint64) string { return p.ProtocolVersion(x).String() }},
	"OpCode": {8, func(x uint64) bool { return p.OpCode(x).IsValid() },
		[]func(uint64) (bool, string){
			func(x uint64) (bool, string) { return okErr(p.CheckValidOpCode(p.OpCode(x))), "CheckValidOpCode" },
			func(x uint64) (bool, string) {
				c := p.OpCode(x)
				return c.IsRequest() != c.IsResponse(), "exactly one of IsRequest/IsResponse"
			},
			func(x uint64) (bool, string) {
				c := p.OpCode(x)
				return okErr(p.CheckRequestOpCode(c)) != okErr(p.CheckResponseOpCode(c)), "exactly one of CheckRequestOpCode/CheckResponseOpCode"
			},
		},
		func(x uint64) string { return p.OpCode(x).String() }},
	"ResultType": {32, func(x uint64) bool { return p.ResultType(x).IsValid() },
		[]func(uint64) (bool, string){func(x uint64) (bool, string) {
			return okErr(p.CheckValidResultType(p.ResultType(x))), "CheckValidResultType"
		}},
		func(x uint64) string { return p.ResultType(x).String() }},
	"ErrorCode": {32, func(x uint64) bool { return p.ErrorCode(x).IsValid() },
		[]func(uint64) (bool, string){func(x uint64) (bool, string) {
			c := p.ErrorCode(x)
			n := 0
			for _, b := range []bool{c.IsFatalError(), c.IsRequestExecutionError(), c.IsQueryValidationError()} {
				if b {
					n++
				}
			}
			return n == 1, "exactly one of IsFatalError/IsRequestExecutionError/IsQueryValidationError"
		}},
		func(x uint64) string { return p.ErrorCode(x).String() }},
	"ConsistencyLevel": {16, func(x uint64) bool { return p.ConsistencyLevel(x).IsValid() },
		[]func(uint64) (bool, string){
			func(x uint64) (bool, string) {
				return okErr(p.CheckValidConsistencyLevel(p.ConsistencyLevel(x))), "CheckValidConsistencyLevel"
			},
			func(x uint64) (bool, string) {
				c := p.ConsistencyLevel(x)
				return c.IsSerial() != c.IsNonSerial(), "exactly one of IsSerial/IsNonSerial"
			},
			func(x uint64) (bool, string) {
				c := p.ConsistencyLevel(x)
				return c.IsLocal() != c.IsNonLocal(), "exactly one of IsLocal/IsNonLocal"
			},
		},
		func(x uint64) string { return p.ConsistencyLevel(x).String() }},
	"DataTypeCode": {16, func(x uint64) bool { return p.DataTypeCode(x).IsValid() },
		[]func(uint64) (bool, string){func(x uint64) (bool, string) {
			return anyVersion(func(v p.ProtocolVersion) error { return p.CheckValidDataTypeCode(p.DataTypeCode(x), v) }), "CheckValidDataTypeCode"
		}},
		func(x uint64) string { return p.DataTypeCode(x).String() }},
	"BatchType": {8, func(x uint64) bool { return p.BatchType(x).IsValid() },
		[]func(uint64) (bool, string){func(x uint64) (bool, string) {
			return okErr(p.CheckValidBatchType(p.BatchType(x))), "CheckValidBatchType"
		}},
		func(x uint64) string { return p.BatchType(x).String() }},
	"BatchChildType": {8, func(x uint64) bool { return p.BatchChildType(x).IsValid() }, nil,
		func(x uint64) string { return p.BatchChildType(x).String() }},
	"DseRevisionType": {32, func(x uint64) bool { return p.DseRevisionType(x).IsValid() },
		[]func(uint64) (bool, string){func(x uint64) (bool, string) {
			return anyVersion(func(v p.ProtocolVersion) error { return p.CheckValidDseRevisionType(p.DseRevisionType(x), v) }), "CheckValidDseRevisionType"
		}},
		func(x uint64) string { return p.DseRevisionType(x).String() }},
	"FailureCode": {16, func(x uint64) bool { return p.FailureCode(x).IsValid() },
		[]func(uint64) (bool, string){func(x uint64) (bool, string) {
			return okErr(p.CheckValidFailureCode(p.FailureCode(x))), "CheckValidFailureCode"
		}},
		func(x uint64) string { return p.FailureCode(x).String() }},
	// flag types: no validity predicate; only the "specific name" clause applies
	"HeaderFlag":    {8, nil, nil, func(x uint64) string { return p.HeaderFlag(x).String() }},
	"QueryFlag":     {32, nil, nil, func(x uint64) string { return p.QueryFlag(x).String() }},
	"RowsFlag":      {32, nil, nil, func(x uint64) string { return p.RowsFlag(x).String() }},
	"VariablesFlag": {32, nil, nil, func(x uint64) string { return p.VariablesFlag(x).String() }},
	"PrepareFlag":   {32, nil, nil, func(x uint64) string { return p.PrepareFlag(x).String() }},
}

type strCode struct {
	isValid func(string) bool
	check   func(string) bool
}

var strCodes = map[string]strCode{
	"WriteType":        {func(s string) bool { return p.WriteType(s).IsValid() }, func(s string) bool { return okErr(p.CheckValidWriteType(p.WriteType(s))) }},
	"EventType":        {func(s string) bool { return p.EventType(s).IsValid() }, func(s string) bool { return okErr(p.CheckValidEventType(p.EventType(s))) }},
	"SchemaChangeType": {func(s string) bool { return p.SchemaChangeType(s).IsValid() }, func(s string) bool { return okErr(p.CheckValidSchemaChangeType(p.SchemaChangeType(s))) }},
	"SchemaChangeTarget": {func(s string) bool { return p.SchemaChangeTarget(s).IsValid() }, func(s string) bool {
		return anyVersion(func(v p.ProtocolVersion) error { return p.CheckValidSchemaChangeTarget(p.SchemaChangeTarget(s), v) })
	}},
	"TopologyChangeType": {func(s string) bool { return p.TopologyChangeType(s).IsValid() }, func(s string) bool {
		return anyVersion(func(v p.ProtocolVersion) error { return p.CheckValidTopologyChangeType(p.TopologyChangeType(s), v) })
	}},
	"StatusChangeType": {func(s string) bool { return p.StatusChangeType(s).IsValid() }, func(s string) bool { return okErr(p.CheckValidStatusChangeType(p.StatusChangeType(s))) }},
	"Compression": {func(s string) bool { return p.Compression(s).IsValid() }, func(s string) bool {
		// a declared compression must be usable with at least one version; an undeclared one with none
		for _, v := range allVersions {
			if v.SupportsCompression(p.Compression(s)) {
				return true
			}
		}
		return false
	}},
}

func c19fail(t *testing.T, kind string, detail string) {
	r := stats.For("C19")
	r.Violation(kind, detail)
	t.Errorf("C19 %s: %s", kind, detail)
}

// checkNum evaluates one value of one numeric code type against the declared set. With deep set the value is also printed
// (String of an undeclared value takes the fallback path) and every predicate is evaluated a second time: a validity
// check must not depend on what was printed or checked before (lazily filled tables, memoised fallback names).
func checkNum(tname string, nc numCode, declared map[uint64]string, x uint64, deep bool) string {
	_, isDecl := declared[x]
	pass := func(when string) string {
		if nc.isValid == nil {
			return ""
		}
		if got := nc.isValid(x); got != isDecl {
			return fmt.Sprintf("%s(%#x): declared=%v but IsValid/IsSupported=%v%s", tname, x, isDecl, got, when)
		}
		for _, c := range nc.checks {
			if got, name := c(x); got != isDecl {
				return fmt.Sprintf("%s(%#x): declared=%v but %s=%v%s", tname, x, isDecl, name, got, when)
			}
		}
		return ""
	}
	if msg := pass(""); msg != "" {
		return msg
	}
	if isDecl || deep {
		s := nc.str(x)
		if isDecl && strings.Contains(s, "?") {
			return fmt.Sprintf("%s(%#x) = %s prints the fallback name %q", tname, x, declared[x], s)
		}
		if deep {
			if msg := pass(" (second evaluation, after the value was checked and printed once)"); msg != "" {
				return msg
			}
			if s2 := nc.str(x); s2 != s {
				return fmt.Sprintf("%s(%#x) prints %q, then %q", tname, x, s, s2)
			}
		}
	}
	return ""
}

func TestC19(t *testing.T) {
	rec := stats.For("C19")
	consts, err := declaredConstants()
	if err != nil || len(consts) < 100 {
		t.Fatalf("cannot enumerate declared constants from the working tree: %v (%d found)", err, len(consts))
	}
	declNum := map[string]map[uint64]string{}
	declStr := map[string]map[string]string{}
	for _, c := range consts {
		if c.IsStr {
			if declStr[c.Type] == nil {
				declStr[c.Type] = map[string]string{}
			}
			declStr[c.Type][c.Str] = c.Name
		} else {
			if declNum[c.Type] == nil {
				declNum[c.Type] = map[uint64]string{}
			}
			declNum[c.Type][c.Num] = c.Name
		}
	}
	for tn := range declNum {
		if _, ok := numCodes[tn]; !ok {
			rec.Note("numeric constant type without harness entry (not checked): " + tn)
		}
	}
	for tn := range declStr {
		if _, ok := strCodes[tn]; !ok {
			rec.Note("string constant type without harness entry (not checked): " + tn)
		}
	}
	k, n := shard()

	// --- numeric domains
	for tn, nc := range numCodes {
		declared := declNum[tn]
		if len(declared) == 0 {
			c19fail(t, "no-declared-constants", tn)
			continue
		}
		// String() names pairwise distinct among declared
		seen := map[string]uint64{}
		for x := range declared {
			s := nc.str(x)
			if y, dup := seen[s]; dup && y != x {
				c19fail(t, "duplicate-name", fmt.Sprintf("%s: %#x and %#x both print %q", tn, x, y, s))
			}
			seen[s] = x
		}
		sweep := func(lo, hi uint64, class string) {
			for x := lo; x <= hi; x++ {
				// full 32-bit sweeps print and re-evaluate one value in 509 (printing 2^32 fallback names costs hours)
				if msg := checkNum(tn, nc, declared, x, !strings.HasPrefix(class, "sweep32:") || x%509 == 0); msg != "" {
					c19fail(t, "num-mismatch", msg)
					return
				}
				if x == ^uint64(0) {
					break
				}
			}
			cnt := int64(hi - lo + 1)
			nt := int64(0)
			if nc.isValid != nil {
				nt = cnt
			} else {
				for x := range declared {
					if x >= lo && x <= hi {
						nt++
					}
				}
			}
			rec.Bulk(cnt, nt, class)
		}
		switch {
		case nc.bits <= 16:
			if k == 0 {
				sweep(0, 1<<uint(nc.bits)-1, "sweep:"+tn)
				rec.Exhaustive(tn, 1<<uint(nc.bits))
			}
		case thorough() && nc.isValid != nil:
			// all 2^32 values, split over shards
			per := (uint64(1) << 32) / uint64(n)
			lo := per * uint64(k)
			hi := lo + per - 1
			if k == n-1 {
				hi = 1<<32 - 1
			}
			sweep(lo, hi, "sweep32:"+tn)
			rec.Exhaustive(tn, int64(hi-lo+1))
		default:
			if k == 0 {
				// neighbourhoods and single-bit flips of declared values, plus low range
				sweep(0, 1<<16-1, "low16:"+tn)
				cnt := int64(0)
				for x := range declared {
					for d := -2; d <= 2; d++ {
						y := uint64(uint32(int64(x) + int64(d)))
						if msg := checkNum(tn, nc, declared, y, true); msg != "" {
							c19fail(t, "num-mismatch", msg)
						}
						cnt++
					}
					for b := 0; b < 32; b++ {
						y := x ^ (1 << uint(b))
						if msg := checkNum(tn, nc, declared, y, true); msg != "" {
							c19fail(t, "num-mismatch", msg)
						}
						cnt++
					}
				}
				rec.Bulk(cnt, 0, "near32:"+tn) // may overlap with the low sweep: not counted as distinct
			}
		}
	}
	rec.AddSample(fmt.Sprintf("declared constants read from source: %d of %d types, e.g. %+v", len(consts), len(declNum)+len(declStr), consts[0]))

	// --- rapid-drawn 32-bit values (quick and thorough)
	rapid.Check(t, func(rt *rapid.T) {
		x := uint64(rapid.Uint32().Draw(rt, "x"))
		for tn, nc := range numCodes {
			if nc.bits != 32 {
				continue
			}
			if msg := checkNum(tn, nc, declNum[tn], x, true); msg != "" {
				rt.Fatalf("%s", msg)
			}
		}
		rec.Case(true, x, func() string {
			return fmt.Sprintf("32-bit value %#x against ResultType/ErrorCode/DseRevisionType/flag types", x)
		}, "rapid32")
	})

	// --- string-typed codes: declared + near misses
	if k == 0 {
		for tn, sc := range strCodes {
			declared := declStr[tn]
			if len(declared) == 0 {
				c19fail(t, "no-declared-constants", tn)
				continue
			}
			cands := map[string]bool{"": true, " ": true, "?": true}
			for s := range declared {
				cands[s] = true
				for _, m := range []string{strings.ToLower(s), strings.Title(strings.ToLower(s)), s + " ", " " + s, s + "S", s + "_", s[:len(s)-1], s[1:], s + s, strings.ReplaceAll(s, "_", ""), strings.ReplaceAll(s, "_", " "), s + "\x00"} {
					cands[m] = true
				}
				for i := 0; i < len(s); i++ { // every single-character substitution and deletion
					cands[s[:i]+"X"+s[i+1:]] = true
					cands[s[:i]+s[i+1:]] = true
				}
				// names of other types' constants
			}
			for _, other := range declStr {
				for s := range other {
					cands[s] = true
				}
			}
			for s := range cands {
				_, isDecl := declared[s]
				if got := sc.isValid(s); got != isDecl {
					c19fail(t, "str-mismatch", fmt.Sprintf("%s(%q): declared=%v but IsValid=%v", tn, s, isDecl, got))
				}
				if got := sc.check(s); got != isDecl {
					c19fail(t, "str-mismatch", fmt.Sprintf("%s(%q): declared=%v but Check*/capability accepts=%v", tn, s, isDecl, got))
				}
				if got := sc.isValid(s); got != isDecl {
					c19fail(t, "str-mismatch", fmt.Sprintf("%s(%q): declared=%v but IsValid=%v on the second evaluation (after Check* built its error)", tn, s, isDecl, got))
				}
				rec.Case(true, stats.HashString(tn+"\x00"+s), func() string { return fmt.Sprintf("%s(%q) declared=%v", tn, s, isDecl) }, "str:"+tn)
			}
		}
		c19Capabilities(t, rec)
	}
}

// rapid-generated strings for the string-typed codes (arbitrary strings must be rejected unless declared).
func TestC19Strings(t *testing.T) {
	rec := stats.For("C19")
	consts, err := declaredConstants()
	if err != nil {
		t.Fatal(err)
	}
	declStr := map[string]map[string]bool{}
	var pool []string
	for _, c := range consts {
		if c.IsStr {
			if declStr[c.Type] == nil {
				declStr[c.Type] = map[string]bool{}
			}
			declStr[c.Type][c.Str] = true
			pool = append(pool, c.Str)
		}
	}
	rapid.Check(t, func(rt *rapid.T) {
		var s string
		switch rapid.IntRange(0, 3).Draw(rt, "mode") {
		case 0:
			s = rapid.String().Draw(rt, "s")
		case 1:
			s = rapid.StringMatching(`[A-Z_]{0,16}`).Draw(rt, "s")
		default: // mutate a declared constant
			b := []byte(rapid.SampledFrom(pool).Draw(rt, "base"))
			for i := rapid.IntRange(0, 2).Draw(rt, "edits"); i > 0 && len(b) > 0; i-- {
				pos := rapid.IntRange(0, len(b)-1).Draw(rt, "pos")
				switch rapid.IntRange(0, 2).Draw(rt, "op") {
				case 0:
					b[pos] = rapid.Byte().Draw(rt, "c")
				case 1:
					b = append(b[:pos], b[pos+1:]...)
				default:
					b = append(b[:pos], append([]byte{rapid.Byte().Draw(rt, "c")}, b[pos:]...)...)
				}
			}
			s = string(b)
		}
		for tn, sc := range strCodes {
			isDecl := declStr[tn][s]
			if got := sc.isValid(s); got != isDecl {
				rt.Fatalf("%s(%q): declared=%v but IsValid=%v", tn, s, isDecl, got)
			}
			if got := sc.check(s); got != isDecl {
				rt.Fatalf("%s(%q): declared=%v but Check*/capability accepts=%v", tn, s, isDecl, got)
			}
		}
		rec.Case(true, stats.HashString("rs\x00"+s), func() string { return fmt.Sprintf("string %q against all string-typed codes", s) }, "rapidstr")
	})
}

// capability table typed in from the specs (DESIGN.md Appendix A). Cells marked '?' there are absent here.
type capRow struct {
	name string
	f    func(v p.ProtocolVersion) bool
	// expected per version in order v2 v3 v4 v5 DSE1 DSE2; '1' yes, '0' no, '?' not asserted
	want string
}

func c19Capabilities(t *testing.T, rec *stats.Recorder) {
	qf := func(f p.QueryFlag) func(v p.ProtocolVersion) bool {
		return func(v p.ProtocolVersion) bool { return v.SupportsQueryFlag(f) }
	}
	rows := []capRow{
		{"IsSupported", func(v p.ProtocolVersion) bool { return v.IsSupported() }, "111111"},
		{"IsOss", func(v p.ProtocolVersion) bool { return v.IsOss() }, "111100"},
		{"IsDse", func(v p.ProtocolVersion) bool { return v.IsDse() }, "000011"},
		{"FrameHeaderLengthInBytes==9", func(v p.ProtocolVersion) bool { return v.FrameHeaderLengthInBytes() == 9 }, "011111"},
		{"FrameHeaderLengthInBytes==8", func(v p.ProtocolVersion) bool { return v.FrameHeaderLengthInBytes() == 8 }, "100000"},
		{"Uses4BytesCollectionLength", func(v p.ProtocolVersion) bool { return v.Uses4BytesCollectionLength() }, "011111"},
		{"Uses4BytesQueryFlags", func(v p.ProtocolVersion) bool { return v.Uses4BytesQueryFlags() }, "000111"},
		{"SupportsQueryFlag(Values)", qf(p.QueryFlagValues), "111111"},
		{"SupportsQueryFlag(SkipMetadata)", qf(p.QueryFlagSkipMetadata), "111111"},
		{"SupportsQueryFlag(PageSize)", qf(p.QueryFlagPageSize), "111111"},
		{"SupportsQueryFlag(PagingState)", qf(p.QueryFlagPagingState), "111111"},
		{"SupportsQueryFlag(SerialConsistency)", qf(p.QueryFlagSerialConsistency), "111111"},
		{"SupportsQueryFlag(DefaultTimestamp)", qf(p.QueryFlagDefaultTimestamp), "011111"},
		{"SupportsQueryFlag(ValueNames)", qf(p.QueryFlagValueNames), "011111"},
		{"SupportsQueryFlag(WithKeyspace)", qf(p.QueryFlagWithKeyspace), "000101"},
		{"SupportsQueryFlag(NowInSeconds)", qf(p.QueryFlagNowInSeconds), "000100"},
		{"SupportsQueryFlag(DsePageSizeBytes)", qf(p.QueryFlagDsePageSizeBytes), "000011"},
		{"SupportsQueryFlag(DseWithContinuousPagingOptions)", qf(p.QueryFlagDseWithContinuousPagingOptions), "000011"},
		{"SupportsQueryFlag(undeclared 0x200)", qf(p.QueryFlag(0x200)), "000000"},
		{"SupportsBatchQueryFlags", func(v p.ProtocolVersion) bool { return v.SupportsBatchQueryFlags() }, "011111"},
		{"SupportsPrepareFlags", func(v p.ProtocolVersion) bool { return v.SupportsPrepareFlags() }, "000101"},
		{"SupportsResultMetadataId", func(v p.ProtocolVersion) bool { return v.SupportsResultMetadataId() }, "000101"},
		{"SupportsReadWriteFailureReasonMap", func(v p.ProtocolVersion) bool { return v.SupportsReadWriteFailureReasonMap() }, "000111"},
		{"SupportsWriteTimeoutContentions", func(v p.ProtocolVersion) bool { return v.SupportsWriteTimeoutContentions() }, "000100"},
		{"SupportsSchemaChangeTarget(KEYSPACE)", func(v p.ProtocolVersion) bool { return v.SupportsSchemaChangeTarget(p.SchemaChangeTargetKeyspace) }, "111111"},
		{"SupportsSchemaChangeTarget(TABLE)", func(v p.ProtocolVersion) bool { return v.SupportsSchemaChangeTarget(p.SchemaChangeTargetTable) }, "111111"},
		{"SupportsSchemaChangeTarget(TYPE)", func(v p.ProtocolVersion) bool { return v.SupportsSchemaChangeTarget(p.SchemaChangeTargetType) }, "011111"},
		{"SupportsSchemaChangeTarget(FUNCTION)", func(v p.ProtocolVersion) bool { return v.SupportsSchemaChangeTarget(p.SchemaChangeTargetFunction) }, "001111"},
		{"SupportsSchemaChangeTarget(AGGREGATE)", func(v p.ProtocolVersion) bool { return v.SupportsSchemaChangeTarget(p.SchemaChangeTargetAggregate) }, "001111"},
		{"SupportsSchemaChangeTarget(undeclared)", func(v p.ProtocolVersion) bool { return v.SupportsSchemaChangeTarget(p.SchemaChangeTarget("VIEW")) }, "000000"},
		{"CheckValidSchemaChangeTarget(TYPE)", func(v p.ProtocolVersion) bool {
			return p.CheckValidSchemaChangeTarget(p.SchemaChangeTargetType, v) == nil
		}, "011111"},
		{"CheckValidSchemaChangeTarget(FUNCTION)", func(v p.ProtocolVersion) bool {
			return p.CheckValidSchemaChangeTarget(p.SchemaChangeTargetFunction, v) == nil
		}, "001111"},
		{"SupportsTopologyChangeType(NEW_NODE)", func(v p.ProtocolVersion) bool { return v.SupportsTopologyChangeType(p.TopologyChangeTypeNewNode) }, "111111"},
		{"SupportsTopologyChangeType(REMOVED_NODE)", func(v p.ProtocolVersion) bool { return v.SupportsTopologyChangeType(p.TopologyChangeTypeRemovedNode) }, "111111"},
		{"SupportsTopologyChangeType(MOVED_NODE)", func(v p.ProtocolVersion) bool { return v.SupportsTopologyChangeType(p.TopologyChangeTypeMovedNode) }, "01????"},
		{"SupportsDseRevisionType(Cancel)", func(v p.ProtocolVersion) bool {
			return v.SupportsDseRevisionType(p.DseRevisionTypeCancelContinuousPaging)
		}, "000011"},
		{"SupportsDseRevisionType(MorePages)", func(v p.ProtocolVersion) bool { return v.SupportsDseRevisionType(p.DseRevisionTypeMoreContinuousPages) }, "000001"},
		{"CheckValidDseRevisionType(MorePages)", func(v p.ProtocolVersion) bool {
			return p.CheckValidDseRevisionType(p.DseRevisionTypeMoreContinuousPages, v) == nil
		}, "000001"},
		{"CheckDseProtocolVersion", func(v p.ProtocolVersion) bool { return p.CheckDseProtocolVersion(v) == nil }, "000011"},
		{"SupportsModernFramingLayout", func(v p.ProtocolVersion) bool { return v.SupportsModernFramingLayout() }, "000100"},
		{"SupportsUnsetValues", func(v p.ProtocolVersion) bool { return v.SupportsUnsetValues() }, "001111"},
		{"SupportsCompression(NONE)", func(v p.ProtocolVersion) bool { return v.SupportsCompression(p.CompressionNone) }, "111111"},
		{"SupportsCompression(LZ4)", func(v p.ProtocolVersion) bool { return v.SupportsCompression(p.CompressionLz4) }, "111111"},
		{"SupportsCompression(SNAPPY)", func(v p.ProtocolVersion) bool { return v.SupportsCompression(p.CompressionSnappy) }, "111011"},
		{"SupportsCompression(undeclared)", func(v p.ProtocolVersion) bool { return v.SupportsCompression(p.Compression("DEFLATE")) }, "000000"},
	}
	cells := int64(0)
	for _, r := range rows {
		for i, v := range allVersions {
			if r.want[i] == '?' {
				continue
			}
			want := r.want[i] == '1'
			func() {
				defer func() {
					if e := recover(); e != nil {
						c19fail(t, "capability-panic", fmt.Sprintf("%s(%v) panicked: %v", r.name, v, e))
					}
				}()
				if got := r.f(v); got != want {
					c19fail(t, "capability-mismatch", fmt.Sprintf("%s for %v: library says %v, specification table says %v", r.name, v, got, want))
				}
			}()
			cells++
		}
	}
	rec.Bulk(cells, cells, "capability-cells")
	rec.Exhaustive("capability table cells", cells)
	rec.AddSample(fmt.Sprintf("capability row %q expected per version (v2,v3,v4,v5,DSE1,DSE2) = %s", rows[14].name, rows[14].want))
	// all 256 version numbers: classification and no panic in any predicate
	supported := map[p.ProtocolVersion]bool{}
	for _, v := range allVersions {
		supported[v] = true
	}
	for x := 0; x < 256; x++ {
		v := p.ProtocolVersion(x)
		func() {
			defer func() {
				if e := recover(); e != nil {
					c19fail(t, "capability-panic", fmt.Sprintf("predicate panicked for version %#x: %v", x, e))
				}
			}()
			if v.IsSupported() != supported[v] || (p.CheckSupportedProtocolVersion(v) == nil) != supported[v] {
				c19fail(t, "version-mismatch", fmt.Sprintf("version %#x: supported per specs=%v, IsSupported=%v", x, supported[v], v.IsSupported()))
			}
			if !supported[v] && (v.IsOss() || v.IsDse()) {
				c19fail(t, "version-mismatch", fmt.Sprintf("unsupported version %#x classified as OSS=%v DSE=%v", x, v.IsOss(), v.IsDse()))
			}
			for _, r := range rows {
				_ = r.f(v)
			}
			_ = v.String()
		}()
	}
	rec.Bulk(256, 256, "all-version-numbers")
}

// The version list helpers: each returns exactly the supported versions its name (and the matching predicate) selects, in
// ascending order, and the slice belongs to the caller - overwriting or truncating it must not change what the library
// answers afterwards (neither the helpers nor IsSupported / CheckSupportedProtocolVersion).
func TestC19Lists(t *testing.T) {
	rec := stats.For("C19")
	spec := []p.ProtocolVersion{2, 3, 4, 5, 0x41, 0x42}
	inSpec := map[p.ProtocolVersion]bool{}
	for _, v := range spec {
		inSpec[v] = true
	}
	sel := func(pred func(v p.ProtocolVersion) bool) []p.ProtocolVersion {
		var out []p.ProtocolVersion
		for _, v := range spec {
			if pred(v) {
				out = append(out, v)
			}
		}
		return out
	}
	type helper struct {
		name string
		call func() []p.ProtocolVersion
		want []p.ProtocolVersion
	}
	helpers := []helper{
		{"SupportedProtocolVersions", p.SupportedProtocolVersions, spec},
		{"SupportedOssProtocolVersions", p.SupportedOssProtocolVersions, sel(func(v p.ProtocolVersion) bool { return v < 0x40 })},
		{"SupportedDseProtocolVersions", p.SupportedDseProtocolVersions, sel(func(v p.ProtocolVersion) bool { return v >= 0x40 })},
		{"SupportedBetaProtocolVersions", p.SupportedBetaProtocolVersions, sel(func(v p.ProtocolVersion) bool { return v.IsBeta() })},
		{"SupportedNonBetaProtocolVersions", p.SupportedNonBetaProtocolVersions, sel(func(v p.ProtocolVersion) bool { return !v.IsBeta() })},
	}
	for _, pivot := range spec {
		pivot := pivot
		helpers = append(helpers,
			helper{fmt.Sprintf("SupportedProtocolVersionsGreaterThanOrEqualTo(%#x)", uint8(pivot)), func() []p.ProtocolVersion { return p.SupportedProtocolVersionsGreaterThanOrEqualTo(pivot) }, sel(func(v p.ProtocolVersion) bool { return v >= pivot })},
			helper{fmt.Sprintf("SupportedProtocolVersionsGreaterThan(%#x)", uint8(pivot)), func() []p.ProtocolVersion { return p.SupportedProtocolVersionsGreaterThan(pivot) }, sel(func(v p.ProtocolVersion) bool { return v > pivot })},
			helper{fmt.Sprintf("SupportedProtocolVersionsLesserThanOrEqualTo(%#x)", uint8(pivot)), func() []p.ProtocolVersion { return p.SupportedProtocolVersionsLesserThanOrEqualTo(pivot) }, sel(func(v p.ProtocolVersion) bool { return v <= pivot })},
			helper{fmt.Sprintf("SupportedProtocolVersionsLesserThan(%#x)", uint8(pivot)), func() []p.ProtocolVersion { return p.SupportedProtocolVersionsLesserThan(pivot) }, sel(func(v p.ProtocolVersion) bool { return v < pivot })},
		)
	}
	same := func(a, b []p.ProtocolVersion) bool {
		if len(a) != len(b) {
			return false
		}
		for i := range a {
			if a[i] != b[i] {
				return false
			}
		}
		return true
	}
	n := int64(0)
	for round := 0; round < 3; round++ {
		for _, h := range helpers {
			got := h.call()
			n++
			if !same(got, h.want) {
				c19fail(t, "version-list", fmt.Sprintf("%s = %v, expected %v (round %d: rounds 1 and 2 come after callers overwrote the slices they were given)", h.name, got, h.want, round))
				return
			}
			// the caller does what it likes with its slice
			for i := range got {
				got[i] = 0x06
			}
			got = append(got[:0], 0x07, 0x08)
			_ = got
		}
		for x := 0; x < 256; x++ {
			v := p.ProtocolVersion(x)
			n++
			if v.IsSupported() != inSpec[v] || (p.CheckSupportedProtocolVersion(v) == nil) != inSpec[v] {
				c19fail(t, "version-list-predicate", fmt.Sprintf("after callers overwrote the version lists they were given: IsSupported(%#x)=%v, CheckSupportedProtocolVersion error=%v, expected supported=%v", x, v.IsSupported(), p.CheckSupportedProtocolVersion(v), inSpec[v]))
				return
			}
		}
	}
	rec.Bulk(n, n, "version-lists")
	rec.Exhaustive("version list helpers x 6 pivots x 3 rounds with caller-side overwrites, followed by the full 8-bit IsSupported sweep", n)
}
