package props

// C16, losing the TCP peer silently: a raw peer connects to a library server, sends nothing, a complete frame or the first
// bytes of a frame, and then goes quiet without closing its socket (a host that vanished: no FIN, no RST). The only thing
// that can end such a connection is the server's idle timeout; within a generous bound after it the server connection must
// be closed, a blocked Receive must return, and closing the server must leave no goroutine behind.

import (
	"context"
	"encoding/json"
	"fmt"
	"net"
	"strings"
	"testing"
	"time"

	"github.com/datastax/go-cassandra-native-protocol/client"
	"github.com/datastax/go-cassandra-native-protocol/frame"
	"github.com/datastax/go-cassandra-native-protocol/message"
	"github.com/datastax/go-cassandra-native-protocol/primitive"
	"pgregory.net/rapid"

	"verifharness/stats"
)

type c16IdleSpec struct {
	Version int
	Whole   bool // a complete OPTIONS frame precedes the partial bytes
	Partial int  // bytes of a second frame's header sent before the peer goes quiet (0..8)
	IdleMs  int
}

func c16IdleSession(args []string, _ []byte) string {
	var spec c16IdleSpec
	if err := json.Unmarshal([]byte(args[0]), &spec); err != nil {
		return "FAIL: harness: " + err.Error()
	}
	v := primitive.ProtocolVersion(spec.Version)
	const T = 10 * time.Second
	base, _ := clientGoroutines()
	srv := client.NewCqlServer("127.0.0.1:0", nil)
	srv.IdleTimeout = time.Duration(spec.IdleMs) * time.Millisecond
	if err := srv.Start(context.Background()); err != nil {
		return "FAIL: harness: server start: " + err.Error()
	}
	defer srv.Close()
	conn, err := net.Dial("tcp", srv.VerifAddr().String())
	if err != nil {
		return "FAIL: harness: dial: " + err.Error()
	}
	defer conn.Close()
	var sc *client.CqlServerConnection
	if err := within(T, "AcceptAny", func() (err error) { sc, err = srv.AcceptAny(); return }); err != nil {
		return "FAIL: harness: " + err.Error()
	}
	enc, err := refEncode(frame.NewFrame(v, 1, &message.Options{}))
	if err != nil {
		return "FAIL: harness: " + err.Error()
	}
	var out []byte
	if spec.Whole {
		out = append(out, enc...)
	}
	out = append(out, enc[:min(spec.Partial, hdrLen(v)-1)]...) // strictly less than a header: an OPTIONS frame is nothing but its header
	if len(out) > 0 {
		if _, err := conn.Write(out); err != nil {
			return "FAIL: harness: write: " + err.Error()
		}
	}
	received := make(chan error, 1)
	go func() {
		if spec.Whole {
			if _, err := sc.Receive(); err != nil {
				received <- err
				return
			}
		}
		_, err := sc.Receive() // nothing (complete) will ever arrive
		received <- err
	}()
	start := time.Now()
	for !sc.IsClosed() {
		if time.Since(start) > srv.IdleTimeout+T {
			return fmt.Sprintf("FAIL: the peer went quiet after %d bytes (complete frame first: %v) without closing its socket; %v after the idle timeout of %v the server connection is still open", len(out), spec.Whole, T, srv.IdleTimeout)
		}
		time.Sleep(10 * time.Millisecond)
	}
	select {
	case err := <-received:
		if err == nil {
			return "FAIL: Receive returned a frame that was never sent"
		}
	case <-time.After(T):
		return "FAIL: the server connection was closed by its idle timeout but a blocked Receive did not return"
	}
	if err := within(T, "server Close", func() error { return srv.Close() }); err != nil {
		return "FAIL: " + err.Error()
	}
	deadline := time.Now().Add(T)
	for {
		left, sample := clientGoroutines()
		if left <= base {
			break
		}
		if time.Now().After(deadline) {
			return fmt.Sprintf("FAIL: %d goroutine(s) of the client package survive a connection ended by the idle timeout, e.g.\n%s", left-base, clipS400(sample))
		}
		time.Sleep(10 * time.Millisecond)
	}
	return "OK"
}

func init() { workerHandlers["c16idle"] = c16IdleSession }

func c16IdlePeer(rt *rapid.T) {
	if !everyNth("c16IdlePeer", 2, 4) {
		return
	}
	defer noteFailure()
	rec := stats.For("C16")
	spec := c16IdleSpec{Version: int(rapid.SampledFrom(allVersions).Draw(rt, "version")), Whole: rapid.Bool().Draw(rt, "wholeFrameFirst"),
		Partial: rapid.IntRange(0, 8).Draw(rt, "partialBytes"), IdleMs: rapid.SampledFrom([]int{150, 300, 600}).Draw(rt, "idleMs")}
	sj, _ := json.Marshal(spec)
	verdict := harnessTrouble(isolated("c16idle", []string{string(sj)}, nil))
	if strings.HasPrefix(verdict, "FAIL:") {
		rt.Fatalf("%s\nspec %s", verdict, sj)
	}
	if strings.HasPrefix(verdict, "SKIP:") {
		rec.Case(false, 0, nil, "skipped:idle-peer")
		return
	}
	rec.Case(true, stats.HashString("idle/"+string(sj)), func() string { return "peer gone quiet, idle timeout: " + string(sj) }, "idle-peer", fmt.Sprintf("idle-peer:partial=%v", spec.Partial > 0))
}

func TestC16IdlePeer(t *testing.T) { rapid.Check(t, c16IdlePeer) }
