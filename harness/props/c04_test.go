package props

// C04: decoders never panic, fault or hang on arbitrary input bytes.
// Inputs: structure-aware mutations of valid encodings (every annotated length/count/code/flags field set to -1, -2, 0,
// boundary and huge values; truncation; bit flips; insert/delete; splices; deep nesting) plus random bytes, fed to every
// decoding entry point (DESIGN.md Appendix B). Each call runs in a worker subprocess under an address-space limit:
// returns-with-error is fine, a recovered panic or a worker death other than out-of-memory is a violation, a call that
// does not return within 60 s twice is a violation; memory exhaustion is counted, not judged.

import (
	"bytes"
	"encoding/binary"
	"encoding/hex"
	"encoding/json"
	"fmt"
	"io"
	"reflect"
	"regexp"
	"runtime/debug"
	"strconv"
	"strings"
	"testing"

	"github.com/datastax/go-cassandra-native-protocol/client"
	"github.com/datastax/go-cassandra-native-protocol/compression/lz4"
	"github.com/datastax/go-cassandra-native-protocol/compression/snappy"
	"github.com/datastax/go-cassandra-native-protocol/datacodec"
	"github.com/datastax/go-cassandra-native-protocol/datatype"
	"github.com/datastax/go-cassandra-native-protocol/frame"
	"github.com/datastax/go-cassandra-native-protocol/message"
	"github.com/datastax/go-cassandra-native-protocol/primitive"
	"github.com/datastax/go-cassandra-native-protocol/segment"
	"pgregory.net/rapid"

	"verifharness/gen"
	"verifharness/kf"
	"verifharness/ref"
	"verifharness/stats"
)

// ---------------------------------------------------------------------------------------------------------------
// worker side

var repoFrameRe = regexp.MustCompile(`github\.com/datastax/go-cassandra-native-protocol/([a-z0-9/]+)\.(\(\*?\w+\)\.[\w.]+|[^\s(]+)\(`)

// panicSite: the first frame of the stack inside the library, as "package.Function".
func panicSite(stack string) string {
	for _, line := range strings.Split(stack, "\n") {
		if m := repoFrameRe.FindStringSubmatch(line); m != nil {
			return m[1] + "." + m[2]
		}
	}
	return "unknown"
}

// guarded runs f; a panic becomes "FAIL: panic: <value> @ <site>".
func guarded(f func() error) (verdict string) {
	defer func() {
		if e := recover(); e != nil {
			verdict = fmt.Sprintf("FAIL: panic: %v @ %s", e, panicSite(string(debug.Stack())))
		}
	}()
	if err := f(); err != nil {
		return "ERR"
	}
	return "OK"
}

var primReaders = map[string]func(r io.Reader, v primitive.ProtocolVersion) error{
	"ReadByte":   func(r io.Reader, v primitive.ProtocolVersion) error { _, err := primitive.ReadByte(r); return err },
	"ReadShort":  func(r io.Reader, v primitive.ProtocolVersion) error { _, err := primitive.ReadShort(r); return err },
	"ReadInt":    func(r io.Reader, v primitive.ProtocolVersion) error { _, err := primitive.ReadInt(r); return err },
	"ReadLong":   func(r io.Reader, v primitive.ProtocolVersion) error { _, err := primitive.ReadLong(r); return err },
	"ReadString": func(r io.Reader, v primitive.ProtocolVersion) error { _, err := primitive.ReadString(r); return err },
	"ReadLongString": func(r io.Reader, v primitive.ProtocolVersion) error {
		_, err := primitive.ReadLongString(r)
		return err
	},
	"ReadBytes": func(r io.Reader, v primitive.ProtocolVersion) error { _, err := primitive.ReadBytes(r); return err },
	"ReadShortBytes": func(r io.Reader, v primitive.ProtocolVersion) error {
		_, err := primitive.ReadShortBytes(r)
		return err
	},
	"ReadValue": func(r io.Reader, v primitive.ProtocolVersion) error { _, err := primitive.ReadValue(r, v); return err },
	"ReadPositionalValues": func(r io.Reader, v primitive.ProtocolVersion) error {
		_, err := primitive.ReadPositionalValues(r, v)
		return err
	},
	"ReadNamedValues": func(r io.Reader, v primitive.ProtocolVersion) error {
		_, err := primitive.ReadNamedValues(r, v)
		return err
	},
	"ReadInet":     func(r io.Reader, v primitive.ProtocolVersion) error { _, err := primitive.ReadInet(r); return err },
	"ReadInetAddr": func(r io.Reader, v primitive.ProtocolVersion) error { _, err := primitive.ReadInetAddr(r); return err },
	"ReadUuid":     func(r io.Reader, v primitive.ProtocolVersion) error { _, err := primitive.ReadUuid(r); return err },
	"ReadStringList": func(r io.Reader, v primitive.ProtocolVersion) error {
		_, err := primitive.ReadStringList(r)
		return err
	},
	"ReadStringMap": func(r io.Reader, v primitive.ProtocolVersion) error { _, err := primitive.ReadStringMap(r); return err },
	"ReadStringMultiMap": func(r io.Reader, v primitive.ProtocolVersion) error {
		_, err := primitive.ReadStringMultiMap(r)
		return err
	},
	"ReadBytesMap":  func(r io.Reader, v primitive.ProtocolVersion) error { _, err := primitive.ReadBytesMap(r); return err },
	"ReadReasonMap": func(r io.Reader, v primitive.ProtocolVersion) error { _, err := primitive.ReadReasonMap(r); return err },
	"ReadStreamId": func(r io.Reader, v primitive.ProtocolVersion) error {
		_, err := primitive.ReadStreamId(r, v)
		return err
	},
	"ReadUnsignedVint": func(r io.Reader, v primitive.ProtocolVersion) error {
		_, _, err := primitive.ReadUnsignedVint(r)
		return err
	},
	"ReadVint": func(r io.Reader, v primitive.ProtocolVersion) error { _, _, err := primitive.ReadVint(r); return err },
}

func compOf(s string) compKind {
	switch s {
	case "lz4":
		return compLz4
	case "snappy":
		return compSnappy
	}
	return compNone
}

// destFor builds the decode destination described by spec for a value of type dt.
func destFor(spec string, dt datatype.DataType) (interface{}, error) {
	switch {
	case spec == "iface":
		return new(interface{}), nil
	case spec == "pref":
		t, err := datacodec.PreferredGoType(dt)
		if err != nil {
			return nil, err
		}
		return reflect.New(t).Interface(), nil
	case strings.HasPrefix(spec, "rep:"):
		var r gen.Rep
		if err := json.Unmarshal([]byte(spec[4:]), &r); err != nil {
			return nil, err
		}
		return reflect.New(r.BaseType()).Interface(), nil
	case spec == "wrong:int":
		return new(int), nil
	case spec == "wrong:string":
		return new(string), nil
	case spec == "wrong:bytes":
		return new([]byte), nil
	case spec == "wrong:intslice":
		return new([]int), nil
	case spec == "wrong:ifaceslice":
		return &[]interface{}{1, "x"}, nil
	case spec == "wrong:array3":
		return new([3]interface{}), nil
	case spec == "wrong:array0":
		return new([0]int), nil
	case spec == "wrong:strmap":
		return &map[string]interface{}{"a": 1}, nil
	case spec == "wrong:intmap":
		return new(map[int]string), nil
	case spec == "wrong:struct":
		return &struct {
			A int
			B string
			c int
		}{}, nil
	case spec == "wrong:nonpointer":
		return 42, nil
	case spec == "wrong:nil":
		return nil, nil
	case spec == "wrong:nilptr":
		return (*int64)(nil), nil
	case spec == "wrong:time":
		return new(struct{ T interface{} }), nil
	}
	return nil, fmt.Errorf("unknown dest spec %q", spec)
}

func c04Handler(args []string, data []byte) string {
	entry := args[0]
	ver := func(i int) primitive.ProtocolVersion {
		n, _ := strconv.Atoi(args[i])
		return primitive.ProtocolVersion(n)
	}
	switch {
	case strings.HasPrefix(entry, "frame."):
		codec := newRawCodec(compOf(args[1]))
		switch entry {
		case "frame.DecodeFrame":
			if len(data)%2 == 1 { // the decoders treat a *bytes.Buffer source specially (read in place by the compressors)
				return guarded(func() error { _, err := codec.DecodeFrame(bytes.NewBuffer(append([]byte{}, data...))); return err })
			}
			return guarded(func() error { _, err := codec.DecodeFrame(bytes.NewReader(data)); return err })
		case "frame.DecodeRawFrame":
			return guarded(func() error { _, err := codec.DecodeRawFrame(bytes.NewReader(data)); return err })
		case "frame.DecodeHeader":
			return guarded(func() error { _, err := codec.DecodeHeader(bytes.NewReader(data)); return err })
		}
		r := bytes.NewReader(data)
		var h *frame.Header
		if v := guarded(func() error { var err error; h, err = codec.DecodeHeader(r); return err }); v != "OK" {
			return v
		}
		switch entry {
		case "frame.DecodeBody":
			if len(data)%2 == 1 {
				rest, _ := io.ReadAll(r)
				return guarded(func() error { _, err := codec.DecodeBody(h, bytes.NewBuffer(rest)); return err })
			}
			return guarded(func() error { _, err := codec.DecodeBody(h, r); return err })
		case "frame.DecodeRawBody":
			return guarded(func() error { _, err := codec.DecodeRawBody(h, r); return err })
		case "frame.DiscardBody":
			if args[2] == "noseek" {
				return guarded(func() error { return codec.DiscardBody(h, onlyReader{r}) })
			}
			return guarded(func() error { return codec.DiscardBody(h, r) })
		case "frame.ConvertFromRawFrame":
			rest, _ := io.ReadAll(r)
			return guarded(func() error { _, err := codec.ConvertFromRawFrame(&frame.RawFrame{Header: h, Body: rest}); return err })
		}
	case strings.HasPrefix(entry, "message.op"):
		op, _ := strconv.Atoi(entry[len("message.op"):])
		mc := messageCodecFor(primitive.OpCode(op))
		if mc == nil {
			return "FAIL: no codec for opcode " + entry
		}
		v := ver(1)
		return guarded(func() error {
			m, err := mc.Decode(bytes.NewReader(data), v)
			if err == nil && m != nil {
				_ = fmt.Sprint(m) // String() of a decoded message must not fault either
			}
			return err
		})
	case entry == "message.QueryOptions":
		v := ver(1)
		return guarded(func() error { _, err := message.DecodeQueryOptions(bytes.NewReader(data), v); return err })
	case entry == "message.ContinuousPagingOptions":
		v := ver(1)
		return guarded(func() error { _, err := message.DecodeContinuousPagingOptions(bytes.NewReader(data), v); return err })
	case entry == "datatype.ReadDataType":
		v := ver(1)
		return guarded(func() error {
			dt, err := datatype.ReadDataType(bytes.NewReader(data), v)
			if err != nil {
				return err
			}
			_, _ = datatype.LengthOfDataType(dt, v)
			_ = dt.DeepCopyDataType()
			if len(data) <= 4096 {
				// follow-up operations on a decoded descriptor; skipped for very deep descriptors because AsCql and
				// reflect type construction are quadratic in the nesting depth (slow, not a decoding fault)
				_ = dt.AsCql()
				if c, err := datacodec.NewCodec(dt); err == nil {
					_ = c.DataType()
				}
				_, _ = datacodec.PreferredGoType(dt)
			}
			return nil
		})
	case strings.HasPrefix(entry, "primitive."):
		if entry == "primitive.ParseUuid" {
			return guarded(func() error { _, err := primitive.ParseUuid(string(data)); return err })
		}
		f := primReaders[entry[len("primitive."):]]
		if f == nil {
			return "FAIL: unknown primitive reader " + entry
		}
		v := ver(1)
		return guarded(func() error { return f(bytes.NewReader(data), v) })
	case entry == "segment.DecodeSegment":
		return guarded(func() error { _, err := segCodec(args[1] == "lz4").DecodeSegment(bytes.NewReader(data)); return err })
	case entry == "lz4.Decompress":
		return guarded(func() error { return lz4.Compressor{}.Decompress(bytes.NewReader(data), io.Discard) })
	case entry == "lz4.DecompressWithLength":
		return guarded(func() error { return lz4.Compressor{}.DecompressWithLength(bytes.NewReader(data), io.Discard) })
	case entry == "snappy.DecompressWithLength":
		return guarded(func() error { return snappy.Compressor{}.DecompressWithLength(bytes.NewReader(data), io.Discard) })
	case entry == "client.AuthCredentials.Unmarshal":
		return guarded(func() error { return (&client.AuthCredentials{}).Unmarshal(data) })
	case entry == "datacodec.Decode":
		v := ver(1)
		tb, _ := hex.DecodeString(args[2])
		dt, err := datatype.ReadDataType(bytes.NewReader(tb), v)
		if err != nil {
			return "FAIL: harness: cannot rebuild type: " + err.Error()
		}
		var codec datacodec.Codec
		if vd := guarded(func() error { var err error; codec, err = datacodec.NewCodec(dt); return err }); vd != "OK" {
			return vd
		}
		var src []byte = data
		if args[4] == "null" {
			src = nil
		}
		var dest interface{}
		if vd := guarded(func() error { var err error; dest, err = destFor(args[3], dt); return err }); vd != "OK" {
			if strings.HasPrefix(vd, "FAIL: panic") {
				return vd // PreferredGoType panicked
			}
			return "ERR"
		}
		if len(args) > 5 && strings.HasPrefix(args[5], "cap:") && dest != nil {
			// a destination slice that is being reused: some elements in place, spare capacity behind them
			var l, c int
			fmt.Sscanf(args[5], "cap:%d:%d", &l, &c)
			if dv := reflect.ValueOf(dest); dv.Kind() == reflect.Ptr && !dv.IsNil() && dv.Elem().Kind() == reflect.Slice && l <= c {
				dv.Elem().Set(reflect.MakeSlice(dv.Elem().Type(), l, c))
			}
		}
		return guarded(func() error { _, err := codec.Decode(src, dest, v); return err })
	}
	return "FAIL: unknown entry " + entry
}

func init() { workerHandlers["c04"] = c04Handler }

// ---------------------------------------------------------------------------------------------------------------
// parent side: mutation

var hostile1 = []uint64{0, 1, 2, 0x7f, 0x80, 0xff}
var hostile2 = []uint64{0, 1, 2, 0x7f, 0x80, 0xff, 0x7fff, 0x8000, 0xffff, 0xfffe}
var hostile4 = []uint64{0xffffffff, 0xfffffffe, 0x80000000, 0, 1, 2, 0x7f, 0x80, 0xff, 0x7fff, 0x8000, 0xffff, 0x10000, 1 << 24, 0x7fffffff}

// values whose pairwise products leave the int32 range: 65536^2 = 2^32 (wraps to 0), 46341^2 > MaxInt32 (wraps negative),
// (2^31-1)^2 wraps to 1, 2^24 squared wraps to 0
var productHostile = []uint64{0x10000, 46341, 0x7fffffff, 1 << 24, 0xffff}

func setField(b []byte, a ref.Annot, val uint64) {
	for i := 0; i < a.Width && a.Off+i < len(b); i++ {
		b[a.Off+i] = byte(val >> (8 * uint(a.Width-1-i)))
	}
}

func fieldValue(b []byte, a ref.Annot) uint64 {
	var v uint64
	for i := 0; i < a.Width && a.Off+i < len(b); i++ {
		v = v<<8 | uint64(b[a.Off+i])
	}
	return v
}

func mutableAnnots(annots []ref.Annot) []ref.Annot {
	var out []ref.Annot
	for _, a := range annots {
		if (a.Width == 1 || a.Width == 2 || a.Width == 4) && (a.Kind == "length" || a.Kind == "count" || a.Kind == "code" || a.Kind == "flags" || a.Kind == "int") {
			out = append(out, a)
		}
	}
	return out
}

func mutateField(rt *rapid.T, b []byte, fields []ref.Annot, label string) string {
	a := fields[rapid.IntRange(0, len(fields)-1).Draw(rt, label+"/field")]
	var vals []uint64
	switch a.Width {
	case 1:
		vals = hostile1
	case 2:
		vals = hostile2
	default:
		vals = hostile4
	}
	cur := fieldValue(b, a)
	var val uint64
	switch rapid.IntRange(0, 5).Draw(rt, label+"/how") {
	case 0:
		val = cur + 1
	case 1:
		val = cur - 1
	case 2:
		val = rapid.Uint64().Draw(rt, label+"/rand")
	default:
		val = rapid.SampledFrom(vals).Draw(rt, label+"/val")
	}
	setField(b, a, val)
	return fmt.Sprintf("%s@%d/%d=%#x", a.Kind, a.Off, a.Width, val&(1<<(8*uint(a.Width))-1))
}

// mutate derives a hostile input from a valid encoding.
func mutate(rt *rapid.T, valid []byte, annots []ref.Annot, other []byte) ([]byte, string) {
	b := append([]byte{}, valid...)
	fields := mutableAnnots(annots)
	k := rapid.IntRange(0, 13).Draw(rt, "mutation")
	var counts []ref.Annot
	for _, a := range fields {
		if a.Kind == "count" && a.Width == 4 {
			counts = append(counts, a)
		}
	}
	if k >= 12 && len(counts) < 2 {
		k = rapid.IntRange(0, 11).Draw(rt, "mutation2")
	}
	if len(fields) == 0 && k <= 5 {
		k = 6 + k%5
	}
	switch {
	case k >= 12:
		// every 4-byte count at once: sizes that are each plausible but whose product (rows x columns, entries x width) is not
		val := rapid.SampledFrom(productHostile).Draw(rt, "allCounts")
		for _, a := range counts {
			setField(b, a, val)
		}
		return b, fmt.Sprintf("counts all=%#x (%d fields)", val, len(counts))
	case k <= 4:
		return b, "field " + mutateField(rt, b, fields, "m1")
	case k == 5:
		d1 := mutateField(rt, b, fields, "m1")
		d2 := mutateField(rt, b, fields, "m2")
		return b, "fields " + d1 + " " + d2
	case k == 6:
		if len(b) == 0 {
			return b, "valid(empty)"
		}
		n := rapid.IntRange(0, len(b)-1).Draw(rt, "truncate")
		return b[:n], fmt.Sprintf("truncate@%d", n)
	case k == 7:
		if len(b) == 0 {
			return b, "valid(empty)"
		}
		p := rapid.IntRange(0, len(b)-1).Draw(rt, "pos")
		bit := rapid.IntRange(0, 7).Draw(rt, "bit")
		b[p] ^= 1 << uint(bit)
		return b, fmt.Sprintf("bitflip@%d.%d", p, bit)
	case k == 8:
		p := rapid.IntRange(0, len(b)).Draw(rt, "pos")
		if rapid.Bool().Draw(rt, "insert") || len(b) == 0 {
			c := rapid.Byte().Draw(rt, "byte")
			b = append(b[:p], append([]byte{c}, b[p:]...)...)
			return b, fmt.Sprintf("insert@%d", p)
		}
		if p == len(b) {
			p--
		}
		b = append(b[:p], b[p+1:]...)
		return b, fmt.Sprintf("delete@%d", p)
	case k == 9:
		a := rapid.IntRange(0, len(b)).Draw(rt, "cutA")
		c := rapid.IntRange(0, len(other)).Draw(rt, "cutB")
		return append(b[:a], other[c:]...), fmt.Sprintf("splice@%d+%d", a, c)
	case k == 10:
		return b, "valid"
	default:
		n := rapid.IntRange(0, 64).Draw(rt, "randlen")
		switch rapid.IntRange(0, 19).Draw(rt, "randsize") {
		case 0:
			n = rapid.IntRange(0, 65536).Draw(rt, "randlen2")
		case 1:
			if rapid.IntRange(0, 9).Draw(rt, "mega") == 0 {
				n = 1 << 20
			}
		}
		if n > 256 {
			return gen.Expand(3, rapid.Uint64().Draw(rt, "randseed"), n), fmt.Sprintf("random(%d)", n)
		}
		return rapid.SliceOfN(rapid.Byte(), n, n).Draw(rt, "random"), fmt.Sprintf("random(%d)", n)
	}
}

// ---------------------------------------------------------------------------------------------------------------
// parent side: case generators per entry-point family

type c04Case struct {
	args   []string
	valid  []byte
	annots []ref.Annot
}

func frameCase(rt *rapid.T) c04Case {
	v := gen.Version(rt)
	comp := drawComp(rt, v)
	fc := gen.Frame(rt, v, false, smallOpts())
	enc, err := ref.EncodeFrame(fc.Frame)
	if err != nil {
		rt.Fatalf("harness defect: %v", err)
	}
	valid := enc.Flat(nil)
	entry := rapid.SampledFrom([]string{"frame.DecodeFrame", "frame.DecodeFrame", "frame.DecodeRawFrame", "frame.DecodeHeader", "frame.DecodeBody", "frame.DecodeRawBody", "frame.DiscardBody", "frame.ConvertFromRawFrame"}).Draw(rt, "entry")
	seek := rapid.SampledFrom([]string{"seek", "noseek"}).Draw(rt, "seek")
	return c04Case{args: []string{entry, comp.String(), seek, strconv.Itoa(int(v))}, valid: valid, annots: enc.Annots()}
}

func smallOpts() gen.Opts {
	o := gen.DefaultOpts()
	o.MaxLongString = 70000
	return o
}

func messageCase(rt *rapid.T) c04Case {
	v := gen.Version(rt)
	if rapid.IntRange(0, 5).Draw(rt, "options") == 0 {
		qo := gen.QueryOptions(rt, v, "qo")
		w := &ref.W{}
		_ = w
		enc, err := ref.EncodeMessage(&message.Query{Query: "", Options: qo}, v)
		if err != nil {
			rt.Fatalf("harness defect: %v", err)
		}
		b := enc.Flat(nil)[4:] // strip the empty [long string]
		var as []ref.Annot
		for _, a := range enc.Annots() {
			if a.Off >= 4 {
				a.Off -= 4
				as = append(as, a)
			}
		}
		return c04Case{args: []string{"message.QueryOptions", strconv.Itoa(int(v))}, valid: b, annots: as}
	}
	kind, msg := gen.Message(rt, v, smallOpts())
	_ = kind
	enc, err := ref.EncodeMessage(msg, v)
	if err != nil {
		rt.Fatalf("harness defect: %v", err)
	}
	// decode under the same or (sometimes) another version
	dv := v
	if rapid.IntRange(0, 4).Draw(rt, "otherVersion") == 0 {
		dv = gen.Version(rt)
	}
	return c04Case{args: []string{fmt.Sprintf("message.op%d", msg.GetOpCode()), strconv.Itoa(int(dv))}, valid: enc.Flat(nil), annots: enc.Annots()}
}

func typeCase(rt *rapid.T) c04Case {
	v := gen.Version(rt)
	var valid []byte
	switch rapid.IntRange(0, 9).Draw(rt, "shape") {
	case 0: // deep well-formed nesting: list<list<...<int>>>
		depth := rapid.SampledFrom([]int{100, 1500, 20000, 524287}).Draw(rt, "depth")
		valid = bytes.Repeat([]byte{0x00, 0x20}, depth)
		valid = append(valid, 0x00, 0x09)
	case 1: // deep truncated nesting (error path): capped, see DESIGN.md C04 guards
		depth := rapid.SampledFrom([]int{10, 100, 1500}).Draw(rt, "depth")
		kindb := rapid.SampledFrom([]byte{0x20, 0x22, 0x21}).Draw(rt, "code")
		valid = bytes.Repeat([]byte{0x00, kindb}, depth)
	default:
		dt := gen.DataType(rt, v, rapid.IntRange(0, 6).Draw(rt, "depth"), "type")
		var err error
		valid, err = ref.EncodeOption(dt, v)
		if err != nil {
			rt.Fatalf("harness defect: %v", err)
		}
	}
	// every 2-byte field is a code, count or string length
	var as []ref.Annot
	for i := 0; i+2 <= len(valid) && i < 3000; i += 2 {
		as = append(as, ref.Annot{Off: i, Width: 2, Kind: "code"})
	}
	return c04Case{args: []string{"datatype.ReadDataType", strconv.Itoa(int(v))}, valid: valid, annots: as}
}

func primitiveCase(rt *rapid.T) c04Case {
	v := gen.Version(rt)
	names := make([]string, 0, len(primReaders)+1)
	for n := range primReaders {
		names = append(names, n)
	}
	sortStringsInPlace(names)
	names = append(names, "ParseUuid")
	name := rapid.SampledFrom(names).Draw(rt, "reader")
	w := &ref.W{}
	switch name {
	case "ReadString":
		w.String(gen.Str(rt, "s"))
	case "ReadLongString":
		w.LongString(gen.LongStr(rt, "s", 70000))
	case "ReadBytes":
		w.Bytes(gen.NullableBlob(rt, "b", 3000))
	case "ReadShortBytes":
		w.ShortBytes(gen.Blob(rt, "b", 3000))
	case "ReadValue":
		w.Bytes(gen.NullableBlob(rt, "b", 3000))
	case "ReadPositionalValues":
		n := rapid.IntRange(0, 4).Draw(rt, "n")
		w.Short(uint16(n), "count")
		for i := 0; i < n; i++ {
			w.Bytes(gen.NullableBlob(rt, fmt.Sprintf("b%d", i), 300))
		}
	case "ReadNamedValues", "ReadBytesMap":
		n := rapid.IntRange(0, 4).Draw(rt, "n")
		w.Short(uint16(n), "count")
		for i := 0; i < n; i++ {
			w.String(gen.Str(rt, fmt.Sprintf("k%d", i)))
			w.Bytes(gen.NullableBlob(rt, fmt.Sprintf("b%d", i), 300))
		}
	case "ReadStringList":
		w.StringList(gen.StrList(rt, "l", 5))
	case "ReadStringMap":
		n := rapid.IntRange(0, 4).Draw(rt, "n")
		w.Short(uint16(n), "count")
		for i := 0; i < n; i++ {
			w.String(gen.Str(rt, fmt.Sprintf("k%d", i)))
			w.String(gen.Str(rt, fmt.Sprintf("v%d", i)))
		}
	case "ReadStringMultiMap":
		n := rapid.IntRange(0, 4).Draw(rt, "n")
		w.Short(uint16(n), "count")
		for i := 0; i < n; i++ {
			w.String(gen.Str(rt, fmt.Sprintf("k%d", i)))
			w.StringList(gen.StrList(rt, fmt.Sprintf("v%d", i), 4))
		}
	case "ReadInet":
		in := gen.Inet(rt, "inet")
		_ = w.Inet(in.Addr, in.Port)
	case "ReadInetAddr":
		_ = w.InetAddr(gen.IP(rt, "ip"))
	case "ReadReasonMap":
		n := rapid.IntRange(0, 4).Draw(rt, "n")
		w.Int(int32(n), "count")
		for i := 0; i < n; i++ {
			_ = w.InetAddr(gen.IP(rt, fmt.Sprintf("ip%d", i)))
			w.Short(uint16(rapid.IntRange(0, 6).Draw(rt, fmt.Sprintf("c%d", i))), "code")
		}
	case "ReadUnsignedVint", "ReadVint":
		w.Raw(ref.UnsignedVint(rapid.Uint64().Draw(rt, "vint")))
	case "ParseUuid":
		u := gen.UUID(rt, "uuid")
		w.Raw([]byte(u.String()))
	default:
		w.Raw(rapid.SliceOfN(rapid.Byte(), 0, 16).Draw(rt, "raw"))
	}
	enc := w.Done()
	return c04Case{args: []string{"primitive." + name, strconv.Itoa(int(v))}, valid: enc.Flat(nil), annots: enc.Annots()}
}

func sortStringsInPlace(a []string) {
	for i := 1; i < len(a); i++ {
		for j := i; j > 0 && a[j] < a[j-1]; j-- {
			a[j], a[j-1] = a[j-1], a[j]
		}
	}
}

// segmentCase: mutated segments whose checksums are recomputed, so that the decoder's later stages are reached.
func segmentCase(rt *rapid.T) (c04Case, bool) {
	lz := rapid.Bool().Draw(rt, "lz4")
	n := rapid.SampledFrom([]int{0, 1, 7, 100, 4096}).Draw(rt, "len")
	payload := gen.Expand(rapid.IntRange(0, 3).Draw(rt, "class"), rapid.Uint64().Draw(rt, "seed"), n)
	b := mkBase(payload, rapid.Bool().Draw(rt, "sc"), lz)
	fixCRC := rapid.IntRange(0, 2).Draw(rt, "fixcrc") != 0
	hl := b.hdrLen - 3
	// annotate the header as one little-endian field; mutation of individual bytes covers the length bits
	var as []ref.Annot
	for i := 0; i < hl; i++ {
		as = append(as, ref.Annot{Off: i, Width: 1, Kind: "length"})
	}
	return c04Case{args: []string{"segment.DecodeSegment", map[bool]string{true: "lz4", false: "none"}[lz], strconv.Itoa(hl)}, valid: b.enc, annots: as}, fixCRC
}

// refreshSegmentCRCs recomputes CRC-24 and CRC-32 so that they match the (mutated) header and the bytes that the header
// declares as payload.
func refreshSegmentCRCs(b []byte, hl int) []byte {
	if len(b) < hl+3 {
		return b
	}
	c := ref.CRC24(b[:hl])
	b[hl], b[hl+1], b[hl+2] = byte(c), byte(c>>8), byte(c>>16)
	var v uint64
	for i := 0; i < hl; i++ {
		v |= uint64(b[i]) << (8 * uint(i))
	}
	plen := int(v & 0x1FFFF)
	body := b[hl+3:]
	if plen > len(body) {
		// extend with zeros so that the declared payload exists
		if plen <= 131071 {
			body = append(body, make([]byte, plen-len(body))...)
		} else {
			return b
		}
	}
	out := append([]byte{}, b[:hl+3]...)
	out = append(out, body[:plen]...)
	return append(out, le32(seededCRC32(body[:plen]))...)
}

func compressionCase(rt *rapid.T) c04Case {
	entry := rapid.SampledFrom([]string{"lz4.Decompress", "lz4.DecompressWithLength", "snappy.DecompressWithLength"}).Draw(rt, "entry")
	n := rapid.SampledFrom([]int{0, 1, 20, 300, 5000, 70000}).Draw(rt, "len")
	x := gen.Expand(rapid.IntRange(0, 3).Draw(rt, "class"), rapid.Uint64().Draw(rt, "seed"), n)
	var valid bytes.Buffer
	var as []ref.Annot
	switch entry {
	case "lz4.Decompress":
		if rapid.Bool().Draw(rt, "foreign") {
			valid.Write(ref.LZ4EncodeRuns(x))
		} else {
			_ = lz4.Compressor{}.Compress(bytes.NewBuffer(x), &valid)
		}
	case "lz4.DecompressWithLength":
		_ = lz4.Compressor{}.CompressWithLength(bytes.NewBuffer(x), &valid)
		as = append(as, ref.Annot{Off: 0, Width: 4, Kind: "length"})
	default:
		_ = snappy.Compressor{}.CompressWithLength(bytes.NewBuffer(x), &valid)
		as = append(as, ref.Annot{Off: 0, Width: 1, Kind: "length"}, ref.Annot{Off: 1, Width: 1, Kind: "length"})
	}
	// token / tag bytes are the structural fields of the block formats: annotate the first few bytes
	for i := len(as); i < 12 && i < valid.Len(); i++ {
		as = append(as, ref.Annot{Off: i, Width: 1, Kind: "code"})
	}
	return c04Case{args: []string{entry}, valid: valid.Bytes(), annots: as}
}

var wrongDests = []string{"iface", "pref", "wrong:int", "wrong:string", "wrong:bytes", "wrong:intslice", "wrong:ifaceslice", "wrong:array3", "wrong:array0",
	"wrong:strmap", "wrong:intmap", "wrong:struct", "wrong:nonpointer", "wrong:nil", "wrong:nilptr", "wrong:time"}

// specialScalarCase: a fixed-width scalar whose bytes are a special bit pattern (NaNs, infinities, minus zero, the extremes
// of the integer types), decoded into each Go representation the codec accepts for the type (e.g. a NaN double into *big.Float).
func specialScalarCase(rt *rapid.T) c04Case {
	v := gen.Version(rt)
	dt := rapid.SampledFrom([]datatype.DataType{datatype.Float, datatype.Double, datatype.Double, datatype.Int, datatype.Bigint, datatype.Timestamp, datatype.Counter}).Draw(rt, "type")
	w := 8
	if dt == datatype.Float || dt == datatype.Int {
		w = 4
	}
	pat := rapid.SampledFrom([]uint64{0, 0xffffffffffffffff, 0x8000000000000000, 0x7fffffffffffffff, 0x7ff0000000000000, 0xfff0000000000000,
		0x7ff8000000000001, 0xfff8000000000000, 0x7ff0000000000001, 0x7f800000ffffffff, 0xff800000ffffffff, 0x7fc00001ffffffff, 0x7f800001ffffffff, 0x0000000000000001}).Draw(rt, "pattern")
	valid := make([]byte, w)
	for i := 0; i < w; i++ {
		valid[i] = byte(pat >> (8 * uint(7-i)))
	}
	tb, err := ref.EncodeOption(dt, v)
	if err != nil {
		rt.Fatalf("harness defect: %v", err)
	}
	kind := rapid.SampledFrom(gen.ScalarRepKinds(dt.Code())).Draw(rt, "destRep")
	rj, _ := json.Marshal(&gen.Rep{Kind: kind, Ptr: rapid.Bool().Draw(rt, "ptr"), ArrLen: -1})
	return c04Case{args: []string{"datacodec.Decode", strconv.Itoa(int(v)), hex.EncodeToString(tb), "rep:" + string(rj), "data"}, valid: valid}
}

func valueDecodeCase(rt *rapid.T) c04Case {
	if rapid.IntRange(0, 5).Draw(rt, "specialScalar") == 0 {
		return specialScalarCase(rt)
	}
	v := gen.Version(rt)
	dt := gen.ValueType(rt, v, rapid.IntRange(0, 3).Draw(rt, "depth"), "type")
	rep := gen.DrawRep(rt, dt, false, "rep")
	rep.Iface = false
	av := gen.DrawAV(rt, dt, rep, v, false, "value")
	valid, err := ref.SerializeValue(dt, av, v)
	if err != nil {
		rt.Fatalf("harness defect: %v", err)
	}
	// fixed-width scalars: special bit patterns (NaNs, infinities, minus zero, extremes of the integer types) as the bytes to
	// decode - into every destination kind below, e.g. a NaN double into a *big.Float
	if w := len(valid); (w == 4 || w == 8) && !isComposite(dt) && rapid.IntRange(0, 2).Draw(rt, "specialBits") == 0 {
		pat := rapid.SampledFrom([]uint64{0, 0xffffffffffffffff, 0x8000000000000000, 0x7fffffffffffffff, 0x7ff0000000000000, 0xfff0000000000000,
			0x7ff8000000000001, 0xfff8000000000000, 0x7ff0000000000001, 0x7f800000ffffffff, 0xff800000ffffffff, 0x7fc00001ffffffff, 0x7f800001ffffffff, 0x0000000000000001}).Draw(rt, "pattern")
		valid = make([]byte, w)
		for i := 0; i < w; i++ {
			valid[i] = byte(pat >> (8 * uint(7-i)))
		}
	}
	tb, err := ref.EncodeOption(dt, v)
	if err != nil {
		rt.Fatalf("harness defect: %v", err)
	}
	dest := "iface"
	switch rapid.IntRange(0, 3).Draw(rt, "destkind") {
	case 0:
		rj, _ := json.Marshal(rep)
		dest = "rep:" + string(rj)
	case 1:
		dest = rapid.SampledFrom(wrongDests).Draw(rt, "dest")
	case 2:
		// the representation of ANOTHER value of the same type (e.g. fixed-size arrays of a different length)
		rep2 := gen.DrawRep(rt, dt, false, "rep2")
		rep2.Iface = false
		_ = gen.DrawAV(rt, dt, rep2, v, false, "value2")
		rj, _ := json.Marshal(rep2)
		dest = "rep:" + string(rj)
	}
	null := "data"
	if rapid.IntRange(0, 19).Draw(rt, "null") == 0 {
		null = "null"
	}
	args := []string{"datacodec.Decode", strconv.Itoa(int(v)), hex.EncodeToString(tb), dest, null}
	if rapid.IntRange(0, 2).Draw(rt, "reusedSlice") == 0 {
		l := rapid.IntRange(0, 4).Draw(rt, "sliceLen")
		args = append(args, fmt.Sprintf("cap:%d:%d", l, l+rapid.IntRange(0, 9).Draw(rt, "spareCap")))
	}
	return c04Case{args: args, valid: valid, annots: ref.ValueAnnots(dt, valid, v)}
}

// knownC04 maps a panic verdict to an open finding id, if any.
func knownC04(verdict string) string {
	i := strings.LastIndex(verdict, " @ ")
	if i < 0 {
		return ""
	}
	id := "C04-panic@" + strings.TrimSpace(verdict[i+3:])
	if kf.Open(id) {
		return id
	}
	return ""
}

func c04Property(rt *rapid.T) {
	rec := stats.For("C04")
	var c c04Case
	family := rapid.SampledFrom([]string{"frame", "frame", "message", "message", "type", "primitive", "segment", "compression", "value", "value", "auth"}).Draw(rt, "family")
	fixCRC := false
	switch family {
	case "frame":
		c = frameCase(rt)
	case "message":
		c = messageCase(rt)
	case "type":
		c = typeCase(rt)
	case "primitive":
		c = primitiveCase(rt)
	case "segment":
		c, fixCRC = segmentCase(rt)
	case "compression":
		c = compressionCase(rt)
	case "value":
		c = valueDecodeCase(rt)
	default:
		ac := &client.AuthCredentials{Username: gen.Str(rt, "user"), Password: gen.Str(rt, "pass")}
		c = c04Case{args: []string{"client.AuthCredentials.Unmarshal"}, valid: ac.Marshal()}
		for i := range c.valid {
			if c.valid[i] == 0 {
				c.annots = append(c.annots, ref.Annot{Off: i, Width: 1, Kind: "code"})
			}
		}
	}
	other := c.valid
	if family == "frame" && rapid.Bool().Draw(rt, "spliceOther") {
		other = frameCase(rt).valid
	}
	var input []byte
	var what string
	if family == "type" && len(c.valid) > 3000 {
		// a deep descriptor is altered within its first 3000 bytes only, so that the decoder's failure happens at most
		// 1500 levels down: the library re-formats the whole error chain at every level on the way up, which is
		// quadratic in the depth of the failure (20000 levels: minutes of CPU; terminating, hence not this property's
		// business, but indistinguishable from non-termination within any practical budget)
		head, tail := c.valid[:3000], c.valid[3000:]
		input, what = mutate(rt, head, c.annots, head)
		input = append(append([]byte{}, input...), tail...)
		what += "+deep-tail"
	} else {
		input, what = mutate(rt, c.valid, c.annots, other)
	}
	if family == "segment" && fixCRC {
		hl, _ := strconv.Atoi(c.args[2])
		input = refreshSegmentCRCs(input, hl)
		what += "+crcfix"
	}
	if family == "frame" && c.args[1] != "none" && len(input) >= 9 && rapid.Bool().Draw(rt, "wrapCompressed") {
		// present the (mutated) body as a compressed body built by the independent literal-only encoders
		v, _ := strconv.Atoi(c.args[3])
		h := hdrLen(primitive.ProtocolVersion(v))
		if len(input) >= h {
			body := input[h:]
			var cb []byte
			if c.args[1] == "lz4" {
				cb = append(binary.BigEndian.AppendUint32(nil, uint32(len(body))), ref.LZ4EncodeLiteral(body)...)
			} else {
				cb = ref.SnappyEncodeLiteral(body)
			}
			hd := append([]byte{}, input[:h]...)
			hd[1] |= 0x01
			binary.BigEndian.PutUint32(hd[h-4:], uint32(len(cb)))
			input = append(hd, cb...)
			what += "+compressed"
			// ... and now and then the header of that compressed frame declares a hostile body length
			if rapid.IntRange(0, 3).Draw(rt, "hostileCompressedLength") == 0 {
				binary.BigEndian.PutUint32(input[h-4:], rapid.SampledFrom([]uint32{0xffffffff, 0xfffffffe, 0x80000000, 0, 1, 4, 5, uint32(len(cb)) - 1, uint32(len(cb)) + 1}).Draw(rt, "declared"))
				what += "+length"
				if rapid.Bool().Draw(rt, "oddLength") && len(input)%2 == 0 {
					input = append(input, 0) // odd input length selects the *bytes.Buffer source in the worker
				}
			}
		}
	}
	verdict := isolated("c04", c.args, input)
	entry := c.args[0]
	switch {
	case strings.HasPrefix(verdict, "FAIL:"):
		if id := knownC04(verdict); id != "" {
			rec.Excluded(id)
			return
		}
		rt.Fatalf("%s\nentry %v mutation %s input(%d bytes) %x", verdict, c.args, what, len(input), clipBytes(input))
	case strings.HasPrefix(verdict, "SKIP:"):
		rec.Case(false, 0, nil, "skipped:"+clipS(firstLine(verdict)), "entry:"+entry)
	default:
		rec.Case(what != "valid", stats.Hash(input, []byte(strings.Join(c.args[:min(2, len(c.args))], "/"))), func() string {
			return fmt.Sprintf("%v %s -> %s input(%d bytes) %x", c.args, what, verdict, len(input), clipBytes(input))
		}, "entry:"+entry, "outcome:"+verdict, "mutation:"+mutationClass(what))
	}
}

func TestC04(t *testing.T) { rapid.Check(t, c04Property) }

var _ = segment.MaxPayloadLength

// mutationClass: the leading word of a mutation description ("field", "truncate", "bitflip", ...).
func mutationClass(what string) string {
	for i, c := range what {
		if !(c >= 'a' && c <= 'z') {
			return what[:i]
		}
	}
	return what
}
