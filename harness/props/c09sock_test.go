//go:build verif

package props

// C09 at socket level: a library client connection with MaxInFlight = N (and a MaxPending drawn independently) against a
// raw server peer. N managed sends are accepted and travel with distinct stream ids in 1..N (as seen on the wire), one
// more is refused without blocking; after a generated subset has been answered (plain results, errors, last pages of a
// continuous-paging response with and without a paging state) exactly that many new sends are accepted, with ids not
// carried by any unanswered request; after everything is answered N new sends fit again. Worker-isolated.

import (
	"context"
	"encoding/binary"
	"encoding/json"
	"fmt"
	"net"
	"strings"
	"testing"
	"time"

	"github.com/datastax/go-cassandra-native-protocol/client"
	"github.com/datastax/go-cassandra-native-protocol/frame"
	"github.com/datastax/go-cassandra-native-protocol/message"
	"github.com/datastax/go-cassandra-native-protocol/primitive"
	"pgregory.net/rapid"

	"verifharness/ref"
	"verifharness/stats"
)

type c09SockSpec struct {
	Version     int
	Compression string
	N           int
	MaxPending  int
	Rounds      [][]int // per round: picks among the unanswered requests (index modulo their number) to answer
	Finals      []int   // form of the k-th final response (see c09SockFinal)
	QueryBytes  int     // size of each request's query string
	Deferred    bool    // back-pressure: the peer reads nothing until all N requests of the first fill have been accepted
}

func c09SockFinal(v primitive.ProtocolVersion, id int16, tag string, form int) *frame.Frame {
	dse := v == primitive.ProtocolVersionDse1 || v == primitive.ProtocolVersionDse2
	switch form % 4 {
	case 1:
		return frame.NewFrame(v, id, &message.Unavailable{ErrorMessage: tag, Consistency: primitive.ConsistencyLevelOne, Required: 1})
	case 2:
		if dse {
			return taggedPage(v, id, tag, 1, true)
		}
	case 3:
		if dse {
			f := taggedPage(v, id, tag, 1, true)
			f.Body.Message.(*message.RowsResult).Metadata.PagingState = []byte{0xca, 0xfe}
			return f
		}
	}
	return taggedFinal(v, id, tag)
}

func c09SockSession(args []string, _ []byte) string {
	var spec c09SockSpec
	if err := json.Unmarshal([]byte(args[0]), &spec); err != nil {
		return "FAIL: harness: " + err.Error()
	}
	v := primitive.ProtocolVersion(spec.Version)
	const T = 10 * time.Second
	ln, err := net.Listen("tcp", "127.0.0.1:0")
	if err != nil {
		return "FAIL: harness: " + err.Error()
	}
	defer ln.Close()
	// the raw peer executes commands one at a time
	type cmd struct {
		f    func(l *rawLink) string
		done chan string
	}
	cmds := make(chan cmd)
	ready := make(chan string, 1)
	go func() {
		c, err := ln.Accept()
		if err != nil {
			ready <- "harness: accept: " + err.Error()
			return
		}
		defer c.Close()
		l := newRawLink(c)
		l.setDeadline(6 * T)
		if _, err := l.serverHandshake(false); err != nil {
			ready <- "raw server: " + err.Error()
			return
		}
		ready <- ""
		for c := range cmds {
			c.done <- c.f(l)
		}
	}()
	peerDo := func(f func(l *rawLink) string) string {
		d := make(chan string, 1)
		select {
		case cmds <- cmd{f, d}:
		case <-time.After(T):
			return "harness: raw peer not responding"
		}
		select {
		case s := <-d:
			return s
		case <-time.After(12 * T): // the deferred fill moves tens of MiB through the raw peer
			return "harness: raw peer command timed out"
		}
	}
	defer close(cmds)

	cl := client.NewCqlClient(ln.Addr().String(), nil)
	cl.Compression = compressionOf(spec.Compression)
	// the library's own per-request timeout must never decide this session (2500 requests of 16 KiB drained one by one on a
	// saturated machine outlive 30 s); a response that is not delivered is caught by the harness's bound on Receive
	cl.ReadTimeout = 60 * T
	cl.MaxInFlight = spec.N
	cl.MaxPending = spec.MaxPending
	ctx, cancel := context.WithCancel(context.Background())
	defer cancel()
	var cc *client.CqlClientConnection
	if err := within(T, "ConnectAndInit", func() (err error) { cc, err = cl.ConnectAndInit(ctx, v, client.ManagedStreamId); return }); err != nil {
		return "FAIL: handshake with the raw server failed: " + err.Error()
	}
	defer cc.Close()
	if p := <-ready; p != "" {
		return "FAIL: " + p
	}

	type pending struct {
		req client.InFlightRequest
		id  int16
		tag string
	}
	var unanswered []pending
	sent := 0
	deferWire := false
	accept := func(phase string) string {
		sent++
		tag := fmt.Sprintf("q%d", sent)
		query := tag
		if spec.QueryBytes > len(tag) {
			query = tag + strings.Repeat(".", spec.QueryBytes-len(tag))
		}
		f := frame.NewFrame(v, client.ManagedStreamId, &message.Query{Query: query})
		var r client.InFlightRequest
		var serr error
		if err := within(T, "Send", func() error { r, serr = cc.Send(f); return nil }); err != nil {
			return fmt.Sprintf("%s: Send blocked with %d of %d requests unanswered", phase, len(unanswered), spec.N)
		}
		if serr != nil {
			return fmt.Sprintf("%s: Send refused with only %d of %d requests unanswered: %v", phase, len(unanswered), spec.N, serr)
		}
		id := r.StreamId()
		if id < 1 || int(id) > spec.N {
			return fmt.Sprintf("%s: accepted request carries stream id %d, outside 1..%d", phase, id, spec.N)
		}
		for _, p := range unanswered {
			if p.id == id {
				return fmt.Sprintf("%s: stream id %d handed out while request %s still carries it", phase, id, p.tag)
			}
		}
		if deferWire {
			// the peer is not reading yet: the wire is checked once the whole fill has been accepted
			unanswered = append(unanswered, pending{r, id, tag})
			return ""
		}
		// what travels on the wire
		if s := peerDo(func(l *rawLink) string {
			e, err := l.readEnvelope()
			if err != nil {
				return "raw server: reading request " + tag + ": " + err.Error()
			}
			if e.OpCode != 0x07 || len(e.Body) < 4 {
				return fmt.Sprintf("raw server: unexpected envelope opcode %#x", e.OpCode)
			}
			n := int(binary.BigEndian.Uint32(e.Body[:4]))
			if 4+n > len(e.Body) || strings.TrimRight(string(e.Body[4:4+n]), ".") != tag {
				return fmt.Sprintf("raw server: expected request %s, got %q", tag, e.Body[4:min(len(e.Body), 4+n)])
			}
			if e.Stream != id {
				return fmt.Sprintf("request %s was accepted with stream id %d but travels with stream id %d", tag, id, e.Stream)
			}
			return ""
		}); s != "" {
			return phase + ": " + s
		}
		unanswered = append(unanswered, pending{r, id, tag})
		return ""
	}
	refuse := func(phase string) string {
		f := frame.NewFrame(v, client.ManagedStreamId, &message.Query{Query: "overflow"})
		var r client.InFlightRequest
		var serr error
		if err := within(T, "Send", func() error { r, serr = cc.Send(f); return nil }); err != nil {
			return fmt.Sprintf("%s: Send blocked instead of being refused with %d of %d requests unanswered", phase, len(unanswered), spec.N)
		}
		if serr == nil {
			return fmt.Sprintf("%s: send accepted (stream id %d) although %d of %d requests are unanswered", phase, r.StreamId(), len(unanswered), spec.N)
		}
		return ""
	}
	answered := 0
	answer := func(phase string, k int) string {
		p := unanswered[k]
		form := 0
		if len(spec.Finals) > 0 {
			form = spec.Finals[answered%len(spec.Finals)]
		}
		answered++
		resp := c09SockFinal(v, p.id, "a-"+p.tag, form)
		enc, err := ref.EncodeFrame(resp)
		if err != nil {
			return "harness: " + err.Error()
		}
		if s := peerDo(func(l *rawLink) string {
			if err := l.writeEnvelopes([][]byte{enc.Flat(nil)}, spec.Compression != "", nil, true); err != nil {
				return "raw server: write: " + err.Error()
			}
			return ""
		}); s != "" {
			return phase + ": " + s
		}
		var f *frame.Frame
		var rerr error
		if err := within(T, "Receive", func() error { f, rerr = cc.Receive(p.req); return nil }); err != nil {
			return fmt.Sprintf("%s: the answer to %s (stream id %d, form %d) was not delivered", phase, p.tag, p.id, form%4)
		}
		if rerr != nil || f == nil {
			return fmt.Sprintf("%s: the answer to %s (stream id %d, form %d): Receive = %v, %v", phase, p.tag, p.id, form%4, f, rerr)
		}
		if f.Header.StreamId != p.id {
			return fmt.Sprintf("%s: request %s (stream id %d) was handed a frame with stream id %d", phase, p.tag, p.id, f.Header.StreamId)
		}
		unanswered = append(unanswered[:k], unanswered[k+1:]...)
		return ""
	}
	deferWire = spec.Deferred
	for i := 0; i < spec.N; i++ {
		if s := accept("fill"); s != "" {
			if spec.Deferred {
				s += " (the peer has not started reading: accepted frames wait in the connection's queue, whose capacity must cover the limit)"
			}
			return "FAIL: " + s
		}
	}
	if s := refuse("full"); s != "" {
		return "FAIL: " + s
	}
	if spec.Deferred {
		deferWire = false
		// now the peer reads everything that was accepted: one envelope per request, each with the id it was given
		want := map[string]int16{}
		for _, p := range unanswered {
			want[p.tag] = p.id
		}
		if s := peerDo(func(l *rawLink) string {
			for k := 0; k < spec.N; k++ {
				e, err := l.readEnvelope()
				if err != nil {
					return fmt.Sprintf("raw server: reading request %d of %d: %v", k+1, spec.N, err)
				}
				if e.OpCode != 0x07 || len(e.Body) < 4 {
					return fmt.Sprintf("raw server: unexpected envelope opcode %#x", e.OpCode)
				}
				n := int(binary.BigEndian.Uint32(e.Body[:4]))
				if 4+n > len(e.Body) {
					return "raw server: malformed QUERY"
				}
				tag := strings.TrimRight(string(e.Body[4:4+n]), ".")
				id, ok := want[tag]
				if !ok {
					return fmt.Sprintf("raw server: request %q arrived twice or was never accepted", tag)
				}
				if e.Stream != id {
					return fmt.Sprintf("request %s was accepted with stream id %d but travels with stream id %d", tag, id, e.Stream)
				}
				delete(want, tag)
			}
			return ""
		}); s != "" {
			return "FAIL: deferred fill: " + s
		}
	}
	for ri, round := range spec.Rounds {
		phase := fmt.Sprintf("round %d", ri+1)
		n := 0
		for _, pick := range round {
			if len(unanswered) == 0 {
				break
			}
			if s := answer(phase, pick%len(unanswered)); s != "" {
				return "FAIL: " + s
			}
			n++
		}
		for i := 0; i < n; i++ {
			if s := accept(phase + " refill"); s != "" {
				return "FAIL: " + s
			}
		}
		if s := refuse(phase + " full again"); s != "" {
			return "FAIL: " + s
		}
	}
	for len(unanswered) > 0 {
		if s := answer("drain", len(unanswered)-1); s != "" {
			return "FAIL: " + s
		}
	}
	for i := 0; i < spec.N; i++ {
		if s := accept("after everything was answered"); s != "" {
			return "FAIL: " + s + " (a stream id was lost)"
		}
	}
	if s := refuse("full at the end"); s != "" {
		return "FAIL: " + s
	}
	return "OK"
}

func init() { workerHandlers["c09sock"] = c09SockSession }

func c09Socket(rt *rapid.T) {
	if !everyNth("c09Socket", 1, 6) {
		return
	}
	defer noteFailure()
	rec := stats.For("C09")
	v := rapid.SampledFrom(allVersions).Draw(rt, "version")
	comps := []string{"", "LZ4", "SNAPPY"}
	if v == primitive.ProtocolVersion5 {
		comps = []string{"", "LZ4"}
	}
	spec := c09SockSpec{Version: int(v), Compression: rapid.SampledFrom(comps).Draw(rt, "compression"),
		N: rapid.IntRange(1, 12).Draw(rt, "maxInFlight"), MaxPending: rapid.IntRange(1, 12).Draw(rt, "maxPending")}
	for r := rapid.IntRange(0, 3).Draw(rt, "rounds"); r > 0; r-- {
		spec.Rounds = append(spec.Rounds, rapid.SliceOfN(rapid.IntRange(0, 11), 1, spec.N).Draw(rt, "picks"))
	}
	spec.Finals = rapid.SliceOfN(rapid.IntRange(0, 3), 1, 6).Draw(rt, "finalForms")
	if v != primitive.ProtocolVersion2 && rapid.IntRange(0, 11).Draw(rt, "backPressure") == 0 {
		// a limit beyond the default 1024, requests large enough that the socket buffers cannot hold them all, and a peer
		// that starts reading late: everything the limit allows must still be accepted
		spec.N = rapid.SampledFrom([]int{1025, 1500, 2500}).Draw(rt, "bigN")
		spec.QueryBytes = rapid.SampledFrom([]int{4096, 16384}).Draw(rt, "queryBytes")
		spec.Deferred = true
		spec.Rounds = nil
	}
	sj, _ := json.Marshal(spec)
	verdict := isolated("c09sock", []string{string(sj)}, nil)
	verdict = harnessTrouble(verdict)
	if strings.HasPrefix(verdict, "FAIL:") {
		rt.Fatalf("%s\nspec %s", verdict, sj)
	}
	if strings.HasPrefix(verdict, "SKIP:") {
		rec.Case(false, 0, nil, "skipped")
		return
	}
	rel := "N=P"
	if spec.N < spec.MaxPending {
		rel = "N<P"
	} else if spec.N > spec.MaxPending {
		rel = "N>P"
	}
	rec.Case(true, stats.HashString("sock/"+string(sj)), func() string { return "socket: " + string(sj) }, "socket", "socket:"+rel, fmt.Sprintf("socket-version:%d", v), fmt.Sprintf("socket-back-pressure:%v", spec.Deferred))
}

func TestC09Socket(t *testing.T) { rapid.Check(t, c09Socket) }
