package props

// C03: declared lengths equal emitted bytes; back-to-back frames decode in sequence.
// Oracles: (a) header body length == bytes after the header, in the frame object and on the wire; (b) message
// EncodedLength == len(Encode); (c) a concatenation of 1..8 frames decodes to the same sequence, each DecodeFrame
// consuming exactly header + declared length (counting reader), nothing left at the end; (d) every primitive
// LengthOfX(v) == number of bytes WriteX(v) writes.

import (
	"bufio"
	"bytes"
	"encoding/binary"
	"fmt"
	"io"
	"strings"
	"testing"

	"github.com/datastax/go-cassandra-native-protocol/datatype"
	"github.com/datastax/go-cassandra-native-protocol/frame"
	"github.com/datastax/go-cassandra-native-protocol/message"
	"github.com/datastax/go-cassandra-native-protocol/primitive"
	"pgregory.net/rapid"

	"verifharness/canon"
	"verifharness/gen"
	"verifharness/stats"
)

type countingReader struct {
	r io.Reader
	n int
}

func (c *countingReader) Read(p []byte) (int, error) {
	n, err := c.r.Read(p)
	c.n += n
	return n, err
}

func hdrLen(v primitive.ProtocolVersion) int {
	if v == primitive.ProtocolVersion2 {
		return 8
	}
	return 9
}

func c03Frames(rt *rapid.T) {
	rec := stats.For("C03")
	n := rapid.IntRange(1, 8).Draw(rt, "nframes")
	if rapid.IntRange(0, 2).Draw(rt, "single") == 0 {
		n = 1
	}
	// one connection: one version, one compression setting
	v := gen.Version(rt)
	comp := drawComp(rt, v)
	codec, spy := newSpyCodec(comp)
	var stream bytes.Buffer
	var frames []*frame.Frame
	var lens []int
	prefixParts, edited, refused := 0, 0, 0
	// half of the streams are written the way a connection writes them: every frame encoded straight into ONE *bytes.Buffer
	// that already holds the frames before it (which must stay as they are)
	shared := rapid.Bool().Draw(rt, "sharedDestination")
	var direct bytes.Buffer
	noSentinel := rapid.IntRange(0, 2).Draw(rt, "noSentinel") == 0
	for i := 0; i < n; i++ {
		fc := gen.Frame(rt, v, comp != compNone, genOpts())
		prefixParts += fc.Optional
		encodeAndCheck := func(phase string) ([]byte, bool) {
			if spy != nil {
				spy.in, spy.out = nil, nil
			}
			var enc []byte
			var err error
			if shared {
				start := direct.Len()
				err = codec.EncodeFrame(fc.Frame, &direct)
				if err == nil {
					if !bytes.Equal(direct.Bytes()[:start], stream.Bytes()) {
						rt.Fatalf("EncodeFrame (%s) into a *bytes.Buffer that already held %d bytes of earlier frames changed those bytes", phase, start)
					}
					enc = append([]byte{}, direct.Bytes()[start:]...)
				}
				direct.Truncate(start)
			} else {
				enc, err = encodeFrame(codec, fc.Frame)
			}
			if err != nil {
				rt.Fatalf("EncodeFrame (%s) failed on a version-valid frame: %v\n%s", phase, err, renderFrame(fc, comp))
			}
			if fc.Frame.Header.Flags.Contains(primitive.HeaderFlagCompressed) && knownLz4("C03", spy) {
				return nil, false // body cannot be decoded at all (open dependency finding); lengths are not judged on it
			}
			h := hdrLen(v)
			if len(enc) < h {
				rt.Fatalf("encoded frame shorter than a header: %d bytes", len(enc))
			}
			wire := int(int32(binary.BigEndian.Uint32(enc[h-4 : h])))
			if wire != len(enc)-h {
				rt.Fatalf("header on the wire (%s) declares body length %d but %d body bytes were emitted\n%s", phase, wire, len(enc)-h, renderFrame(fc, comp))
			}
			if int(fc.Frame.Header.BodyLength) != len(enc)-h {
				rt.Fatalf("Header.BodyLength=%d after EncodeFrame (%s) but %d body bytes were emitted\n%s", fc.Frame.Header.BodyLength, phase, len(enc)-h, renderFrame(fc, comp))
			}
			// message-level length
			mc := messageCodecFor(fc.Frame.Header.OpCode)
			var mb bytes.Buffer
			if err := mc.Encode(fc.Frame.Body.Message, &mb, v); err != nil {
				rt.Fatalf("message Encode: %v", err)
			}
			el, err := mc.EncodedLength(fc.Frame.Body.Message, v)
			if err != nil {
				rt.Fatalf("EncodedLength failed on a version-valid message: %v", err)
			}
			if el != mb.Len() {
				rt.Fatalf("EncodedLength=%d but Encode wrote %d bytes\n%s", el, mb.Len(), renderFrame(fc, comp))
			}
			// raw conversion
			raw, err := codec.ConvertToRawFrame(fc.Frame.DeepCopy())
			if err != nil {
				rt.Fatalf("ConvertToRawFrame: %v", err)
			}
			if int(raw.Header.BodyLength) != len(raw.Body) {
				rt.Fatalf("ConvertToRawFrame (%s): Header.BodyLength=%d, len(Body)=%d", phase, raw.Header.BodyLength, len(raw.Body))
			}
			return enc, true
		}
		// now and then the codec is first asked to encode a frame it must refuse half-way through its body (an undeclared
		// consistency level after the query string): whatever it had written so far must not leak into the frames that follow
		if rapid.IntRange(0, 3).Draw(rt, fmt.Sprintf("refusedFirst%d", i)) == 0 {
			// (an undeclared consistency level: its length can be computed, writing it is refused after the query string)
			bad := frame.NewFrame(v, 1, &message.Query{Query: "refused " + strings.Repeat("!", 64), Options: &message.QueryOptions{
				Consistency: primitive.ConsistencyLevel(0x7777), PositionalValues: []*primitive.Value{primitive.NewValue([]byte("never written"))}}})
			if comp != compNone {
				bad.SetCompress(true)
			}
			if _, err := encodeFrame(codec, bad); err == nil {
				rt.Fatalf("harness defect: a QUERY with an undeclared consistency level was encoded")
			}
			refused++
		}
		// ... or a frame that is refused only when its header is written (protocol v2 with a stream id beyond one byte), or
		// whose destination fails after a few bytes - after the body has been staged and, with compression, compressed
		switch rapid.IntRange(0, 7).Draw(rt, fmt.Sprintf("failedFirst%d", i)) {
		case 0:
			if v == primitive.ProtocolVersion2 {
				bad := frame.NewFrame(v, 300, &message.Query{Query: "stream id out of range " + strings.Repeat("?", 48), Options: &message.QueryOptions{}})
				if comp != compNone {
					bad.SetCompress(true)
				}
				if _, err := encodeFrame(codec, bad); err == nil {
					rt.Fatalf("harness defect: a v2 frame with stream id 300 was encoded")
				}
				refused++
			}
		case 1:
			good := frame.NewFrame(v, 1, &message.Query{Query: "destination fails " + strings.Repeat("#", 80), Options: &message.QueryOptions{}})
			if comp != compNone {
				good.SetCompress(true)
			}
			fw := &failingWriter{left: rapid.SampledFrom([]int{0, 1, 3, 8, 9, 12, 40}).Draw(rt, fmt.Sprintf("failAfter%d", i))}
			if err := codec.EncodeFrame(good, fw); err == nil {
				rt.Fatalf("EncodeFrame reported success although its destination failed after %d bytes", fw.written)
			}
			refused++
		}
		enc, ok := encodeAndCheck("first encoding")
		if !ok {
			return
		}
		// the same Frame object, edited and encoded again (its header still holds the length of the first encoding: "when
		// encoding a frame, this field is not read but is rather dynamically computed from the actual body length")
		if rapid.IntRange(0, 2).Draw(rt, fmt.Sprintf("edit%d", i)) == 0 {
			f := fc.Frame
			var ignoredNamed *message.QueryOptions
			var edits []string
			if f.Header.IsResponse {
				edits = append(edits, "tracingId")
				if gen.AtLeast(v, 4) {
					edits = append(edits, "warnings")
				}
			}
			if gen.AtLeast(v, 4) {
				edits = append(edits, "payload")
			}
			edits = append(edits, "message")
			// documented: "It is illegal to use both positional and named values at the same time. If this happens,
			// positional values will be used and named values will be silently ignored." - lengths must follow suit
			var opts *message.QueryOptions
			switch m := f.Body.Message.(type) {
			case *message.Query:
				opts = m.Options
			case *message.Execute:
				opts = m.Options
			}
			if opts != nil && len(opts.PositionalValues) > 0 && gen.AtLeast(v, 3) {
				edits = append(edits, "bothValues", "bothValues")
			}
			switch rapid.SampledFrom(edits).Draw(rt, fmt.Sprintf("edit%d/what", i)) {
			case "bothValues":
				opts.NamedValues = map[string]*primitive.Value{"ignored": primitive.NewValue(gen.Blob(rt, "ignoredNamedValue", 200)), "n2": primitive.NewNullValue()}
				ignoredNamed = opts
			case "tracingId":
				if f.Body.TracingId == nil {
					f.SetTracingId(gen.UUID(rt, "editTracingId"))
				} else {
					f.SetTracingId(nil)
				}
			case "warnings":
				if len(f.Body.Warnings) == 0 {
					f.SetWarnings([]string{"w1", gen.Str(rt, "editWarning")})
				} else {
					f.SetWarnings(nil)
				}
			case "payload":
				if len(f.Body.CustomPayload) == 0 {
					f.SetCustomPayload(map[string][]byte{"k": gen.Blob(rt, "editPayload", 300)})
				} else {
					f.SetCustomPayload(nil)
				}
			default:
				for _, k := range gen.KindsFor(v) {
					if k.Name == fc.Kind {
						f.Body.Message = k.Draw(rt, v, genOpts())
					}
				}
			}
			if enc, ok = encodeAndCheck("second encoding after an edit"); !ok {
				return
			}
			if ignoredNamed != nil {
				ignoredNamed.NamedValues = nil // what the decoder is expected to deliver: the positional values only
			}
			edited++
		}
		stream.Write(enc)
		direct.Write(enc)
		frames = append(frames, fc.Frame)
		lens = append(lens, len(enc))
	}
	// sentinel bytes after the last frame must stay unread; one stream in three ends with its last frame (a decoder may
	// treat "exactly one body left in the buffer" specially)
	sentinel := []byte{0xde, 0xad}
	if noSentinel {
		sentinel = []byte{}
	}
	stream.Write(sentinel)
	// the stream is presented through the reader types callers use - the decoders treat some of them specially
	all := append([]byte{}, stream.Bytes()...)
	srcKind := rapid.SampledFrom([]string{"counting", "shortReads", "bytes.Buffer", "bytes.Reader", "bufio.Reader"}).Draw(rt, "source")
	var src io.Reader
	var consumed func() int
	switch srcKind {
	case "bytes.Buffer":
		b := bytes.NewBuffer(all)
		src, consumed = b, func() int { return len(all) - b.Len() }
	case "bytes.Reader":
		b := bytes.NewReader(all)
		src, consumed = b, func() int { return len(all) - b.Len() }
	case "bufio.Reader":
		c := &countingReader{r: bytes.NewReader(all)}
		b := bufio.NewReaderSize(c, rapid.SampledFrom([]int{16, 512, 4096, 1 << 16}).Draw(rt, "bufioSize"))
		src, consumed = b, func() int { return c.n - b.Buffered() }
	case "shortReads":
		c := &countingReader{r: &chunkReader{r: bytes.NewReader(all), chunks: drawChunks(rt)}}
		src, consumed = c, func() int { return c.n }
	default:
		c := &countingReader{r: bytes.NewReader(all)}
		src, consumed = c, func() int { return c.n }
	}
	var decoded []*frame.Frame
	for i, f := range frames {
		before := consumed()
		dec, err := codec.DecodeFrame(src)
		if err != nil {
			rt.Fatalf("frame %d of %d in the stream (read through a %s) failed to decode: %v", i, n, srcKind, err)
		}
		if consumed()-before != lens[i] {
			rt.Fatalf("DecodeFrame consumed %d bytes of the %s for frame %d, whose header+declared body is %d bytes (opcode %v, v%d, comp %s)", consumed()-before, srcKind, i, lens[i], f.Header.OpCode, v, comp)
		}
		decoded = append(decoded, dec)
	}
	cr := src
	for i, f := range frames { // compared only now: frames handed out earlier must survive later decodes
		if d := diffFrames(f, decoded[i]); d != "" {
			rt.Fatalf("frame %d of the stream decoded differently: %s", i, d)
		}
	}
	rest, _ := io.ReadAll(cr)
	if !bytes.Equal(rest, sentinel) {
		rt.Fatalf("after %d frames the stream has %d bytes left instead of the %d sentinel bytes", n, len(rest), len(sentinel))
	}
	h := stats.Hash(stream.Bytes())
	rec.Case(prefixParts > 0 || n >= 2, h, func() string {
		return fmt.Sprintf("stream of %d frames v=%d comp=%s sizes=%v first=%s", n, v, comp, lens, canon.Render(frames[0]))
	}, fmt.Sprintf("nframes:%d", n), fmt.Sprintf("version:%d", v), "comp:"+comp.String(), "source:"+srcKind, fmt.Sprintf("re-encoded-after-edit:%v", edited > 0), fmt.Sprintf("refused-encodes-in-between:%v", refused > 0))
}

// failingWriter accepts left bytes and then fails.
type failingWriter struct{ left, written int }

func (w *failingWriter) Write(p []byte) (int, error) {
	if len(p) <= w.left {
		w.left -= len(p)
		w.written += len(p)
		return len(p), nil
	}
	n := w.left
	w.left = 0
	w.written += n
	return n, io.ErrClosedPipe
}

func TestC03Frames(t *testing.T) { rapid.Check(t, c03Frames) }

// ---- primitives

type lenCase struct {
	name  string
	claim int
	wrote int
	err   error
}

func measure(name string, claim int, claimErr error, write func(w io.Writer) error) lenCase {
	var b bytes.Buffer
	err := write(&b)
	if claimErr != nil && err == nil {
		err = fmt.Errorf("LengthOf failed (%v) but Write succeeded", claimErr)
	}
	return lenCase{name, claim, b.Len(), err}
}

func c03Primitives(rt *rapid.T) {
	rec := stats.For("C03")
	v := gen.Version(rt)
	var cs []lenCase
	s := gen.Str(rt, "string")
	cs = append(cs, measure("string", primitive.LengthOfString(s), nil, func(w io.Writer) error { return primitive.WriteString(s, w) }))
	ls := gen.LongStr(rt, "longstring", 200000)
	cs = append(cs, measure("long string", primitive.LengthOfLongString(ls), nil, func(w io.Writer) error { return primitive.WriteLongString(ls, w) }))
	bs := gen.NullableBlob(rt, "bytes", 100000)
	cs = append(cs, measure("bytes", primitive.LengthOfBytes(bs), nil, func(w io.Writer) error { return primitive.WriteBytes(bs, w) }))
	sb := gen.Blob(rt, "shortbytes", 65535)
	cs = append(cs, measure("short bytes", primitive.LengthOfShortBytes(sb), nil, func(w io.Writer) error { return primitive.WriteShortBytes(sb, w) }))
	sl := gen.StrList(rt, "stringlist", 6)
	cs = append(cs, measure("string list", primitive.LengthOfStringList(sl), nil, func(w io.Writer) error { return primitive.WriteStringList(sl, w) }))
	sm := map[string]string{}
	smm := map[string][]string{}
	bm := map[string][]byte{}
	nv := map[string]*primitive.Value{}
	for i, n := 0, rapid.IntRange(0, 4).Draw(rt, "mapsize"); i < n; i++ {
		k := gen.Str(rt, fmt.Sprintf("k%d", i))
		sm[k] = gen.Str(rt, fmt.Sprintf("sv%d", i))
		smm[k] = gen.StrList(rt, fmt.Sprintf("lv%d", i), 4)
		bm[k] = gen.NullableBlob(rt, fmt.Sprintf("bv%d", i), 3000)
		nv[k] = gen.Value(rt, v, fmt.Sprintf("nv%d", i))
	}
	cs = append(cs, measure("string map", primitive.LengthOfStringMap(sm), nil, func(w io.Writer) error { return primitive.WriteStringMap(sm, w) }))
	cs = append(cs, measure("string multimap", primitive.LengthOfStringMultiMap(smm), nil, func(w io.Writer) error { return primitive.WriteStringMultiMap(smm, w) }))
	cs = append(cs, measure("bytes map", primitive.LengthOfBytesMap(bm), nil, func(w io.Writer) error { return primitive.WriteBytesMap(bm, w) }))
	val := gen.Value(rt, v, "value")
	vl, verr := primitive.LengthOfValue(val)
	cs = append(cs, measure("value", vl, verr, func(w io.Writer) error { return primitive.WriteValue(val, w, v) }))
	pv := gen.PositionalValues(rt, v, "positional", true)
	pl, perr := primitive.LengthOfPositionalValues(pv)
	cs = append(cs, measure("positional values", pl, perr, func(w io.Writer) error { return primitive.WritePositionalValues(pv, w, v) }))
	nl, nerr := primitive.LengthOfNamedValues(nv)
	cs = append(cs, measure("named values", nl, nerr, func(w io.Writer) error { return primitive.WriteNamedValues(nv, w, v) }))
	inet := gen.Inet(rt, "inet")
	il, ierr := primitive.LengthOfInet(inet)
	cs = append(cs, measure("inet", il, ierr, func(w io.Writer) error { return primitive.WriteInet(inet, w) }))
	al, aerr := primitive.LengthOfInetAddr(inet.Addr)
	cs = append(cs, measure("inetaddr", al, aerr, func(w io.Writer) error { return primitive.WriteInetAddr(inet.Addr, w) }))
	var rm []*primitive.FailureReason
	for i, n := 0, rapid.IntRange(0, 4).Draw(rt, "reasons"); i < n; i++ {
		rm = append(rm, &primitive.FailureReason{Endpoint: gen.IP(rt, fmt.Sprintf("rip%d", i)), Code: primitive.FailureCode(rapid.IntRange(0, 6).Draw(rt, fmt.Sprintf("rc%d", i)))})
	}
	rl, rerr := primitive.LengthOfReasonMap(rm)
	cs = append(cs, measure("reason map", rl, rerr, func(w io.Writer) error { return primitive.WriteReasonMap(rm, w) }))
	uv := rapid.Uint64().Draw(rt, "uvint")
	if rapid.Bool().Draw(rt, "uvint/boundary") {
		k := rapid.IntRange(0, 64).Draw(rt, "uvint/bit")
		uv = uint64(1)<<uint(k%64) + uint64(rapid.IntRange(-1, 1).Draw(rt, "uvint/delta"))
	}
	cs = append(cs, measure("unsigned vint", primitive.LengthOfUnsignedVint(uv), nil, func(w io.Writer) error {
		n, err := primitive.WriteUnsignedVint(uv, w)
		if err == nil && n != primitive.LengthOfUnsignedVint(uv) {
			return fmt.Errorf("WriteUnsignedVint reports %d written", n)
		}
		return err
	}))
	sv := int64(uv)
	cs = append(cs, measure("vint", primitive.LengthOfVint(sv), nil, func(w io.Writer) error { _, err := primitive.WriteVint(sv, w); return err }))
	dt := gen.DataType(rt, v, genOpts().TypeDepth, "datatype")
	dl, derr := datatype.LengthOfDataType(dt, v)
	cs = append(cs, measure("data type", dl, derr, func(w io.Writer) error { return datatype.WriteDataType(dt, w, v) }))
	qo := gen.QueryOptions(rt, v, "queryoptions")
	ql, qerr := message.LengthOfQueryOptions(qo, v)
	cs = append(cs, measure("query options", ql, qerr, func(w io.Writer) error { return message.EncodeQueryOptions(qo, w, v) }))
	if gen.IsDse(v) {
		cp := &message.ContinuousPagingOptions{MaxPages: gen.Int32(rt, "cp/max"), PagesPerSecond: gen.Int32(rt, "cp/pps"), NextPages: gen.Int32(rt, "cp/next")}
		cl, cerr := message.LengthOfContinuousPagingOptions(cp, v)
		cs = append(cs, measure("continuous paging options", cl, cerr, func(w io.Writer) error { return message.EncodeContinuousPagingOptions(cp, w, v) }))
	}
	for _, c := range cs {
		if c.err != nil {
			rt.Fatalf("%s: write failed on a valid value: %v", c.name, c.err)
		}
		if c.claim != c.wrote {
			rt.Fatalf("%s: LengthOf reports %d but Write emitted %d bytes (v=%d)", c.name, c.claim, c.wrote, v)
		}
		rec.Case(c.wrote > 2, stats.HashString(fmt.Sprintf("%s/%d/%d/%x", c.name, c.wrote, v, uv)), func() string {
			return fmt.Sprintf("%s v=%d: LengthOf=%d written=%d", c.name, v, c.claim, c.wrote)
		}, "prim:"+c.name)
	}
}

func TestC03Primitives(t *testing.T) { rapid.Check(t, c03Primitives) }

// every bit length 0..64, values 2^k-1, 2^k, 2^k+1, both signs: length claim, bytes written, and decode back.
func TestC03Vints(t *testing.T) {
	rec := stats.For("C03")
	if k, _ := shard(); k != 0 {
		return
	}
	n := int64(0)
	for k := 0; k <= 64; k++ {
		for d := -1; d <= 1; d++ {
			var u uint64
			if k == 64 {
				u = ^uint64(0) + uint64(d) + 1 - 1 // 2^64-1 +/- wraps: covers max and neighbours
				u = ^uint64(0) - uint64(1-d)
			} else {
				u = uint64(1)<<uint(k) + uint64(d)
			}
			var b bytes.Buffer
			w, err := primitive.WriteUnsignedVint(u, &b)
			if err != nil || w != b.Len() || primitive.LengthOfUnsignedVint(u) != b.Len() {
				rec.Violation("vint-length", fmt.Sprintf("unsigned vint %#x: LengthOf=%d, Write returned %d, %d bytes emitted, err=%v", u, primitive.LengthOfUnsignedVint(u), w, b.Len(), err))
				t.Errorf("unsigned vint %#x length mismatch", u)
			}
			back, rd, err := primitive.ReadUnsignedVint(bytes.NewReader(append(b.Bytes(), 0xAA)))
			if err != nil || back != u || rd != b.Len() {
				rec.Violation("vint-roundtrip", fmt.Sprintf("unsigned vint %#x: read back %#x consuming %d of %d bytes, err=%v", u, back, rd, b.Len(), err))
				t.Errorf("unsigned vint %#x round trip", u)
			}
			for _, s := range []int64{int64(u), -int64(u)} {
				var sb bytes.Buffer
				_, err := primitive.WriteVint(s, &sb)
				if err != nil || primitive.LengthOfVint(s) != sb.Len() {
					rec.Violation("vint-length", fmt.Sprintf("vint %d: LengthOf=%d, %d bytes emitted, err=%v", s, primitive.LengthOfVint(s), sb.Len(), err))
					t.Errorf("vint %d length mismatch", s)
				}
				back, rd, err := primitive.ReadVint(bytes.NewReader(append(sb.Bytes(), 0xAA)))
				if err != nil || back != s || rd != sb.Len() {
					rec.Violation("vint-roundtrip", fmt.Sprintf("vint %d: read back %d consuming %d of %d bytes, err=%v", s, back, rd, sb.Len(), err))
					t.Errorf("vint %d round trip", s)
				}
				n++
			}
			n++
		}
	}
	rec.Bulk(n, n, "vint-boundaries")
	rec.AddSample(fmt.Sprintf("vint boundary table: %d fixed points (2^k-1, 2^k, 2^k+1 for k=0..64, both signs)", n))
}
