package props

// C16, final response racing with the end of the connection (shim level, schedule owned through the hook points of the
// in-flight handler): the incoming loop has looked a final response's request up (or already unregistered it) when the
// connection is closed - its context cancelled and its in-flight handler closed, which is what Close does. Whatever the
// order, every request accepted earlier must end up completed: channel closed, IsDone, and either its final response was
// handed over or Err is non-nil. Nothing may panic and Deliver must return.

import (
	"context"
	"encoding/json"
	"fmt"
	"os"
	"runtime"
	"strings"
	"sync"
	"sync/atomic"
	"testing"
	"time"

	"github.com/datastax/go-cassandra-native-protocol/client"
	"github.com/datastax/go-cassandra-native-protocol/frame"
	"github.com/datastax/go-cassandra-native-protocol/message"
	"github.com/datastax/go-cassandra-native-protocol/primitive"
	"pgregory.net/rapid"

	"verifharness/stats"
)

type c16FinalSpec struct {
	Version  int
	N        int    // requests outstanding
	Target   int    // which one gets its final response during the close
	Explicit bool   // caller-chosen stream ids
	Park     string // hook point at which the delivering goroutine waits for the close
	Close    string // "cancel+close" (what Close does) | "cancel" (context only, handler closed after Deliver returned) | "close" (handler only)
	Paged    bool   // the final response is the last page of a continuous-paging answer, one earlier page already delivered
}

func c16FinalSession(args []string, _ []byte) string {
	var spec c16FinalSpec
	if err := json.Unmarshal([]byte(args[0]), &spec); err != nil {
		return "FAIL: harness: " + err.Error()
	}
	v := primitive.ProtocolVersion(spec.Version)
	ctx, cancel := context.WithCancel(context.Background())
	defer cancel()
	h := client.NewVerifInFlight(ctx, 8, 4, 30*time.Second)
	var reqs []client.InFlightRequest
	for i := 0; i < spec.N; i++ {
		id := int16(client.ManagedStreamId)
		if spec.Explicit {
			id = int16(100 + i)
		}
		r, err := h.Enqueue(frame.NewFrame(v, id, &message.Query{Query: fmt.Sprintf("q%d", i)}))
		if err != nil {
			return "FAIL: harness: enqueue: " + err.Error()
		}
		reqs = append(reqs, r)
	}
	target := reqs[spec.Target%len(reqs)]
	got := map[int]int{} // frames read per request
	if spec.Paged {
		if err := h.Deliver(taggedPage(v, target.StreamId(), "p1", 1, false)); err != nil {
			return "FAIL: first page refused: " + err.Error()
		}
	}
	var final *frame.Frame
	if spec.Paged {
		final = taggedPage(v, target.StreamId(), "p2", 2, true)
	} else {
		final = taggedFinal(v, target.StreamId(), "final")
	}
	parked, closed := make(chan struct{}), make(chan struct{})
	var once sync.Once
	client.SetVerifPoint(func(name string) {
		if name != spec.Park {
			return
		}
		fired := false
		once.Do(func() { fired = true })
		if !fired {
			return
		}
		close(parked)
		select { // bounded: a timeout only releases, it never decides a verdict
		case <-closed:
		case <-time.After(2 * time.Second):
		}
	})
	defer client.SetVerifPoint(nil)
	delivered := make(chan string, 1)
	go func() {
		msg := recovered(func() { _ = h.Deliver(final) })
		delivered <- msg
	}()
	didPark := false
	select {
	case <-parked:
		didPark = true
	case msg := <-delivered: // the hook point does not exist in this tree (or was not on the path): plain order
		delivered <- msg
	case <-time.After(5 * time.Second):
		return "FAIL: Deliver neither reached the hook point nor returned within 5 s"
	}
	// the connection goes away
	if msg := recovered(func() {
		switch spec.Close {
		case "cancel":
			cancel()
		case "close":
			h.Close()
		default:
			cancel()
			h.Close()
		}
	}); msg != "" {
		return "FAIL: closing panicked: " + msg
	}
	close(closed)
	select {
	case msg := <-delivered:
		if msg != "" {
			return fmt.Sprintf("FAIL: delivering a final response while the connection closes (%s, parked at %s: %v) panicked: %s", spec.Close, spec.Park, didPark, msg)
		}
	case <-time.After(10 * time.Second):
		return fmt.Sprintf("FAIL: Deliver did not return within 10 s of the close (%s, parked at %s)", spec.Close, spec.Park)
	}
	if msg := recovered(func() { cancel(); h.Close() }); msg != "" { // the rest of Close, idempotent
		return "FAIL: closing panicked: " + msg
	}
	// every request must now be complete
	for i, r := range reqs {
		deadline := time.After(5 * time.Second)
	drain:
		for {
			select {
			case f, ok := <-r.Incoming():
				if !ok {
					break drain
				}
				if f.Header.StreamId != r.StreamId() {
					return fmt.Sprintf("FAIL: request %d (stream id %d) was handed a frame with stream id %d", i, r.StreamId(), f.Header.StreamId)
				}
				got[i]++
			case <-deadline:
				return fmt.Sprintf("FAIL: request %d (stream id %d, target of the final response: %v) was never completed after the connection was closed while its final response was being delivered (%s, parked at %s: %v): channel still open after 5 s, IsDone=%v Err=%v",
					i, r.StreamId(), r == target, spec.Close, spec.Park, didPark, r.IsDone(), r.Err())
			}
		}
		if !r.IsDone() {
			return fmt.Sprintf("FAIL: request %d: channel closed but IsDone=false", i)
		}
		want := 0
		if r == target {
			want = 1
			if spec.Paged {
				want = 2
			}
		}
		if r.Err() == nil && got[i] != want {
			return fmt.Sprintf("FAIL: request %d (target: %v) completed without error after %d of %d response frames (%s, parked at %s: %v)", i, r == target, got[i], want, spec.Close, spec.Park, didPark)
		}
		if r == target && spec.Paged && got[i] < 1 {
			return fmt.Sprintf("FAIL: the first page of request %d had been handed over (Deliver returned nil) before the connection closed, but reading the request afterwards yields %d frames (Err=%v): a received page was discarded", i, got[i], r.Err())
		}
		if r != target && r.Err() == nil {
			return fmt.Sprintf("FAIL: request %d never got a response and was completed without an error when the connection closed", i)
		}
	}
	if didPark {
		return "OK parked"
	}
	return "OK plain"
}

func init() { workerHandlers["c16final"] = c16FinalSession }

func c16FinalVsClose(rt *rapid.T) {
	defer noteFailure()
	rec := stats.For("C16")
	spec := c16FinalSpec{Version: int(rapid.SampledFrom(allVersions).Draw(rt, "version")), N: rapid.IntRange(1, 4).Draw(rt, "n"),
		Target: rapid.IntRange(0, 3).Draw(rt, "target"), Explicit: rapid.Bool().Draw(rt, "explicit"),
		Park:  rapid.SampledFrom([]string{"inflight.incoming.afterLookup", "inflight.incoming.afterRemove", "inflight.incoming.afterRemove", "inflight.incoming.beforeHandOver", "inflight.incoming.beforeHandOver"}).Draw(rt, "park"),
		Close: rapid.SampledFrom([]string{"cancel+close", "cancel+close", "cancel", "close"}).Draw(rt, "close")}
	if spec.Version >= 65 {
		spec.Paged = rapid.Bool().Draw(rt, "paged")
	}
	sj, _ := json.Marshal(spec)
	verdict := isolated("c16final", []string{string(sj)}, nil)
	verdict = harnessTrouble(verdict)
	if strings.HasPrefix(verdict, "FAIL:") {
		rt.Fatalf("%s\nspec %s", verdict, sj)
	}
	if strings.HasPrefix(verdict, "SKIP:") {
		rec.Case(false, 0, nil, "skipped:final-vs-close")
		return
	}
	rec.Case(strings.HasSuffix(verdict, "parked"), stats.HashString("finalclose/"+string(sj)), func() string { return "final response racing with close: " + string(sj) + " -> " + verdict },
		"final-vs-close", "final-vs-close:"+strings.TrimPrefix(verdict, "OK "))
}

// Stress form of the same race for the windows no hook point can own (the in-flight handler's Close closing a channel that
// the delivering goroutine has already picked for its send): many short rounds of {one managed request, its final response
// delivered by one goroutine, the handler closed by another after 0..6 yields}. A panic anywhere is the violation; the
// request must also end up completed.
type c16FinalStressSpec struct {
	Rounds  int
	Workers int
	Paged   bool
}

func c16FinalStressSession(args []string, _ []byte) string {
	var spec c16FinalStressSpec
	if err := json.Unmarshal([]byte(args[0]), &spec); err != nil {
		return "FAIL: harness: " + err.Error()
	}
	var wg sync.WaitGroup
	fails := make(chan string, spec.Workers)
	for g := 0; g < spec.Workers; g++ {
		wg.Add(1)
		go func(g int) {
			defer wg.Done()
			for n := 0; n < spec.Rounds; n++ {
				ctx, cancel := context.WithCancel(context.Background())
				h := client.NewVerifInFlight(ctx, 2, 2, time.Hour)
				f := reqFrame(client.ManagedStreamId)
				req, err := h.Enqueue(f)
				if err != nil {
					cancel()
					fails <- "harness: enqueue: " + err.Error()
					return
				}
				id := f.Header.StreamId
				done := make(chan string, 1)
				go func() {
					done <- recovered(func() {
						if spec.Paged {
							_ = h.Deliver(pageFrame(id, 1, true))
						} else {
							_ = h.Deliver(finalFrameV(id, 1, 0))
						}
					})
				}()
				for k := 0; k < (n+g)%7; k++ {
					runtime.Gosched()
				}
				msg := recovered(func() {
					if n%2 == 0 {
						cancel()
					}
					h.Close()
				})
				if m2 := <-done; m2 != "" {
					msg = m2
				}
				cancel()
				if msg != "" {
					fails <- fmt.Sprintf("routing a final response while the in-flight handler is closed panicked (round %d of worker %d): %s", n, g, msg)
					return
				}
				select {
				case _, ok := <-req.Incoming():
					if ok {
						if _, ok := <-req.Incoming(); ok {
							fails <- "a second frame was delivered"
							return
						}
					}
				case <-time.After(5 * time.Second):
					fails <- fmt.Sprintf("the request was never completed (round %d): IsDone=%v Err=%v", n, req.IsDone(), req.Err())
					return
				}
			}
		}(g)
	}
	wg.Wait()
	select {
	case m := <-fails:
		return "FAIL: " + m
	default:
	}
	return "OK"
}

func init() { workerHandlers["c16finalstress"] = c16FinalStressSession }

var finalStressN atomic.Int64 // every stress case is a different sample of interleavings

func c16FinalVsCloseStress(rt *rapid.T) {
	if !everyNth("c16FinalVsCloseStress", 4, 4) {
		return
	}
	defer noteFailure()
	rec := stats.For("C16")
	spec := c16FinalStressSpec{Rounds: rapid.SampledFrom([]int{2000, 5000, 10000}).Draw(rt, "rounds"), Workers: rapid.SampledFrom([]int{2, 4, 8}).Draw(rt, "workers"), Paged: rapid.Bool().Draw(rt, "paged")}
	sj, _ := json.Marshal(spec)
	verdict := harnessTrouble(isolated("c16finalstress", []string{string(sj)}, nil))
	if strings.HasPrefix(verdict, "FAIL:") {
		rt.Fatalf("%s\nspec %s", verdict, sj)
	}
	if strings.HasPrefix(verdict, "SKIP:") {
		rec.Case(false, 0, nil, "skipped:final-vs-close-stress")
		return
	}
	rec.Case(true, stats.HashString(fmt.Sprintf("finalstress/%s/%d", sj, finalStressN.Add(1))), func() string { return "final response vs handler close, stress: " + string(sj) }, "final-vs-close-stress")
	rec.Class("final-vs-close-stress-rounds", int64(spec.Rounds*spec.Workers))
}

func TestC16FinalVsCloseStress(t *testing.T) {
	if os.Getenv("VERIF_FINALCLOSE_OFF") != "" { // only for seeded changes written against the tree before the repair this test called for
		t.Skip("switched off")
	}
	rapid.Check(t, c16FinalVsCloseStress)
}

func TestC16FinalVsClose(t *testing.T) {
	if os.Getenv("VERIF_FINALCLOSE_OFF") != "" { // only for seeded changes written against the tree before the repair this test called for
		t.Skip("switched off")
	}
	rapid.Check(t, c16FinalVsClose)
}
