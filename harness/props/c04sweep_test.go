package props

// C04 sweep: for a generated valid encoding, EVERY truncation point (all prefixes up to 2048 bytes; beyond that every
// field boundary and its neighbours) and EVERY annotated length/count/code/flags field set to each hostile value and to
// its own value +-1 - one field at a time, exhaustively for that base - go through the same decoding entry points as
// TestC04. The sweep of one base runs as one worker call; if the worker dies of memory exhaustion the worker's progress
// record names the item it was on; that item is counted as a resource skip like any single TestC04 case and the sweep
// resumes behind it.

import (
	"encoding/binary"
	"encoding/hex"
	"encoding/json"
	"fmt"
	"os"
	"path/filepath"
	"strconv"
	"strings"
	"sync"
	"sync/atomic"
	"testing"
	"time"

	"pgregory.net/rapid"

	"verifharness/ref"
	"verifharness/stats"
)

type sweepItem struct {
	what  string
	input []byte
}

func encodeAnnots(as []ref.Annot) string {
	var sb strings.Builder
	for i, a := range as {
		if i > 0 {
			sb.WriteByte(',')
		}
		fmt.Fprintf(&sb, "%d:%d:%s", a.Off, a.Width, a.Kind)
	}
	return sb.String()
}

func decodeAnnots(s string) []ref.Annot {
	var out []ref.Annot
	if s == "" {
		return nil
	}
	for _, p := range strings.Split(s, ",") {
		ow := strings.Split(p, ":")
		off, _ := strconv.Atoi(ow[0])
		w, _ := strconv.Atoi(ow[1])
		kind := "code"
		if len(ow) > 2 {
			kind = ow[2]
		}
		out = append(out, ref.Annot{Off: off, Width: w, Kind: kind})
	}
	return out
}

// sweepItems enumerates the derived inputs of one base, in a fixed order.
func sweepItems(valid []byte, fields []ref.Annot, visit func(sweepItem) bool) {
	cuts := map[int]bool{}
	if len(valid) <= 2048 {
		for n := 0; n < len(valid); n++ {
			cuts[n] = true
		}
	} else {
		for n := 0; n < 64; n++ {
			cuts[n] = true
			cuts[len(valid)-1-n] = true
		}
		for _, a := range fields {
			for d := -1; d <= a.Width+1; d++ {
				if n := a.Off + d; n >= 0 && n < len(valid) {
					cuts[n] = true
				}
			}
		}
	}
	for n := 0; n < len(valid); n++ {
		if cuts[n] && !visit(sweepItem{fmt.Sprintf("truncate@%d", n), valid[:n]}) {
			return
		}
	}
	// every 4-byte count at once: products of two plausible sizes (rows x columns, entries x width)
	var counts []ref.Annot
	for _, a := range fields {
		if a.Width == 4 && a.Kind == "count" {
			counts = append(counts, a)
		}
	}
	if len(counts) >= 2 {
		for _, val := range productHostile {
			b := append([]byte{}, valid...)
			for _, a := range counts {
				setField(b, a, val)
			}
			if !visit(sweepItem{fmt.Sprintf("counts all=%#x", val), b}) {
				return
			}
		}
	}
	for _, a := range fields {
		var vals []uint64
		switch a.Width {
		case 1:
			vals = hostile1
		case 2:
			vals = hostile2
		default:
			vals = hostile4
		}
		cur := fieldValue(valid, a)
		mask := uint64(1)<<(8*uint(a.Width)) - 1
		seen := map[uint64]bool{cur: true}
		for _, val := range append([]uint64{cur + 1, cur - 1}, vals...) {
			val &= mask
			if seen[val] {
				continue
			}
			seen[val] = true
			b := append([]byte{}, valid...)
			setField(b, a, val)
			if !visit(sweepItem{fmt.Sprintf("field@%d/%d=%#x", a.Off, a.Width, val), b}) {
				return
			}
		}
	}
}

// worker side: args = [annots, first item index, progress file, c04 args...]; the index of the item being decoded is
// written to the progress file first, so that the parent knows which item a dying worker was on.
func c04SweepHandler(args []string, data []byte) string {
	fields := decodeAnnots(args[0])
	lo, _ := strconv.Atoi(args[1])
	progress, err := os.OpenFile(args[2], os.O_WRONLY|os.O_CREATE|os.O_TRUNC, 0o644)
	if err != nil {
		return "FAIL: harness: " + err.Error()
	}
	defer progress.Close()
	inner := args[3:]
	n, idx := 0, -1
	verdict := ""
	var cell [8]byte
	began := time.Now()
	sweepItems(data, fields, func(it sweepItem) bool {
		idx++
		if idx < lo {
			return true
		}
		if n > 0 && time.Since(began) > 10*time.Second { // at least one item per call, however slow the machine
			// hand back to the parent so that a long sweep is not mistaken for a call that does not return
			verdict = fmt.Sprintf("MORE n=%d next=%d", n, idx)
			return false
		}
		binary.BigEndian.PutUint64(cell[:], uint64(idx))
		if _, err := progress.WriteAt(cell[:], 0); err != nil {
			verdict = "FAIL: harness: " + err.Error()
			return false
		}
		n++
		t0 := time.Now()
		v := c04Handler(inner, it.input)
		if d := time.Since(t0); d > time.Second && os.Getenv("VERIF_DEBUG") != "" {
			if f, err := os.OpenFile(os.Getenv("VERIF_DEBUG"), os.O_APPEND|os.O_CREATE|os.O_WRONLY, 0o644); err == nil {
				fmt.Fprintf(f, "SLOW item %v %s: %v -> %s\n", inner, it.what, d, clipS(v))
				f.Close()
			}
		}
		if strings.HasPrefix(v, "FAIL:") {
			verdict = fmt.Sprintf("%s\nsweep item %s input %s", v, it.what, hex.EncodeToString(it.input))
			return false
		}
		return true
	})
	if verdict != "" {
		return verdict
	}
	return fmt.Sprintf("OK n=%d", n)
}

func init() { workerHandlers["c04sweep"] = c04SweepHandler }

func c04SweepProperty(rt *rapid.T) {
	rec := stats.For("C04")
	// a sweep costs about as much as 50-100 single cases: the driver gives every test of a property the same case count,
	// so only every 100th case (25th in the thorough tier) runs a sweep
	every := 100
	if thorough() {
		every = 25
	}
	// (a counter, not a drawn value: rapid's integer generators favour small values; sweep failures are reported
	// directly and never shrunk, so the property needs no replay through rapid)
	if os.Getenv("VERIF_DEBUG") == "" && sweepTurn.Add(1)%int64(every) != 1 {
		return
	}
	var c c04Case
	family := rapid.SampledFrom([]string{"frame", "frame", "message", "message", "type", "value"}).Draw(rt, "family")
	switch family {
	case "frame":
		c = frameCase(rt)
	case "message":
		c = messageCase(rt)
	case "type":
		for {
			c = typeCase(rt)
			if len(c.valid) <= 600 { // follow-up operations on a descriptor are quadratic in its depth
				break
			}
		}
	default:
		c = valueDecodeCase(rt)
	}
	fields := mutableAnnots(c.annots)
	if len(fields) > 24 {
		// 24 fields spread evenly over the encoding (a hostile length or count costs up to a second: decoders
		// allocate what it - or a misparsed successor - declares before reading)
		sel := make([]ref.Annot, 0, 24)
		for i := 0; i < 24; i++ {
			sel = append(sel, fields[i*len(fields)/24])
		}
		fields = sel
	}
	entry := c.args[0]
	total := 0
	sweepItems(c.valid, fields, func(sweepItem) bool { total++; return true })
	items, skipped, calls := 0, 0, 0
	// run the items from lo on as one worker call; a worker that dies of memory exhaustion names the item it was on,
	// which is counted as a resource skip (as in TestC04), and the sweep resumes behind it
	wd, _ := os.Getwd()
	progress := filepath.Join(wd, fmt.Sprintf("c04sweep-progress-%d", os.Getpid()))
	defer os.Remove(progress)
	run := func() {
		for lo := 0; lo < total; {
			calls++
			_ = os.Remove(progress)
			var verdict string
			if os.Getenv("VERIF_INPROC") != "" {
				verdict = c04SweepHandler(append([]string{encodeAnnots(fields), strconv.Itoa(lo), progress}, c.args...), c.valid)
			} else {
				// one call works through many items (it hands back after 10 s of wall time, but on a saturated machine it
				// may burn a lot of CPU before it gets there): "does not return" is judged at 10 minutes, not at one
				verdict = isolatedWithin(10*time.Minute, "c04sweep", append([]string{encodeAnnots(fields), strconv.Itoa(lo), progress}, c.args...), c.valid)
			}
			switch {
			case strings.HasPrefix(verdict, "FAIL:"):
				if id := knownC04(verdict); id != "" {
					rec.Excluded(id)
					return
				}
				// the failing derived input is already minimal enough to act on: report it directly instead of letting
				// rapid re-run whole sweeps while shrinking the base
				c04SweepFailure(rec, c.args, verdict)
				return
			case strings.HasPrefix(verdict, "SKIP:"):
				cell, err := os.ReadFile(progress)
				if err != nil || len(cell) != 8 {
					rec.Class("sweep-aborted(no progress record)", 1)
					return
				}
				at := int(binary.BigEndian.Uint64(cell))
				if at < lo || at >= total {
					rec.Class("sweep-aborted(bad progress record)", 1)
					return
				}
				items += at - lo
				skipped++
				lo = at + 1
				if skipped >= 16 {
					// every death costs up to a second; a base whose misparsed successors all declare gigabytes is
					// left after 16 of them (content-determined, so the run stays a function of the PRNG value)
					rec.Class("sweep-cut-short(16 resource skips)", 1)
					return
				}
			case strings.HasPrefix(verdict, "MORE"):
				var n, next int
				fmt.Sscanf(verdict, "MORE n=%d next=%d", &n, &next)
				if next <= lo {
					rt.Fatalf("harness defect: sweep does not advance: %s", verdict)
				}
				items += n
				lo = next
			default:
				var n int
				fmt.Sscanf(verdict, "OK n=%d", &n)
				items += n
				return
			}
		}
	}
	t0 := time.Now()
	if os.Getenv("VERIF_DEBUG") != "" {
		fmt.Fprintf(os.Stderr, "START sweep %v base=%d fields=%d total=%d\n", c.args, len(c.valid), len(fields), total)
	}
	run()
	if d := time.Since(t0); d > 2*time.Second && os.Getenv("VERIF_DEBUG") != "" {
		fmt.Fprintf(os.Stderr, "SLOW sweep %v: %v base=%d fields=%d total=%d calls=%d skipped=%d\n", c.args, d, len(c.valid), len(fields), total, calls, skipped)
	}
	rec.Class("sweep-items-skipped(resource)", int64(skipped))
	rec.Class("sweep-worker-calls", int64(calls))
	rec.Case(items > 0, stats.Hash(c.valid, []byte("sweep/"+strings.Join(c.args[:min(2, len(c.args))], "/"))), func() string {
		return fmt.Sprintf("sweep %v: base %d bytes, %d fields, %d derived inputs (every truncation, every field x hostile value) all returned", c.args, len(c.valid), len(fields), items)
	}, "sweep-entry:"+entry, "sweep-base")
	rec.Class("sweep-derived-inputs", int64(items))
}

var sweepTurn atomic.Int64

var (
	sweepFailMu sync.Mutex
	sweepFails  []string
)

func c04SweepFailure(rec *stats.Recorder, args []string, verdict string) {
	input := ""
	if i := strings.LastIndex(verdict, " input "); i >= 0 {
		input = strings.TrimSpace(verdict[i+len(" input "):])
		verdict = verdict[:i]
	}
	sweepFailMu.Lock()
	defer sweepFailMu.Unlock()
	if len(sweepFails) >= 5 {
		return
	}
	p := rec.Violation("sweep-item", map[string]interface{}{"replay_test": "TestC04ReplayItem", "args": args, "input_hex": input, "verdict": verdict[:min(len(verdict), 2000)]})
	sweepFails = append(sweepFails, fmt.Sprintf("%s\nentry %v input %s\nreplay %s", verdict[:min(len(verdict), 600)], args, input[:min(len(input), 400)], p))
}

func TestC04Sweep(t *testing.T) {
	rapid.Check(t, c04SweepProperty)
	sweepFailMu.Lock()
	defer sweepFailMu.Unlock()
	if len(sweepFails) > 0 {
		t.Fatalf("%d derived inputs made a decoder panic, fault or hang, e.g.\n%s", len(sweepFails), sweepFails[0])
	}
}

// TestC04ReplayItem re-runs one saved (entry point, input) pair: ./check replay <file>.
func TestC04ReplayItem(t *testing.T) {
	path := os.Getenv("VERIF_REPLAY_FILE")
	if path == "" {
		t.Skip("no replay file")
	}
	var doc struct {
		Case struct {
			Args     []string `json:"args"`
			InputHex string   `json:"input_hex"`
		} `json:"case"`
	}
	b, err := os.ReadFile(path)
	if err != nil {
		t.Fatal(err)
	}
	if err := json.Unmarshal(b, &doc); err != nil {
		t.Fatal(err)
	}
	input, err := hex.DecodeString(doc.Case.InputHex)
	if err != nil {
		t.Fatal(err)
	}
	if v := isolated("c04", doc.Case.Args, input); strings.HasPrefix(v, "FAIL:") {
		t.Fatalf("%s\nentry %v input %x", v, doc.Case.Args, clipBytes(input))
	}
}
