package props

// C08, last sentence: "a frame ... encoded with compression therefore decodes to the same content as one encoded without".
// Messages whose bodies are empty (OPTIONS, READY - the flag set directly, as the server stub does), tiny (AUTH_RESPONSE
// tokens of 0..40 bytes: compressed forms of 1..45 bytes) or large, under LZ4 and Snappy, against the uncompressed encoding.

import (
	"bytes"
	"fmt"
	"testing"

	"github.com/datastax/go-cassandra-native-protocol/frame"
	"github.com/datastax/go-cassandra-native-protocol/message"
	"github.com/datastax/go-cassandra-native-protocol/primitive"
	"pgregory.net/rapid"

	"verifharness/gen"
	"verifharness/stats"
)

func c08Frames(rt *rapid.T) {
	rec := stats.For("C08")
	v := gen.Version(rt)
	comp := compLz4
	if v != primitive.ProtocolVersion5 && rapid.Bool().Draw(rt, "snappy") {
		comp = compSnappy
	}
	var msg message.Message
	kind := rapid.SampledFrom([]string{"OPTIONS", "READY", "AUTH_RESPONSE", "AUTH_RESPONSE", "AUTH_CHALLENGE", "QUERY"}).Draw(rt, "kind")
	n := rapid.IntRange(0, 40).Draw(rt, "smallLen")
	if rapid.IntRange(0, 5).Draw(rt, "large") == 0 {
		n = c08Size(rt, 300000)
	}
	x, class := c08Content(rt, n)
	switch kind {
	case "OPTIONS":
		msg = &message.Options{}
	case "READY":
		msg = &message.Ready{}
	case "AUTH_RESPONSE":
		msg = &message.AuthResponse{Token: x}
	case "AUTH_CHALLENGE":
		msg = &message.AuthChallenge{Token: x}
	default:
		q := make([]byte, len(x))
		for i, b := range x {
			q[i] = 'a' + b%26
		}
		msg = &message.Query{Query: "q" + string(q), Options: &message.QueryOptions{}}
	}
	plainCodec := newRawCodec(compNone)
	f := frame.NewFrame(v, 1, msg)
	plain, err := encodeFrame(plainCodec, f)
	if err != nil {
		rt.Fatalf("harness defect: EncodeFrame: %v", err)
	}
	P, err := plainCodec.DecodeFrame(bytes.NewReader(plain))
	if err != nil {
		rt.Fatalf("uncompressed frame does not decode: %v", err)
	}
	fc := f.DeepCopy()
	fc.Header.Flags = fc.Header.Flags.Add(primitive.HeaderFlagCompressed)
	codec, spy := newSpyCodec(comp)
	enc, err := encodeFrame(codec, fc)
	if err != nil {
		rt.Fatalf("%s v%d with the COMPRESSED flag (%s, %d-byte content of class %s) does not encode: %v", kind, v, comp, n, class, err)
	}
	if knownLz4("C08", spy) {
		rec.Excluded("DEP-lz4-offset-wrap-65536")
		return
	}
	dec, err := codec.DecodeFrame(bytes.NewReader(enc))
	if err != nil {
		rt.Fatalf("%s v%d encoded with compression (%s, %d-byte content of class %s, compressed body %d bytes) does not decode: %v", kind, v, comp, n, class, len(enc)-hdrLen(v), err)
	}
	dec.Header.Flags = dec.Header.Flags.Remove(primitive.HeaderFlagCompressed)
	dec.Header.BodyLength = P.Header.BodyLength
	if d := diffFrames(P, dec); d != "" {
		rt.Fatalf("%s v%d: the frame encoded with compression (%s) decodes to other content than the one encoded without: %s", kind, v, comp, d)
	}
	rec.Case(true, stats.Hash(enc, []byte(kind)), func() string {
		return fmt.Sprintf("frame %s v%d %s: %d-byte content (%s), compressed body %d bytes, same content as uncompressed", kind, v, comp, n, class, len(enc)-hdrLen(v))
	}, "frame-compressed-vs-plain:"+kind, "frame-comp:"+comp.String())
}

func TestC08Frames(t *testing.T) { rapid.Check(t, c08Frames) }
