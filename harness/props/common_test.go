package props

import (
	"bufio"
	"bytes"
	"fmt"
	"io"
	"os"
	"runtime"
	"strings"
	"sync"
	"sync/atomic"

	"github.com/datastax/go-cassandra-native-protocol/compression/lz4"
	"github.com/datastax/go-cassandra-native-protocol/compression/snappy"
	"github.com/datastax/go-cassandra-native-protocol/frame"
	"github.com/datastax/go-cassandra-native-protocol/primitive"
	"pgregory.net/rapid"

	"verifharness/canon"
	"verifharness/gen"
	"verifharness/kf"
	"verifharness/ref"
	"verifharness/stats"
)

type compKind int

const (
	compNone compKind = iota
	compLz4
	compSnappy
)

func (c compKind) String() string { return [...]string{"none", "lz4", "snappy"}[c] }

// newSpyCodec is newRawCodec, with the LZ4 compressor wrapped in a pass-through spy.
func newSpyCodec(c compKind) (frame.RawCodec, *spyLz4) {
	if c == compLz4 {
		spy := &spyLz4{}
		return frame.NewRawCodecWithCompression(spy), spy
	}
	return newRawCodec(c), nil
}

func newRawCodec(c compKind) frame.RawCodec {
	switch c {
	case compLz4:
		return frame.NewRawCodecWithCompression(lz4.Compressor{})
	case compSnappy:
		return frame.NewRawCodecWithCompression(snappy.Compressor{})
	}
	return frame.NewRawCodec()
}

// drawComp draws a compression setting the specification allows for v (Snappy is not defined for v5).
func drawComp(t *rapid.T, v primitive.ProtocolVersion) compKind {
	cs := []compKind{compNone, compLz4, compSnappy}
	if v == primitive.ProtocolVersion5 {
		cs = []compKind{compNone, compLz4}
	}
	return rapid.SampledFrom(cs).Draw(t, "compression")
}

func genOpts() gen.Opts {
	o := gen.DefaultOpts()
	if thorough() {
		o.TypeDepth = 8
	}
	return o
}

// recovered runs f and converts a panic into an error string (with the panic value).
func recovered(f func()) (msg string) {
	defer func() {
		if e := recover(); e != nil {
			msg = fmt.Sprintf("panic: %v", e)
		}
	}()
	f()
	return ""
}

func encodeFrame(c frame.RawCodec, f *frame.Frame) ([]byte, error) {
	var buf bytes.Buffer
	err := c.EncodeFrame(f, &buf)
	return buf.Bytes(), err
}

func renderFrame(fc gen.FrameCase, comp compKind) string {
	return fmt.Sprintf("%s v=%d comp=%s %s", fc.Kind, fc.Version, comp, canon.Render(fc.Frame))
}

// lz4ZeroOffset reports whether the library's LZ4 compressor emits, for this input, a block containing a match
// with offset 0 (known finding *-lz4-dep-offset-65536: pierrec/lz4 v4.0.3 CompressBlock encodes a match at distance
// exactly 65536 as offset 0). Judged by the independent reference decoder.
func lz4ZeroOffset(input []byte) bool {
	var out bytes.Buffer
	if err := (lz4.Compressor{}).Compress(bytes.NewBuffer(append([]byte{}, input...)), &out); err != nil {
		return false
	}
	_, err := ref.LZ4DecodeBlock(out.Bytes(), len(input)+64)
	return err == ref.ErrLZ4ZeroOffset
}

// spyLz4 passes everything through to the library's LZ4 compressor and remembers the last (input, output) pair of
// CompressWithLength, so that a failing case can be attributed to the dependency's compressor on the exact bytes.
type spyLz4 struct {
	in, out []byte
}

func (s *spyLz4) CompressWithLength(source io.Reader, dest io.Writer) error {
	in, err := io.ReadAll(source)
	if err != nil {
		return err
	}
	var out bytes.Buffer
	if err := (lz4.Compressor{}).CompressWithLength(bytes.NewBuffer(append([]byte{}, in...)), &out); err != nil {
		return err
	}
	s.in, s.out = in, append([]byte{}, out.Bytes()...)
	_, err = dest.Write(out.Bytes())
	return err
}

func (s *spyLz4) DecompressWithLength(source io.Reader, dest io.Writer) error {
	return lz4.Compressor{}.DecompressWithLength(source, dest)
}

// lz4OffsetWrap reports whether block is an LZ4 encoding of truth except that at least one match carries an offset that
// is 65536 too small (distance d >= 65536 written as d-65536, including the invalid offset 0) - the signature of the
// 16-bit offset wrap in github.com/pierrec/lz4/v4 v4.0.3 CompressBlock. Any other discrepancy returns false.
func lz4OffsetWrap(block, truth []byte) bool {
	pos, i, wrapped := 0, 0, false
	readLen := func(base int) (int, bool) {
		n := base
		if base == 15 {
			for {
				if i >= len(block) {
					return 0, false
				}
				b := block[i]
				i++
				n += int(b)
				if b != 255 {
					break
				}
			}
		}
		return n, true
	}
	for i < len(block) {
		tok := block[i]
		i++
		lit, ok := readLen(int(tok >> 4))
		if !ok || i+lit > len(block) || pos+lit > len(truth) || !bytes.Equal(block[i:i+lit], truth[pos:pos+lit]) {
			return false
		}
		i += lit
		pos += lit
		if i == len(block) {
			return wrapped && pos == len(truth)
		}
		if i+2 > len(block) {
			return false
		}
		off := int(block[i]) | int(block[i+1])<<8
		i += 2
		ml, ok := readLen(int(tok & 15))
		if !ok {
			return false
		}
		ml += 4
		if pos+ml > len(truth) {
			return false
		}
		same := func(d int) bool {
			if d <= 0 || d > pos {
				return false
			}
			for k := 0; k < ml; k++ {
				if truth[pos+k] != truth[pos+k-d] {
					return false
				}
			}
			return true
		}
		if !same(off) {
			if !same(off + 65536) {
				return false
			}
			wrapped = true
		}
		pos += ml
	}
	return false
}

// knownLz4(prop, spy): the failing case used LZ4, the uncompressed body exceeds 64 KiB and the block the dependency
// emitted for it shows the 16-bit offset wrap (open finding DEP-lz4-offset-wrap-65536).
func knownLz4(prop string, spy *spyLz4) bool {
	id := "DEP-lz4-offset-wrap-65536"
	if spy == nil || len(spy.in) <= 65536 || len(spy.out) < 4 || !kf.Open(id) {
		return false
	}
	if !lz4OffsetWrap(spy.out[4:], spy.in) {
		return false
	}
	if prop != "" {
		stats.For(prop).Excluded(id)
	}
	return true
}

// lz4Diag describes, for a failure message, what the reference decoder makes of the compressed body of enc.
func lz4Diag(comp compKind, enc []byte) string {
	if comp != compLz4 || len(enc) < 13 || enc[1]&1 == 0 {
		return ""
	}
	hdr := 9
	if enc[0]&0x7f == 2 {
		hdr = 8
	}
	body := enc[hdr:]
	declared := int(body[0])<<24 | int(body[1])<<16 | int(body[2])<<8 | int(body[3])
	out, err := ref.LZ4DecodeBlock(body[4:], 1<<28)
	if d := os.Getenv("VERIF_DUMP"); d != "" {
		_ = os.WriteFile(d, body[4:], 0o644)
	}
	return fmt.Sprintf(" [lz4 diag: declared uncompressed length %d, compressed %d, reference decoder: %d bytes, err=%v]", declared, len(body)-4, len(out), err)
}

// diffFrames is canon.Diff on frames with one more wire-unrepresentable distinction removed: Body.TracingId of a
// request frame ("Only valid for response frames, ignored otherwise").
func diffFrames(a, b *frame.Frame) string {
	na, nb := a, b
	if a != nil && a.Header != nil && !a.Header.IsResponse && a.Body != nil && a.Body.TracingId != nil {
		na = &frame.Frame{Header: a.Header, Body: &frame.Body{CustomPayload: a.Body.CustomPayload, Warnings: a.Body.Warnings, Message: a.Body.Message}}
	}
	if b != nil && b.Header != nil && !b.Header.IsResponse && b.Body != nil && b.Body.TracingId != nil {
		nb = &frame.Frame{Header: b.Header, Body: &frame.Body{CustomPayload: b.Body.CustomPayload, Warnings: b.Body.Warnings, Message: b.Body.Message}}
	}
	return canon.Diff(na, nb)
}

// chunkReader returns at most the next chunk size per Read call (sizes cycle), like a network connection does.
type chunkReader struct {
	r      io.Reader
	chunks []int
	i      int
}

func (c *chunkReader) Read(p []byte) (int, error) {
	n := c.chunks[c.i%len(c.chunks)]
	c.i++
	if n > len(p) {
		n = len(p)
	}
	if n == 0 && len(p) > 0 {
		n = 1
	}
	return c.r.Read(p[:n])
}

func drawChunks(t *rapid.T) []int {
	return rapid.SliceOfN(rapid.SampledFrom([]int{1, 2, 3, 5, 8, 13, 64, 1000, 65536}), 1, 5).Draw(t, "chunks")
}

func yield() { runtime.Gosched() }

// streamSource presents data through one of the reader types callers use (the decoders treat some of them specially:
// *bytes.Buffer, *bytes.Reader, io.Seeker). unread reports how many bytes of data the decoder has not consumed yet.
func streamSource(rt *rapid.T, data []byte, label string) (src io.Reader, unread func() int, kind string) {
	kind = rapid.SampledFrom([]string{"bytes.Reader", "bytes.Reader", "shortReads", "bytes.Buffer", "bufio.Reader", "plain"}).Draw(rt, label)
	switch kind {
	case "bytes.Buffer":
		b := bytes.NewBuffer(append([]byte{}, data...))
		return b, b.Len, kind
	case "bufio.Reader":
		under := bytes.NewReader(data)
		b := bufio.NewReaderSize(onlyReader{under}, rapid.SampledFrom([]int{16, 512, 4096, 1 << 16}).Draw(rt, label+"/bufioSize"))
		return b, func() int { return under.Len() + b.Buffered() }, kind
	case "shortReads":
		under := bytes.NewReader(data)
		return &chunkReader{r: under, chunks: drawChunks(rt)}, under.Len, kind
	case "plain":
		under := bytes.NewReader(data)
		return onlyReader{under}, under.Len, kind
	}
	b := bytes.NewReader(data)
	return b, b.Len, kind
}

// harnessTrouble: a session that could not be carried out for a reason on the harness's side (its own raw peer timed out,
// a listener could not be opened) is not evidence about the library: it becomes a skip, counted in the evidence.
func harnessTrouble(verdict string) string {
	if strings.HasPrefix(verdict, "FAIL:") && strings.Contains(firstLine(verdict), "harness:") {
		return "SKIP: " + strings.TrimPrefix(verdict, "FAIL: ")
	}
	return verdict
}

// everyNth thins a property whose cases are much more expensive than those of its siblings (the driver gives every test of
// a property the same case count): only every n-th call runs. A counter, not a drawn value (rapid's integer generators
// favour small values); the skipped calls draw nothing and record nothing.
var nthCounters sync.Map

func everyNth(name string, quickN, thoroughN int) bool {
	n := quickN
	if thorough() {
		n = thoroughN
	}
	if n <= 1 {
		return true
	}
	if sawFailure.Load() {
		return true // a failure is being minimised or replayed: every call counts
	}
	c, _ := nthCounters.LoadOrStore(name, new(atomic.Int64))
	return c.(*atomic.Int64).Add(1)%int64(n) == 1
}

var sawFailure atomic.Bool

// noteFailure (deferred by thinned properties): rapid aborts a failing case by panicking; from then on no call is skipped, so
// that rapid can reproduce and minimise the failure.
func noteFailure() {
	if r := recover(); r != nil {
		sawFailure.Store(true)
		panic(r)
	}
}
