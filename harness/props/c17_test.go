package props

// C17: deep copies are equal to and independent of their originals.
// Generated domain: every type with a deep-copy operation (registry checked against the working tree's sources) x values
// filled reflectively from rapid draws: every exported field populated, pointers non-nil, slices/maps with >= 1 element
// (also nil and empty variants), interface fields (Message, DataType) holding random registry members.
// Oracle: reflect.DeepEqual(copy, original); then every mutable location reachable from the copy is mutated in turn and a
// full dump of the original must stay unchanged; then the same in the other direction. All four copy operations are
// exercised (DeepCopy, DeepCopyInto, DeepCopyMessage, DeepCopyDataType).

import (
	"fmt"
	"go/ast"
	"net"
	"reflect"
	"sort"
	"strings"
	"testing"

	"github.com/datastax/go-cassandra-native-protocol/datatype"
	"github.com/datastax/go-cassandra-native-protocol/frame"
	"github.com/datastax/go-cassandra-native-protocol/message"
	"github.com/datastax/go-cassandra-native-protocol/primitive"
	"github.com/datastax/go-cassandra-native-protocol/segment"
	"pgregory.net/rapid"

	"verifharness/canon"
	"verifharness/gen"
	"verifharness/stats"
)

var c17Registry = []interface{}{
	// frame
	&frame.Frame{}, &frame.RawFrame{}, &frame.Header{}, &frame.Body{},
	// segment
	&segment.Segment{}, &segment.Header{}, &segment.Payload{},
	// primitive
	&primitive.Value{}, &primitive.Inet{}, &primitive.FailureReason{}, &primitive.UUID{},
	// datatype
	&datatype.PrimitiveType{}, &datatype.Custom{}, &datatype.List{}, &datatype.Set{}, &datatype.Map{}, &datatype.Tuple{}, &datatype.UserDefined{},
	// message: requests
	&message.Startup{}, &message.Options{}, &message.Query{}, &message.QueryOptions{}, &message.ContinuousPagingOptions{}, &message.Prepare{}, &message.Execute{},
	&message.Register{}, &message.Batch{}, &message.BatchChild{}, &message.AuthResponse{}, &message.Revise{},
	// message: responses
	&message.ServerError{}, &message.ProtocolError{}, &message.AuthenticationError{}, &message.Overloaded{}, &message.IsBootstrapping{}, &message.TruncateError{},
	&message.SyntaxError{}, &message.Unauthorized{}, &message.Invalid{}, &message.ConfigError{}, &message.Unavailable{}, &message.ReadTimeout{}, &message.WriteTimeout{},
	&message.ReadFailure{}, &message.WriteFailure{}, &message.FunctionFailure{}, &message.Unprepared{}, &message.AlreadyExists{},
	&message.Ready{}, &message.Authenticate{}, &message.Supported{}, &message.VoidResult{}, &message.RowsResult{}, &message.SetKeyspaceResult{}, &message.PreparedResult{},
	&message.SchemaChangeResult{}, &message.SchemaChangeEvent{}, &message.StatusChangeEvent{}, &message.TopologyChangeEvent{}, &message.AuthChallenge{}, &message.AuthSuccess{},
	&message.ColumnMetadata{}, &message.VariablesMetadata{}, &message.RowsMetadata{},
}

var (
	tMessage   = reflect.TypeOf((*message.Message)(nil)).Elem()
	tDataType  = reflect.TypeOf((*datatype.DataType)(nil)).Elem()
	tPrimType  = reflect.TypeOf(datatype.PrimitiveType{})
	primitives = []datatype.DataType{datatype.Ascii, datatype.Bigint, datatype.Blob, datatype.Boolean, datatype.Counter, datatype.Date, datatype.Decimal, datatype.Double,
		datatype.Duration, datatype.Float, datatype.Inet, datatype.Int, datatype.Smallint, datatype.Time, datatype.Timestamp, datatype.Timeuuid, datatype.Tinyint, datatype.Uuid, datatype.Varchar, datatype.Varint}
)

func registryTypes(iface reflect.Type) []reflect.Type {
	var out []reflect.Type
	for _, x := range c17Registry {
		if reflect.TypeOf(x).Implements(iface) {
			out = append(out, reflect.TypeOf(x))
		}
	}
	return out
}

// fill populates v (settable) from rapid draws.
func fill(rt *rapid.T, v reflect.Value, depth int, label string) {
	t := v.Type()
	switch {
	case t == reflect.TypeOf(net.IP{}):
		n := rapid.SampledFrom([]int{4, 16}).Draw(rt, label+"/iplen")
		v.SetBytes(rapid.SliceOfN(rapid.Byte(), n, n).Draw(rt, label))
		return
	case t == tPrimType:
		// unexported field: use one of the exported singletons' values
		v.Set(reflect.ValueOf(rapid.SampledFrom(primitives).Draw(rt, label)).Elem())
		return
	}
	switch t.Kind() {
	case reflect.Bool:
		v.SetBool(rapid.Bool().Draw(rt, label))
	case reflect.Int, reflect.Int8, reflect.Int16, reflect.Int32, reflect.Int64:
		v.SetInt(int64(rapid.Int8().Draw(rt, label)))
	case reflect.Uint, reflect.Uint8, reflect.Uint16, reflect.Uint32, reflect.Uint64:
		v.SetUint(uint64(rapid.Uint8().Draw(rt, label)))
	case reflect.String:
		v.SetString(rapid.StringMatching(`[a-z]{0,6}`).Draw(rt, label))
	case reflect.Array:
		if t.Elem().Kind() == reflect.Uint8 && rapid.IntRange(0, 5).Draw(rt, label+"/zeroArray") == 0 {
			return // all zero (the nil UUID)
		}
		for i := 0; i < v.Len(); i++ {
			fill(rt, v.Index(i), depth, fmt.Sprintf("%s[%d]", label, i))
		}
	case reflect.Slice:
		mode := rapid.IntRange(0, 9).Draw(rt, label+"/slicemode")
		switch {
		case mode == 0:
			v.Set(reflect.Zero(t)) // nil
		case mode == 1:
			v.Set(reflect.MakeSlice(t, 0, 0)) // empty
		case mode == 2 && t.Elem().Kind() == reflect.Uint8:
			// byte strings at the size boundaries of the formats that carry them (16-bit and 17-bit lengths)
			n := rapid.SampledFrom([]int{65535, 65536, 131071, 131072, 200000}).Draw(rt, label+"/bigLen")
			v.SetBytes(gen.Expand(rapid.IntRange(0, 3).Draw(rt, label+"/class"), rapid.Uint64().Draw(rt, label+"/seed"), n))
		default:
			n := rapid.IntRange(1, 3).Draw(rt, label+"/n")
			if depth <= 0 && t.Elem().Kind() != reflect.Uint8 && t.Elem().Kind() != reflect.String {
				n = 1
			}
			s := reflect.MakeSlice(t, n, n+rapid.IntRange(0, 2).Draw(rt, label+"/cap")) // spare capacity: aliasing via append is observable too
			for i := 0; i < n; i++ {
				fill(rt, s.Index(i), depth-1, fmt.Sprintf("%s[%d]", label, i))
			}
			v.Set(s)
		}
	case reflect.Map:
		mode := rapid.IntRange(0, 9).Draw(rt, label+"/mapmode")
		switch {
		case mode == 0:
			v.Set(reflect.Zero(t))
		case mode == 1:
			v.Set(reflect.MakeMap(t))
		default:
			n := rapid.IntRange(1, 3).Draw(rt, label+"/n")
			m := reflect.MakeMap(t)
			for i := 0; i < n; i++ {
				k := reflect.New(t.Key()).Elem()
				fill(rt, k, depth-1, fmt.Sprintf("%s/k%d", label, i))
				e := reflect.New(t.Elem()).Elem()
				fill(rt, e, depth-1, fmt.Sprintf("%s/v%d", label, i))
				m.SetMapIndex(k, e)
			}
			v.Set(m)
		}
	case reflect.Ptr:
		if depth < -2 || rapid.IntRange(0, 9).Draw(rt, label+"/nilptr") == 0 {
			v.Set(reflect.Zero(t))
			return
		}
		if t.Elem() == tPrimType {
			v.Set(reflect.ValueOf(rapid.SampledFrom(primitives).Draw(rt, label)))
			return
		}
		p := reflect.New(t.Elem())
		fill(rt, p.Elem(), depth-1, label+"*")
		v.Set(p)
	case reflect.Interface:
		var cands []reflect.Type
		switch t {
		case tMessage:
			cands = registryTypes(tMessage)
		case tDataType:
			cands = registryTypes(tDataType)
		default:
			return
		}
		if depth < -1 {
			if t == tDataType {
				v.Set(reflect.ValueOf(rapid.SampledFrom(primitives).Draw(rt, label)))
			} else {
				v.Set(reflect.ValueOf(&message.Ready{}))
			}
			return
		}
		names := make([]string, len(cands))
		for i, c := range cands {
			names[i] = c.String()
		}
		pick := rapid.SampledFrom(names).Draw(rt, label+"/dyn")
		for _, c := range cands {
			if c.String() == pick {
				if c.Elem() == tPrimType {
					v.Set(reflect.ValueOf(rapid.SampledFrom(primitives).Draw(rt, label)))
					return
				}
				p := reflect.New(c.Elem())
				fill(rt, p.Elem(), depth-1, label+"{"+pick+"}")
				v.Set(p)
			}
		}
	case reflect.Struct:
		for i := 0; i < t.NumField(); i++ {
			if t.Field(i).PkgPath != "" {
				continue
			}
			fill(rt, v.Field(i), depth, label+"."+t.Field(i).Name)
		}
		// now and then two fields of the same reference type hold the SAME object (map<T,T> built from one type
		// instance, a request and its retry sharing a value): the copy must still be independent of the original
		for i := 0; i < t.NumField(); i++ {
			for j := i + 1; j < t.NumField(); j++ {
				fi, fj := t.Field(i), t.Field(j)
				if fi.PkgPath != "" || fj.PkgPath != "" || fi.Type != fj.Type {
					continue
				}
				switch fi.Type.Kind() {
				case reflect.Ptr, reflect.Interface, reflect.Slice, reflect.Map:
					if rapid.IntRange(0, 3).Draw(rt, fmt.Sprintf("%s/alias%d_%d", label, i, j)) == 0 {
						v.Field(j).Set(v.Field(i))
					}
				}
			}
		}
	}
}

// mutations enumerates in-place mutations of everything reachable from v through pointers, slices, maps and interfaces.
// For each one it applies the mutation and calls check(description).
func mutations(v reflect.Value, path string, budget *int, check func(string)) {
	if *budget <= 0 || !v.IsValid() {
		return
	}
	switch v.Kind() {
	case reflect.Ptr, reflect.Interface:
		if v.IsNil() {
			return
		}
		if v.Kind() == reflect.Interface && v.Elem().Kind() != reflect.Ptr {
			return
		}
		if v.Kind() == reflect.Ptr && v.Type().Elem() == tPrimType {
			return // shared immutable singletons (unexported field): not mutable through the API
		}
		mutations(v.Elem(), path+"*", budget, check)
	case reflect.Struct:
		for i := 0; i < v.NumField(); i++ {
			if v.Type().Field(i).PkgPath != "" {
				continue
			}
			mutations(v.Field(i), path+"."+v.Type().Field(i).Name, budget, check)
		}
	case reflect.Slice:
		if v.IsNil() {
			return
		}
		// append within capacity: writes into the shared backing array if it is shared
		if v.Cap() > v.Len() && v.CanSet() {
			old := v.Len()
			v.SetLen(old + 1)
			setDifferent(v.Index(old))
			*budget--
			check(path + " append-within-capacity")
			v.SetLen(old)
		}
		idx := []int{0}
		if v.Len() > 1 {
			idx = append(idx, v.Len()-1)
		}
		if v.Len() == 0 {
			idx = nil
		}
		for _, i := range idx {
			e := v.Index(i)
			if isLeaf(e.Kind()) {
				setDifferent(e)
				*budget--
				check(fmt.Sprintf("%s[%d] set", path, i))
			} else {
				mutations(e, fmt.Sprintf("%s[%d]", path, i), budget, check)
				if e.Kind() == reflect.Ptr || e.Kind() == reflect.Slice || e.Kind() == reflect.Map || e.Kind() == reflect.Interface {
					e.Set(reflect.Zero(e.Type()))
					*budget--
					check(fmt.Sprintf("%s[%d] = nil", path, i))
				}
			}
		}
	case reflect.Array:
		if v.CanSet() || v.CanAddr() {
			for _, i := range []int{0, v.Len() - 1} {
				if i >= 0 && i < v.Len() && isLeaf(v.Index(i).Kind()) && v.Index(i).CanSet() {
					setDifferent(v.Index(i))
					*budget--
					check(fmt.Sprintf("%s[%d] set", path, i))
				}
			}
		}
	case reflect.Map:
		if v.IsNil() {
			return
		}
		keys := v.MapKeys()
		sort.Slice(keys, func(i, j int) bool { return fmt.Sprint(keys[i]) < fmt.Sprint(keys[j]) })
		for _, k := range keys {
			e := v.MapIndex(k)
			if !isLeaf(e.Kind()) {
				mutations(e, fmt.Sprintf("%s[%v]", path, k), budget, check) // slices / pointers inside map values are shared if not copied
			}
		}
		if len(keys) > 0 {
			nv := reflect.New(v.Type().Elem()).Elem()
			setDifferent(nv)
			v.SetMapIndex(keys[0], nv)
			*budget--
			check(fmt.Sprintf("%s[%v] replaced", path, keys[0]))
			v.SetMapIndex(keys[len(keys)-1], reflect.Value{})
			*budget--
			check(fmt.Sprintf("%s[%v] deleted", path, keys[len(keys)-1]))
		}
		nk := reflect.New(v.Type().Key()).Elem()
		if nk.Kind() == reflect.String {
			nk.SetString("c17-new-key")
			v.SetMapIndex(nk, reflect.Zero(v.Type().Elem()))
			*budget--
			check(path + " key inserted")
		}
	default:
		if v.CanSet() {
			setDifferent(v)
			*budget--
			check(path + " set")
		}
	}
}

func isLeaf(k reflect.Kind) bool {
	switch k {
	case reflect.Bool, reflect.Int, reflect.Int8, reflect.Int16, reflect.Int32, reflect.Int64, reflect.Uint, reflect.Uint8, reflect.Uint16, reflect.Uint32,
		reflect.Uint64, reflect.Float32, reflect.Float64, reflect.String:
		return true
	}
	return false
}

func setDifferent(v reflect.Value) {
	if !v.CanSet() {
		return
	}
	switch v.Kind() {
	case reflect.Bool:
		v.SetBool(!v.Bool())
	case reflect.Int, reflect.Int8, reflect.Int16, reflect.Int32, reflect.Int64:
		v.SetInt(v.Int() ^ 0x55)
	case reflect.Uint, reflect.Uint8, reflect.Uint16, reflect.Uint32, reflect.Uint64:
		v.SetUint(v.Uint() ^ 0x55)
	case reflect.String:
		v.SetString(v.String() + "~mutated")
	case reflect.Slice:
		s := reflect.MakeSlice(v.Type(), 1, 1)
		setDifferent(s.Index(0))
		v.Set(s)
	case reflect.Float32, reflect.Float64:
		v.SetFloat(v.Float() + 1)
	}
}

// copyOps returns the deep-copy operations available on ptr (a pointer to a registry struct).
func copyOps(ptr reflect.Value) map[string]func() reflect.Value {
	ops := map[string]func() reflect.Value{}
	if m := ptr.MethodByName("DeepCopy"); m.IsValid() {
		ops["DeepCopy"] = func() reflect.Value { return m.Call(nil)[0] }
	}
	if m := ptr.MethodByName("DeepCopyInto"); m.IsValid() {
		ops["DeepCopyInto"] = func() reflect.Value {
			out := reflect.New(ptr.Type().Elem())
			m.Call([]reflect.Value{out})
			return out
		}
	}
	if m := ptr.MethodByName("DeepCopyInto"); m.IsValid() && ptr.Type().Elem().Kind() == reflect.Struct {
		// the "detach" idiom: start from a shallow copy (which still shares every slice, map and pointer with the
		// source) and let DeepCopyInto replace what is shared
		ops["DeepCopyInto(shallow copy)"] = func() reflect.Value {
			out := reflect.New(ptr.Type().Elem())
			out.Elem().Set(ptr.Elem())
			m.Call([]reflect.Value{out})
			return out
		}
	}
	if m := ptr.MethodByName("DeepCopyMessage"); m.IsValid() {
		ops["DeepCopyMessage"] = func() reflect.Value { return m.Call(nil)[0].Elem() }
	}
	if m := ptr.MethodByName("DeepCopyDataType"); m.IsValid() {
		ops["DeepCopyDataType"] = func() reflect.Value { return m.Call(nil)[0].Elem() }
	}
	return ops
}

func c17Check(rt *rapid.T, typeIdx int) {
	rec := stats.For("C17")
	proto := c17Registry[typeIdx]
	t := reflect.TypeOf(proto).Elem()
	mk := func() reflect.Value { // the same value can be rebuilt only by drawing once: build once, copy by op
		p := reflect.New(t)
		fill(rt, p.Elem(), 2, t.Name())
		return p
	}
	orig := mk()
	if t == tPrimType {
		orig = reflect.ValueOf(rapid.SampledFrom(primitives).Draw(rt, "prim"))
	}
	if len(copyOps(orig)) == 0 {
		rt.Fatalf("harness defect: %v has no deep-copy operation", t)
	}
	var names []string
	for n := range copyOps(orig) {
		names = append(names, n)
	}
	sort.Strings(names)
	populated := strings.ContainsAny(canon.Render(orig.Interface()), "&[") // has a pointer, slice or map rendered
	for _, opName := range names {
		op := copyOps(orig)[opName]
		// --- equal
		cp := op()
		if !reflect.DeepEqual(cp.Interface(), orig.Interface()) {
			rt.Fatalf("%v.%s: copy differs from the original\noriginal %s\ncopy     %s", t, opName, canon.RenderFull(orig.Interface()), canon.RenderFull(cp.Interface()))
		}
		if t == tPrimType {
			continue // immutable: nothing reachable can be changed through the API
		}
		// --- mutate the copy, watch the original
		before := canon.RenderFull(orig.Interface())
		budget := 400
		mutations(cp, "copy", &budget, func(what string) {
			if now := canon.RenderFull(orig.Interface()); now != before {
				rt.Fatalf("%v.%s: mutating %s is visible through the original\nbefore %s\nafter  %s", t, opName, what, before, now)
			}
		})
		// --- mutate the original, watch a fresh copy (a second fresh copy replaces the mutated original afterwards)
		cp2, next := op(), op()
		before2 := canon.RenderFull(cp2.Interface())
		budget = 400
		mutations(orig, "original", &budget, func(what string) {
			if now := canon.RenderFull(cp2.Interface()); now != before2 {
				rt.Fatalf("%v.%s: mutating the %s is visible through the copy\nbefore %s\nafter  %s", t, opName, what, before2, now)
			}
		})
		if next.Kind() == reflect.Ptr && next.Type() == orig.Type() {
			orig = next
		} else {
			break
		}
	}
	rec.Case(populated, canon.Hash(orig.Interface())^uint64(typeIdx)<<48, func() string {
		return fmt.Sprintf("%v: %s", t, canon.Render(orig.Interface()))
	}, "type:"+t.String())
}

func TestC17(t *testing.T) {
	rec := stats.For("C17")
	// completeness of the registry against the working tree
	missing := c17MissingTypes()
	for _, m := range missing {
		rec.Note("type with a deep-copy method but no harness registry entry (not checked): " + m)
	}
	rapid.Check(t, func(rt *rapid.T) {
		c17Check(rt, rapid.IntRange(0, len(c17Registry)-1).Draw(rt, "type"))
	})
	rec.Exhaustive("types with a deep-copy operation in the registry", int64(len(c17Registry)))
}

// every type, every run: a fixed number of values per registry type so that no type is left to chance.
func TestC17AllTypes(t *testing.T) {
	k, n := shard()
	for i := range c17Registry {
		if i%n != k {
			continue
		}
		i := i
		t.Run(reflect.TypeOf(c17Registry[i]).Elem().Name(), func(t *testing.T) {
			rapid.Check(t, func(rt *rapid.T) { c17Check(rt, i) })
		})
	}
}

// c17MissingTypes scans the sources for receivers of DeepCopy* methods and reports those not in the registry.
func c17MissingTypes() []string {
	have := map[string]bool{}
	for _, x := range c17Registry {
		t := reflect.TypeOf(x).Elem()
		have[t.PkgPath()[strings.LastIndex(t.PkgPath(), "/")+1:]+"."+t.Name()] = true
	}
	var missing []string
	for _, pkg := range []string{"frame", "message", "segment", "datatype", "primitive"} {
		s := scanPackage(pkg)
		if s.err != nil {
			continue
		}
		for _, f := range s.files {
			for _, d := range f.Decls {
				fd, ok := d.(*ast.FuncDecl)
				if !ok || fd.Recv == nil || !strings.HasPrefix(fd.Name.Name, "DeepCopy") {
					continue
				}
				var recv string
				switch x := fd.Recv.List[0].Type.(type) {
				case *ast.StarExpr:
					if id, ok := x.X.(*ast.Ident); ok {
						recv = id.Name
					}
				case *ast.Ident:
					recv = x.Name
				}
				if recv != "" && !have[pkg+"."+recv] {
					have[pkg+"."+recv] = true
					missing = append(missing, pkg+"."+recv)
				}
			}
		}
	}
	return missing
}
