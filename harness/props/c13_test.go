package props

// C13: numeric conversions never lose information silently.
// Every (CQL numeric type, Go type) pair in both directions x boundary values (exhaustive over pairs), plus
// rapid-generated values. Oracle: arbitrary-precision arithmetic. Encode succeeded => the independent deserializer reads
// exactly the source value from the bytes. Decode succeeded => the destination holds exactly the wire value. Errors are
// always acceptable; panics are not.

import (
	"fmt"
	"math"
	"math/big"
	"reflect"
	"testing"
	"time"

	"github.com/datastax/go-cassandra-native-protocol/datacodec"
	"github.com/datastax/go-cassandra-native-protocol/datatype"
	"github.com/datastax/go-cassandra-native-protocol/primitive"
	"pgregory.net/rapid"

	"verifharness/gen"
	"verifharness/ref"
	"verifharness/stats"
)

// num is an exact number: an integer, a finite binary float, an infinity or NaN.
type num struct {
	I   *big.Int
	F   *big.Float // exact (prec large enough)
	NaN bool
	Inf int
}

func (n num) String() string {
	switch {
	case n.NaN:
		return "NaN"
	case n.Inf != 0:
		return fmt.Sprintf("%+dInf", n.Inf)
	case n.I != nil:
		return n.I.String()
	}
	return n.F.Text('g', 40)
}

func (n num) asFloat() *big.Float {
	if n.I != nil {
		return new(big.Float).SetPrec(uint(n.I.BitLen() + 64)).SetInt(n.I)
	}
	return n.F
}

func sameNumber(a, b num) bool {
	if a.NaN || b.NaN {
		return a.NaN && b.NaN
	}
	if a.Inf != 0 || b.Inf != 0 {
		return a.Inf == b.Inf
	}
	return a.asFloat().Cmp(b.asFloat()) == 0
}

func numOfFloat64(f float64) num {
	switch {
	case math.IsNaN(f):
		return num{NaN: true}
	case math.IsInf(f, 1):
		return num{Inf: 1}
	case math.IsInf(f, -1):
		return num{Inf: -1}
	}
	return num{F: new(big.Float).SetPrec(200).SetFloat64(f)}
}

var c13GoKinds = []string{"int", "int8", "int16", "int32", "int64", "uint", "uint8", "uint16", "uint32", "uint64", "bigint", "float32", "float64", "bigfloat", "string"}

var c13CqlTypes = []datatype.DataType{datatype.Tinyint, datatype.Smallint, datatype.Int, datatype.Bigint, datatype.Counter, datatype.Varint,
	datatype.Date, datatype.Time, datatype.Timestamp, datatype.Float, datatype.Double}

var goIntRange = map[string][2]*big.Int{
	"int": {big.NewInt(math.MinInt64), big.NewInt(math.MaxInt64)}, "int8": {big.NewInt(math.MinInt8), big.NewInt(math.MaxInt8)},
	"int16": {big.NewInt(math.MinInt16), big.NewInt(math.MaxInt16)}, "int32": {big.NewInt(math.MinInt32), big.NewInt(math.MaxInt32)},
	"int64": {big.NewInt(math.MinInt64), big.NewInt(math.MaxInt64)}, "uint": {big.NewInt(0), new(big.Int).SetUint64(math.MaxUint64)},
	"uint8": {big.NewInt(0), big.NewInt(math.MaxUint8)}, "uint16": {big.NewInt(0), big.NewInt(math.MaxUint16)},
	"uint32": {big.NewInt(0), big.NewInt(math.MaxUint32)}, "uint64": {big.NewInt(0), new(big.Int).SetUint64(math.MaxUint64)},
}

var goTypeOfKind = map[string]reflect.Type{
	"int": reflect.TypeOf(int(0)), "int8": reflect.TypeOf(int8(0)), "int16": reflect.TypeOf(int16(0)), "int32": reflect.TypeOf(int32(0)), "int64": reflect.TypeOf(int64(0)),
	"uint": reflect.TypeOf(uint(0)), "uint8": reflect.TypeOf(uint8(0)), "uint16": reflect.TypeOf(uint16(0)), "uint32": reflect.TypeOf(uint32(0)), "uint64": reflect.TypeOf(uint64(0)),
	"bigint": reflect.TypeOf(big.Int{}), "float32": reflect.TypeOf(float32(0)), "float64": reflect.TypeOf(float64(0)), "bigfloat": reflect.TypeOf(big.Float{}), "string": reflect.TypeOf(""),
}

// mkSource builds a Go value of the kind holding exactly n; ok=false if the kind cannot hold it.
func mkSource(kind string, n num) (interface{}, bool) {
	if r, isInt := goIntRange[kind]; isInt {
		if n.I == nil || n.I.Cmp(r[0]) < 0 || n.I.Cmp(r[1]) > 0 {
			return nil, false
		}
		v := reflect.New(goTypeOfKind[kind]).Elem()
		if r[0].Sign() < 0 {
			v.SetInt(n.I.Int64())
		} else {
			v.SetUint(n.I.Uint64())
		}
		return v.Interface(), true
	}
	switch kind {
	case "bigint":
		if n.I == nil {
			return nil, false
		}
		return new(big.Int).Set(n.I), true
	case "string":
		if n.I == nil {
			return nil, false
		}
		// base-10 spellings: plain, zero-padded, explicit plus sign (chosen by the value, so that all occur)
		digits, sign := new(big.Int).Abs(n.I).String(), ""
		if n.I.Sign() < 0 {
			sign = "-"
		}
		switch new(big.Int).Mod(new(big.Int).Abs(n.I), big.NewInt(3)).Int64() {
		case 1:
			return sign + "00" + digits, true
		case 2:
			if sign == "" {
				sign = "+"
			}
			return sign + "0" + digits, true
		}
		return n.I.String(), true
	case "float32", "float64":
		var f float64
		switch {
		case n.NaN:
			f = math.NaN()
		case n.Inf != 0:
			f = math.Inf(n.Inf)
		default:
			var acc big.Accuracy
			f, acc = n.asFloat().Float64()
			if acc != big.Exact {
				return nil, false
			}
		}
		if kind == "float32" {
			if !math.IsNaN(f) && float64(float32(f)) != f {
				return nil, false
			}
			return float32(f), true
		}
		return f, true
	case "bigfloat":
		if n.NaN {
			return nil, false
		}
		if n.Inf != 0 {
			return new(big.Float).SetInf(n.Inf < 0), true
		}
		return new(big.Float).Copy(n.asFloat()), true
	}
	return nil, false
}

// readDest reads the number a decoded destination holds.
func readDest(kind string, dest reflect.Value) (num, error) {
	v := dest.Elem()
	if _, isInt := goIntRange[kind]; isInt {
		if v.Kind() >= reflect.Uint && v.Kind() <= reflect.Uint64 {
			return num{I: new(big.Int).SetUint64(v.Uint())}, nil
		}
		return num{I: big.NewInt(v.Int())}, nil
	}
	switch kind {
	case "bigint":
		bi := v.Interface().(big.Int)
		return num{I: new(big.Int).Set(&bi)}, nil
	case "string":
		x, ok := new(big.Int).SetString(v.String(), 10)
		if !ok {
			return num{}, fmt.Errorf("destination string %q is not a base-10 integer", v.String())
		}
		return num{I: x}, nil
	case "float32", "float64":
		return numOfFloat64(v.Float()), nil
	case "bigfloat":
		bf := v.Interface().(big.Float)
		if bf.IsInf() {
			if bf.Signbit() {
				return num{Inf: -1}, nil
			}
			return num{Inf: 1}, nil
		}
		return num{F: new(big.Float).SetPrec(400).Set(&bf)}, nil
	}
	return num{}, fmt.Errorf("unknown kind %s", kind)
}

// wireNumber interprets the reference deserialization of enc.
func wireNumber(dt datatype.DataType, enc []byte) (num, error) {
	av, err := ref.DeserializeValue(dt, enc, primitive.ProtocolVersion4)
	if err != nil {
		return num{}, err
	}
	if av.Null {
		return num{}, fmt.Errorf("bytes denote NULL")
	}
	switch dt.Code() {
	case primitive.DataTypeCodeFloat:
		return numOfFloat64(float64(math.Float32frombits(uint32(av.Bits)))), nil
	case primitive.DataTypeCodeDouble:
		return numOfFloat64(math.Float64frombits(av.Bits)), nil
	}
	return num{I: av.Int}, nil
}

// wireBytes serializes a number for the CQL type, ok=false if the type cannot carry it.
func wireBytes(dt datatype.DataType, n num) ([]byte, bool) {
	switch dt.Code() {
	case primitive.DataTypeCodeFloat, primitive.DataTypeCodeDouble:
		src, ok := mkSource(map[primitive.DataTypeCode]string{primitive.DataTypeCodeFloat: "float32", primitive.DataTypeCodeDouble: "float64"}[dt.Code()], n)
		if !ok {
			return nil, false
		}
		if f, is32 := src.(float32); is32 {
			b, _ := ref.SerializeValue(dt, gen.AV{Bits: uint64(math.Float32bits(f))}, 4)
			return b, true
		}
		b, _ := ref.SerializeValue(dt, gen.AV{Bits: math.Float64bits(src.(float64))}, 4)
		return b, true
	}
	if n.I == nil {
		return nil, false
	}
	b, err := ref.SerializeValue(dt, gen.AV{Int: n.I}, 4)
	if err != nil {
		return nil, false
	}
	return b, true
}

func codecFor(dt datatype.DataType) datacodec.Codec {
	c, err := datacodec.NewCodec(dt)
	if err != nil {
		panic(err)
	}
	return c
}

// c13Encode: returns a failure description, "" if fine, and whether the conversion was attempted (kind can hold n).
// layoutString: for date/time/timestamp a string is a formatted date, not a base-10 number (not a numeric conversion).
func layoutString(dt datatype.DataType, kind string) bool {
	if kind != "string" {
		return false
	}
	switch dt.Code() {
	case primitive.DataTypeCodeDate, primitive.DataTypeCodeTime, primitive.DataTypeCodeTimestamp:
		return true
	}
	return false
}

func c13Encode(dt datatype.DataType, kind string, n num, ptr bool) (string, bool) {
	if layoutString(dt, kind) {
		return "", false
	}
	src, ok := mkSource(kind, n)
	if !ok {
		return "", false
	}
	if ptr && kind != "bigint" && kind != "bigfloat" {
		p := reflect.New(reflect.TypeOf(src))
		p.Elem().Set(reflect.ValueOf(src))
		src = p.Interface()
	}
	var enc []byte
	var err error
	if msg := recovered(func() { enc, err = codecFor(dt).Encode(src, primitive.ProtocolVersion4) }); msg != "" {
		return fmt.Sprintf("Encode(%T %v) into CQL %s %s", src, n, dt.AsCql(), msg), true
	}
	if err != nil {
		return "", true // refusing is always allowed
	}
	w, err := wireNumber(dt, enc)
	if err != nil {
		return fmt.Sprintf("Encode(%T %v) into CQL %s succeeded with bytes %x that are not a valid %s: %v", src, n, dt.AsCql(), enc, dt.AsCql(), err), true
	}
	if !sameNumber(n, w) {
		return fmt.Sprintf("Encode(%T %v) into CQL %s succeeded but the bytes %x denote %v: the value was silently changed", src, n, dt.AsCql(), enc, w), true
	}
	return "", true
}

func c13Decode(dt datatype.DataType, kind string, n num) (string, bool) {
	if layoutString(dt, kind) {
		return "", false
	}
	wire, ok := wireBytes(dt, n)
	if !ok {
		return "", false
	}
	dest := reflect.New(goTypeOfKind[kind])
	var err error
	var wasNull bool
	if msg := recovered(func() { wasNull, err = codecFor(dt).Decode(wire, dest.Interface(), primitive.ProtocolVersion4) }); msg != "" {
		return fmt.Sprintf("Decode(CQL %s %v = %x) into %v %s", dt.AsCql(), n, wire, dest.Type(), msg), true
	}
	if err != nil {
		return "", true
	}
	if wasNull {
		return fmt.Sprintf("Decode(CQL %s %v = %x) into %v reports NULL", dt.AsCql(), n, wire, dest.Type()), true
	}
	got, err := readDest(kind, dest)
	if err != nil {
		return fmt.Sprintf("Decode(CQL %s %v) into %v: %v", dt.AsCql(), n, dest.Type(), err), true
	}
	if !sameNumber(n, got) {
		return fmt.Sprintf("Decode(CQL %s %v = %x) into %v succeeded but the destination holds %v: the value was silently changed", dt.AsCql(), n, wire, dest.Type(), got), true
	}
	return "", true
}

func c13Boundaries() []num {
	var out []num
	seen := map[string]bool{}
	add := func(x *big.Int) {
		if !seen[x.String()] {
			seen[x.String()] = true
			out = append(out, num{I: x})
		}
	}
	for _, k := range []uint{0, 7, 8, 15, 16, 24, 31, 32, 53, 63, 64, 65, 100} {
		p := new(big.Int).Lsh(big.NewInt(1), k)
		for _, d := range []int64{-2, -1, 0, 1, 2} {
			x := new(big.Int).Add(p, big.NewInt(d))
			add(x)
			add(new(big.Int).Neg(x))
		}
	}
	add(big.NewInt(0))
	add(big.NewInt(86399999999999))
	add(big.NewInt(86400000000000))
	for _, f := range []float64{0.5, -0.5, 1.5, math.MaxFloat32, -math.MaxFloat32, math.MaxFloat32 * 2, math.SmallestNonzeroFloat32, math.SmallestNonzeroFloat32 / 2,
		math.MaxFloat64, math.SmallestNonzeroFloat64, 16777217, 0.1, float64(float32(0.1)), 1e300, 9007199254740993} {
		out = append(out, numOfFloat64(f))
	}
	out = append(out, num{NaN: true}, num{Inf: 1}, num{Inf: -1})
	return out
}

func TestC13Pairs(t *testing.T) {
	rec := stats.For("C13")
	if k, _ := shard(); k != 0 {
		return
	}
	bounds := c13Boundaries()
	var attempted, pairs int64
	for _, dt := range c13CqlTypes {
		for _, kind := range c13GoKinds {
			pairs++
			for _, n := range bounds {
				for _, ptr := range []bool{false, true} {
					if fail, tried := c13Encode(dt, kind, n, ptr); tried {
						attempted++
						if fail != "" {
							rec.Violation("encode-lossy", fail)
							t.Errorf("%s", fail)
						}
					}
				}
				if fail, tried := c13Decode(dt, kind, n); tried {
					attempted++
					if fail != "" {
						rec.Violation("decode-lossy", fail)
						t.Errorf("%s", fail)
					}
				}
			}
		}
	}
	rec.Bulk(attempted, attempted, "pairs-x-boundaries")
	rec.Exhaustive("(CQL numeric type, Go type) pairs x directions", pairs*2)
	rec.AddSample(fmt.Sprintf("%d pairs x %d boundary values (ints 2^k+-{0,1,2} for k in 0,7,8,15,16,24,31,32,53,63,64,65,100, both signs; floats incl. NaN/Inf/MaxFloat32*2/2^53+1); e.g. Decode(CQL bigint 2^31 into *int32) must fail or be exact", pairs, len(bounds)))
}

// duration components: wire values beyond int32 months/days must be refused, not truncated.
func TestC13Duration(t *testing.T) {
	rec := stats.For("C13")
	if k, _ := shard(); k != 0 {
		return
	}
	vals := []int64{0, 1, -1, math.MaxInt32, math.MinInt32, math.MaxInt32 + 1, math.MinInt32 - 1, 1<<32 + 5, -(1 << 32) - 5, 1 << 40, math.MaxInt64, math.MinInt64}
	var n int64
	for _, m := range vals {
		for _, d := range vals {
			for _, ns := range []int64{0, -1, math.MaxInt64, math.MinInt64, 1e9} {
				wire, err := ref.SerializeValue(datatype.Duration, gen.AV{M: m, D: d, Int: big.NewInt(ns)}, 5)
				if err != nil {
					t.Fatalf("harness defect: %v", err)
				}
				var dest datacodec.CqlDuration
				var derr error
				if msg := recovered(func() { _, derr = datacodec.Duration.Decode(wire, &dest, primitive.ProtocolVersion5) }); msg != "" {
					rec.Violation("duration-panic", fmt.Sprintf("Decode(duration months=%d days=%d nanos=%d) %s", m, d, ns, msg))
					t.Errorf("duration decode %s", msg)
					continue
				}
				n++
				if derr != nil {
					continue
				}
				if int64(dest.Months) != m || int64(dest.Days) != d || int64(dest.Nanos) != ns {
					fail := fmt.Sprintf("Decode(CQL duration months=%d days=%d nanos=%d, bytes %x) succeeded but the destination holds months=%d days=%d nanos=%d: silently truncated", m, d, ns, wire, dest.Months, dest.Days, int64(dest.Nanos))
					rec.Violation("duration-truncated", fail)
					t.Errorf("%s", fail)
				}
				// and back
				enc, eerr := datacodec.Duration.Encode(dest, primitive.ProtocolVersion5)
				if eerr == nil {
					av, rerr := ref.DeserializeValue(datatype.Duration, enc, 5)
					if rerr != nil || av.M != int64(dest.Months) || av.D != int64(dest.Days) || av.Int.Int64() != int64(dest.Nanos) {
						fail := fmt.Sprintf("Encode(CqlDuration %+v) = %x denotes months=%d days=%d nanos=%v (%v)", dest, enc, av.M, av.D, av.Int, rerr)
						rec.Violation("duration-encode", fail)
						t.Errorf("%s", fail)
					}
				}
			}
		}
	}
	rec.Bulk(n, n, "duration-components")
}

func c13Random(rt *rapid.T) {
	rec := stats.For("C13")
	dt := rapid.SampledFrom(c13CqlTypes).Draw(rt, "cql")
	kind := rapid.SampledFrom(c13GoKinds).Draw(rt, "go")
	var n num
	switch rapid.IntRange(0, 3).Draw(rt, "valueKind") {
	case 0:
		n = numOfFloat64(math.Float64frombits(rapid.Uint64().Draw(rt, "f64bits")))
	case 1:
		n = numOfFloat64(float64(math.Float32frombits(rapid.Uint32().Draw(rt, "f32bits"))))
	default:
		raw := rapid.SliceOfN(rapid.Byte(), 1, 17).Draw(rt, "mag")
		x := new(big.Int).SetBytes(raw)
		if rapid.Bool().Draw(rt, "neg") {
			x.Neg(x)
		}
		n = num{I: x}
	}
	tried := false
	if fail, t1 := c13Encode(dt, kind, n, rapid.Bool().Draw(rt, "ptr")); fail != "" {
		rt.Fatalf("%s", fail)
	} else {
		tried = tried || t1
	}
	if fail, t2 := c13Decode(dt, kind, n); fail != "" {
		rt.Fatalf("%s", fail)
	} else {
		tried = tried || t2
	}
	rec.Case(tried, stats.HashString(fmt.Sprintf("%s/%s/%v", dt.AsCql(), kind, n)), func() string {
		return fmt.Sprintf("CQL %s <-> Go %s, value %v", dt.AsCql(), kind, n)
	}, "cql:"+dt.AsCql(), "go:"+kind)
}

func TestC13Random(t *testing.T) { rapid.Check(t, c13Random) }

var _ = time.Second
