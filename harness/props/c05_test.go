package props

// C05: header-only and raw-body operations agree with the full codec; decodable bytes re-encode to an equal frame.

import (
	"bytes"
	"encoding/binary"
	"fmt"
	"io"
	"math"
	"strings"
	"testing"
	"testing/iotest"

	"github.com/datastax/go-cassandra-native-protocol/frame"
	"github.com/datastax/go-cassandra-native-protocol/message"
	"github.com/datastax/go-cassandra-native-protocol/primitive"
	"pgregory.net/rapid"

	"verifharness/canon"
	"verifharness/gen"
	"verifharness/ref"
	"verifharness/stats"
)

// onlyReader hides Seek and every other optional interface of the underlying reader.
type onlyReader struct{ r io.Reader }

func (o onlyReader) Read(p []byte) (int, error) { return o.r.Read(p) }

var sentinel = []byte{0xCA, 0xFE, 0xD0, 0x0D}

func restIsSentinel(r io.Reader) (bool, int) {
	rest, _ := io.ReadAll(r)
	return bytes.Equal(rest, sentinel), len(rest)
}

func c05Paths(rt *rapid.T) {
	rec := stats.For("C05")
	v := gen.Version(rt)
	comp := drawComp(rt, v)
	fc := gen.Frame(rt, v, comp != compNone, genOpts())
	codec, spy := newSpyCodec(comp)
	enc, err := encodeFrame(codec, fc.Frame)
	if err != nil {
		rt.Fatalf("EncodeFrame: %v", err)
	}
	if fc.Frame.Header.Flags.Contains(primitive.HeaderFlagCompressed) && knownLz4("C05", spy) {
		return
	}
	h := hdrLen(v)
	stream := append(append([]byte{}, enc...), sentinel...)
	F, err := codec.DecodeFrame(bytes.NewReader(enc))
	if err != nil {
		rt.Fatalf("DecodeFrame: %v", err)
	}
	desc := func() string { return renderFrame(fc, comp) }

	// reader kinds: seekable in-memory, non-seekable, and short reads in generated chunk sizes (a network connection)
	chunks := drawChunks(rt)
	mkReader := func(kind int) io.Reader {
		br := bytes.NewReader(stream)
		switch kind {
		case 0:
			return br
		case 1:
			return onlyReader{br}
		}
		return &chunkReader{r: br, chunks: chunks}
	}
	// 1. raw frame + conversion
	r1 := mkReader(rapid.IntRange(0, 2).Draw(rt, "readerKind1"))
	raw, err := codec.DecodeRawFrame(r1)
	if err != nil {
		rt.Fatalf("DecodeRawFrame: %v (chunks %v)\n%s", err, chunks, desc())
	}
	if ok, n := restIsSentinel(r1); !ok {
		rt.Fatalf("DecodeRawFrame did not stop at the end of the frame (%d bytes left, want %d)\n%s", n, len(sentinel), desc())
	}
	if !bytes.Equal(raw.Body, enc[h:]) {
		rt.Fatalf("DecodeRawFrame body differs from the wire body (len %d vs %d)", len(raw.Body), len(enc)-h)
	}
	if int(raw.Header.BodyLength) != len(raw.Body) {
		rt.Fatalf("DecodeRawFrame: BodyLength %d != len(Body) %d", raw.Header.BodyLength, len(raw.Body))
	}
	conv, err := codec.ConvertFromRawFrame(raw)
	if err != nil {
		rt.Fatalf("ConvertFromRawFrame: %v\n%s", err, desc())
	}
	if d := diffFrames(F, conv); d != "" {
		rt.Fatalf("DecodeRawFrame+ConvertFromRawFrame differs from DecodeFrame: %s\n%s", d, desc())
	}
	// a proxy inspects a raw frame (converts it) and then forwards the raw frame: what it forwards must still be the frame,
	// and a second conversion must give it again
	if !(fc.Frame.Header.Flags.Contains(primitive.HeaderFlagCompressed) && knownLz4("C05", spy)) {
		var fwd bytes.Buffer
		if err := codec.EncodeRawFrame(raw, &fwd); err != nil {
			rt.Fatalf("EncodeRawFrame of a raw frame that was converted before: %v\n%s", err, desc())
		}
		if !bytes.Equal(fwd.Bytes(), enc) {
			rt.Fatalf("a raw frame forwarded (EncodeRawFrame) after it was inspected (ConvertFromRawFrame) differs from the bytes it was decoded from: header %x vs %x, body %d vs %d bytes\n%s", fwd.Bytes()[:min(h, fwd.Len())], enc[:h], fwd.Len()-h, len(enc)-h, desc())
		}
		conv2, err := codec.ConvertFromRawFrame(raw)
		if err != nil {
			rt.Fatalf("second ConvertFromRawFrame of the same raw frame: %v\n%s", err, desc())
		}
		if d := diffFrames(F, conv2); d != "" {
			rt.Fatalf("second ConvertFromRawFrame of the same raw frame differs from DecodeFrame: %s\n%s", d, desc())
		}
	}

	// 2. header + body
	cr2 := &countingReader{r: mkReader(rapid.IntRange(0, 2).Draw(rt, "readerKind2"))}
	var r2 io.Reader = cr2
	hd, err := codec.DecodeHeader(r2)
	if err != nil {
		rt.Fatalf("DecodeHeader: %v", err)
	}
	if cr2.n != h {
		rt.Fatalf("DecodeHeader consumed %d bytes, header is %d", cr2.n, h)
	}
	if d := canon.Diff(F.Header, hd); d != "" {
		rt.Fatalf("DecodeHeader differs from DecodeFrame's header: %s", d)
	}
	body, err := codec.DecodeBody(hd, r2)
	if err != nil {
		rt.Fatalf("DecodeBody: %v\n%s", err, desc())
	}
	if ok, n := restIsSentinel(r2); !ok {
		rt.Fatalf("DecodeHeader+DecodeBody did not stop at the end of the frame (%d bytes left)\n%s", n, desc())
	}
	if d := diffFrames(F, &frame.Frame{Header: hd, Body: body}); d != "" {
		rt.Fatalf("DecodeHeader+DecodeBody differs from DecodeFrame: %s\n%s", d, desc())
	}

	// 3. header + raw body ; 4. header + discard (seekable and not)
	for kind := 0; kind <= 2; kind++ {
		seekable := kind == 0
		mk := func() (io.Reader, int) { return mkReader(kind), kind }
		r3, _ := mk()
		hd3, err := codec.DecodeHeader(r3)
		if err != nil {
			rt.Fatalf("DecodeHeader: %v", err)
		}
		rb, err := codec.DecodeRawBody(hd3, r3)
		if err != nil {
			rt.Fatalf("DecodeRawBody: %v", err)
		}
		if !bytes.Equal(rb, enc[h:]) {
			rt.Fatalf("DecodeRawBody returned %d bytes, wire body has %d (seekable=%v)", len(rb), len(enc)-h, seekable)
		}
		if ok, n := restIsSentinel(r3); !ok {
			rt.Fatalf("DecodeRawBody did not consume exactly the declared body (%d bytes left, seekable=%v)", n, seekable)
		}
		r4, _ := mk()
		hd4, _ := codec.DecodeHeader(r4)
		if err := codec.DiscardBody(hd4, r4); err != nil {
			rt.Fatalf("DiscardBody: %v", err)
		}
		if ok, n := restIsSentinel(r4); !ok {
			rt.Fatalf("DiscardBody did not consume exactly the declared body of %d bytes (%d bytes left after it, seekable=%v)", hd4.BodyLength, n, seekable)
		}
	}

	// 4b. the frame is the last thing in the stream and the source hands out its final bytes TOGETHER with io.EOF (allowed
	// by the io.Reader contract): every body operation still sees the whole body
	for _, op := range []string{"DecodeRawBody", "DiscardBody", "DecodeBody"} {
		r := iotest.DataErrReader(bytes.NewReader(enc))
		hdE, err := codec.DecodeHeader(r)
		if err != nil {
			rt.Fatalf("DecodeHeader from a data+EOF reader: %v", err)
		}
		switch op {
		case "DecodeRawBody":
			rb, err := codec.DecodeRawBody(hdE, r)
			if err != nil || !bytes.Equal(rb, enc[h:]) {
				rt.Fatalf("DecodeRawBody from a reader that returns its last bytes together with io.EOF: %v (%d of %d body bytes)\n%s", err, len(rb), len(enc)-h, desc())
			}
		case "DiscardBody":
			if err := codec.DiscardBody(hdE, r); err != nil {
				rt.Fatalf("DiscardBody from a reader that returns its last bytes together with io.EOF: %v (declared body %d bytes, all present)\n%s", err, hdE.BodyLength, desc())
			}
		default:
			b, err := codec.DecodeBody(hdE, r)
			if err != nil {
				rt.Fatalf("DecodeBody from a reader that returns its last bytes together with io.EOF: %v\n%s", err, desc())
			}
			if d := diffFrames(F, &frame.Frame{Header: hdE, Body: b}); d != "" {
				rt.Fatalf("DecodeHeader+DecodeBody from a data+EOF reader differs from DecodeFrame: %s\n%s", d, desc())
			}
		}
	}

	// 5. convert to raw + encode raw
	f5 := fc.Frame.DeepCopy()
	raw5, err := codec.ConvertToRawFrame(f5)
	if err != nil {
		rt.Fatalf("ConvertToRawFrame: %v", err)
	}
	known5 := fc.Frame.Header.Flags.Contains(primitive.HeaderFlagCompressed) && knownLz4("C05", spy)
	// a proxy converts a batch of frames before it flushes any: the raw frame must not depend on what the codec does next
	for k := 0; k < 2; k++ {
		other := frame.NewFrame(v, int16(k+2), &message.Query{Query: strings.Repeat("another body ", 3+40*k), Options: &message.QueryOptions{}})
		if comp != compNone && k == 1 {
			other.SetCompress(true)
		}
		if _, err := codec.ConvertToRawFrame(other); err != nil {
			rt.Fatalf("harness defect: ConvertToRawFrame of a plain QUERY: %v", err)
		}
		if _, err := encodeFrame(codec, other); err != nil {
			rt.Fatalf("harness defect: EncodeFrame of a plain QUERY: %v", err)
		}
	}
	var b5 bytes.Buffer
	if err := codec.EncodeRawFrame(raw5, &b5); err != nil {
		rt.Fatalf("EncodeRawFrame: %v", err)
	}
	if !known5 {
		d5, err := codec.DecodeFrame(bytes.NewReader(b5.Bytes()))
		if err != nil {
			rt.Fatalf("ConvertToRawFrame+EncodeRawFrame bytes do not decode: %v\n%s", err, desc())
		}
		sameLen(F, d5)
		if d := diffFrames(F, d5); d != "" {
			rt.Fatalf("ConvertToRawFrame+EncodeRawFrame decodes differently: %s\n%s", d, desc())
		}
	}

	// 6. EncodeBody into a buffer, set the length, EncodeHeader, concatenate
	f6 := fc.Frame.DeepCopy()
	var body6, b6 bytes.Buffer
	if err := codec.EncodeBody(f6.Header, f6.Body, &body6); err != nil {
		rt.Fatalf("EncodeBody: %v", err)
	}
	known6 := fc.Frame.Header.Flags.Contains(primitive.HeaderFlagCompressed) && knownLz4("C05", spy)
	f6.Header.BodyLength = int32(body6.Len())
	if err := codec.EncodeHeader(f6.Header, &b6); err != nil {
		rt.Fatalf("EncodeHeader: %v", err)
	}
	if b6.Len() != h {
		rt.Fatalf("EncodeHeader wrote %d bytes for v%d", b6.Len(), v)
	}
	b6.Write(body6.Bytes())
	if !known6 {
		d6, err := codec.DecodeFrame(bytes.NewReader(b6.Bytes()))
		if err != nil {
			rt.Fatalf("EncodeHeader+EncodeBody bytes do not decode: %v\n%s", err, desc())
		}
		sameLen(F, d6)
		if d := diffFrames(F, d6); d != "" {
			rt.Fatalf("EncodeHeader+EncodeBody decodes differently: %s\n%s", d, desc())
		}
	}
	// 7. what the raw path hands out belongs to the caller: a proxy reads into one *bytes.Buffer, keeps the raw frame and
	// reuses the buffer for the next read. The raw frame (and a frame decoded directly) must not change with it.
	buf7 := bytes.NewBuffer(append([]byte{}, stream...))
	raw7, err := codec.DecodeRawFrame(buf7)
	if err != nil {
		rt.Fatalf("DecodeRawFrame from a *bytes.Buffer: %v\n%s", err, desc())
	}
	if buf7.Len() != len(sentinel) {
		rt.Fatalf("DecodeRawFrame from a *bytes.Buffer left %d bytes, want %d", buf7.Len(), len(sentinel))
	}
	buf8 := bytes.NewBuffer(append([]byte{}, stream...))
	F8, err := codec.DecodeFrame(buf8)
	if err != nil {
		rt.Fatalf("DecodeFrame from a *bytes.Buffer: %v\n%s", err, desc())
	}
	for _, b := range []*bytes.Buffer{buf7, buf8} {
		b.Reset()
		b.Write(bytes.Repeat([]byte{0x5a}, len(stream))) // the next network read lands in the same storage
	}
	if !bytes.Equal(raw7.Body, enc[h:]) {
		rt.Fatalf("the raw body returned by DecodeRawFrame changed when the caller reused its *bytes.Buffer: it shares memory with the source\n%s", desc())
	}
	conv7, err := codec.ConvertFromRawFrame(raw7)
	if err != nil {
		rt.Fatalf("ConvertFromRawFrame after the source buffer was reused: %v\n%s", err, desc())
	}
	if d := diffFrames(F, conv7); d != "" {
		rt.Fatalf("DecodeRawFrame+ConvertFromRawFrame differs from DecodeFrame once the caller has reused its *bytes.Buffer: %s\n%s", d, desc())
	}
	if d := diffFrames(F, F8); d != "" {
		rt.Fatalf("a frame decoded from a *bytes.Buffer changed when the caller reused the buffer: %s\n%s", d, desc())
	}

	// 8. a header that declares a negative or a shorter body: the body operations must agree with each other - all refuse
	// a negative length; all consume exactly a shorter declared length
	for _, declared := range []int32{-1, -15, math.MinInt32, int32(rapid.IntRange(0, len(enc)-h).Draw(rt, "shorterBody"))} {
		alt := append([]byte{}, stream...)
		binary.BigEndian.PutUint32(alt[h-4:h], uint32(declared))
		outcome := map[string]string{}
		for _, op := range []string{"DecodeRawBody", "DiscardBody(seekable)", "DiscardBody(stream)"} {
			var r io.Reader
			br := bytes.NewReader(alt)
			r = br
			if op == "DiscardBody(stream)" {
				r = onlyReader{br}
			}
			hd, err := codec.DecodeHeader(r)
			if err != nil {
				outcome[op] = "header refused"
				continue
			}
			var operr error
			if msg := recovered(func() {
				if op == "DecodeRawBody" {
					_, operr = codec.DecodeRawBody(hd, r)
				} else {
					operr = codec.DiscardBody(hd, r)
				}
			}); msg != "" {
				rt.Fatalf("%s on a header declaring body length %d: %s", op, declared, msg)
			}
			if operr != nil {
				outcome[op] = "refused"
			} else {
				outcome[op] = fmt.Sprintf("consumed %d", len(alt)-h-br.Len())
			}
		}
		want := "refused"
		if declared >= 0 {
			want = fmt.Sprintf("consumed %d", declared)
		}
		for op, got := range outcome {
			if got != want && got != "header refused" {
				rt.Fatalf("header declaring body length %d: %s %s, expected %q (all operations: %v)\n%s", declared, op, got, want, outcome, desc())
			}
		}
	}
	rec.Case(len(enc) > h, canon.Hash(fc.Frame)^uint64(comp)<<1, desc, "paths", "kind:"+fc.Kind, fmt.Sprintf("version:%d", v), "comp:"+comp.String())
}

// sameLen: the compressed length of a body containing wire maps depends on the (free) order of the map entries, so
// two encodings of one frame may legitimately declare different body lengths when compressed. Uncompressed lengths
// must agree and are left alone.
func sameLen(ref, other *frame.Frame) {
	if ref.Header.Flags.Contains(primitive.HeaderFlagCompressed) {
		other.Header.BodyLength = ref.Header.BodyLength
	}
}

func TestC05Paths(t *testing.T) { rapid.Check(t, c05Paths) }

// mutateBytes applies a few generic mutations to a valid encoding.
func mutateBytes(rt *rapid.T, b []byte, hdr int) []byte {
	out := append([]byte{}, b...)
	n := rapid.IntRange(1, 3).Draw(rt, "nmut")
	for i := 0; i < n && len(out) > 0; i++ {
		switch rapid.IntRange(0, 5).Draw(rt, "mut") {
		case 0: // flag byte
			out[1] = rapid.Byte().Draw(rt, "flags")
		case 1, 2: // bit flip / byte set in the body, only at bytes that are currently non-zero: the zero bytes of a
			// small frame are mostly the high bytes of 4-byte lengths, and making one of them non-zero has the decoder
			// allocate 16 MiB..2 GiB before it notices that the input is short (C04 probes that; such inputs never
			// decode and teach this clause nothing)
			if len(out) > hdr {
				p := rapid.IntRange(hdr, len(out)-1).Draw(rt, "pos")
				if out[p] != 0 {
					if rapid.Bool().Draw(rt, "flip") {
						out[p] ^= 1 << uint(rapid.IntRange(0, 7).Draw(rt, "bit"))
					} else {
						out[p] = rapid.SampledFrom([]byte{0, 1, 2, 0x7f, 0x80, 0xff}).Draw(rt, "val")
					}
				}
			}
		case 3: // direction bit / version
			out[0] = rapid.SampledFrom([]byte{2, 3, 4, 5, 65, 66, 0x82, 0x83, 0x84, 0x85, 0xC1, 0xC2}).Draw(rt, "v")
		case 4: // opcode
			if hdr == 9 {
				out[4] = rapid.SampledFrom([]byte{0, 1, 2, 3, 5, 6, 7, 8, 9, 10, 11, 12, 13, 14, 15, 16, 255}).Draw(rt, "op")
			} else {
				out[3] = rapid.SampledFrom([]byte{0, 1, 2, 3, 5, 6, 7, 8, 9, 10, 11, 12, 13, 14, 15, 16, 255}).Draw(rt, "op")
			}
		default: // append trailing garbage (decoder must not depend on it)
			out = append(out, rapid.SliceOfN(rapid.Byte(), 1, 8).Draw(rt, "tail")...)
		}
	}
	return out
}

// c05ReencodeVerdict runs in the worker: decode -> encode -> decode on arbitrary bytes.
func c05ReencodeVerdict(args []string, in []byte) string {
	comp := compNone
	switch args[0] {
	case "lz4":
		comp = compLz4
	case "snappy":
		comp = compSnappy
	}
	codec, spy := newSpyCodec(comp)
	var G *frame.Frame
	var err error
	if msg := recovered(func() { G, err = codec.DecodeFrame(bytes.NewReader(in)) }); msg != "" {
		return "SKIP: decode-panicked(C04's business)"
	}
	if err != nil {
		return "SKIP: undecodable"
	}
	G0 := G.DeepCopy()
	var b2 []byte
	var eerr error
	if msg := recovered(func() { b2, eerr = encodeFrame(codec, G) }); msg != "" {
		return fmt.Sprintf("FAIL: re-encoding a decoded frame panicked: %s", msg)
	}
	if eerr != nil {
		return "SKIP: encode-error(not judged)"
	}
	if G.Header.Flags.Contains(primitive.HeaderFlagCompressed) && knownLz4("", spy) {
		return "SKIP: known:DEP-lz4-offset-wrap-65536"
	}
	G2, err := codec.DecodeFrame(bytes.NewReader(b2))
	if err != nil {
		return fmt.Sprintf("FAIL: bytes decoded to a frame, the frame re-encoded, but the result does not decode: %v\nfirst decode: %s", err, canon.Render(G0))
	}
	G0.Header.BodyLength = G2.Header.BodyLength // the computed length may legitimately differ (map order under compression, trailing bytes)
	if d := diffFrames(G0, G2); d != "" {
		return fmt.Sprintf("FAIL: decode -> encode -> decode is not stable: %s\nfirst decode: %s", d, canon.Render(G0))
	}
	return "OK " + canon.Render(G0)
}

func init() { workerHandlers["c05reencode"] = c05ReencodeVerdict }

func c05Reencode(rt *rapid.T) {
	rec := stats.For("C05")
	v := gen.Version(rt)
	comp := drawComp(rt, v)
	fc := gen.Frame(rt, v, comp != compNone, genOpts())
	codec := newRawCodec(comp)
	enc, err := encodeFrame(codec, fc.Frame)
	if err != nil {
		rt.Fatalf("EncodeFrame: %v", err)
	}
	in := enc
	mutated := rapid.IntRange(0, 4).Draw(rt, "mutate") != 0
	if mutated {
		in = mutateBytes(rt, enc, hdrLen(v))
	}
	// structured variant: one plain numeric VALUE field (not a length, count or code) of an uncompressed frame set to an
	// extreme or sign-flipped value - the input stays decodable, and whatever it decodes to must survive re-encoding
	if !fc.Frame.Header.Flags.Contains(primitive.HeaderFlagCompressed) && rapid.IntRange(0, 3).Draw(rt, "valueField") == 0 {
		if refEnc, err := ref.EncodeFrame(fc.Frame); err == nil && bytes.Equal(refEnc.Flat(nil)[:hdrLen(v)], enc[:hdrLen(v)]) {
			var ints []ref.Annot
			for _, a := range refEnc.Annots() {
				if a.Kind == "int" && a.Off >= hdrLen(v) && a.Off+a.Width <= len(enc) {
					ints = append(ints, a)
				}
			}
			if len(ints) > 0 && len(refEnc.Flat(nil)) == len(enc) {
				a := ints[rapid.IntRange(0, len(ints)-1).Draw(rt, "whichValue")]
				in = append([]byte{}, enc...)
				val := rapid.SampledFrom([]uint64{0xffffffffffffffff, 0x8000000000000000, 0xff00000000000000, 0x7fffffffffffffff, 0}).Draw(rt, "value") >> (8 * uint(8-a.Width))
				setField(in, a, val)
				mutated = true
			}
		}
	}
	verdict := isolated("c05reencode", []string{comp.String()}, in)
	switch {
	case strings.HasPrefix(verdict, "FAIL:"):
		rt.Fatalf("%s\ncomp=%s input(%d bytes) %x", verdict, comp, len(in), clipBytes(in))
	case strings.HasPrefix(verdict, "SKIP: known:"):
		rec.Excluded(strings.TrimPrefix(verdict, "SKIP: known:"))
	case strings.HasPrefix(verdict, "SKIP:"):
		cls := firstLine(strings.TrimPrefix(verdict, "SKIP: "))
		if strings.HasPrefix(cls, "resource exhaustion") {
			cls = "resource-exhaustion-in-worker(not judged)"
		}
		rec.Case(false, 0, nil, "reencode:"+cls)
	default:
		rec.Case(mutated && !bytes.Equal(in, enc), stats.Hash(in), func() string {
			return fmt.Sprintf("re-encode v=%d comp=%s input(%d bytes)=%x -> %s", v, comp, len(in), clipBytes(in), clip200(verdict))
		}, "reencode:stable", fmt.Sprintf("mutated:%v", mutated))
	}
}

func clip200(s string) string {
	if len(s) > 600 {
		return s[:600] + "..."
	}
	return s
}

func clipBytes(b []byte) []byte {
	if len(b) > 200 {
		return b[:200]
	}
	return b
}

func TestC05Reencode(t *testing.T) { rapid.Check(t, c05Reencode) }
