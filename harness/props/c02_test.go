package props

// C02: emitted bytes conform to the native-protocol specification of the version; spec-formatted bytes decode to the
// message they denote; frames whose header breaks the specification are rejected.
// Oracle: an independent reference encoder written from specs/*.spec (verifharness/ref). Uncompressed frames must match
// it byte for byte modulo the order of entries inside wire maps; compressed bodies are judged by a validity predicate
// (independent LZ4/Snappy decoders recover exactly a reference-conforming body). Reference bytes, with generated map
// entry orders, must decode to the frame. All 2^16 (version byte, opcode) headers are swept against a table.

import (
	"bytes"
	"encoding/binary"
	"fmt"
	"sync"
	"testing"

	"github.com/datastax/go-cassandra-native-protocol/frame"
	"github.com/datastax/go-cassandra-native-protocol/message"
	"github.com/datastax/go-cassandra-native-protocol/primitive"
	"pgregory.net/rapid"

	"verifharness/canon"
	"verifharness/gen"
	"verifharness/ref"
	"verifharness/stats"
)

func c02Opts() gen.Opts {
	o := genOpts()
	o.AllWriteTypes = false // write types per the version's spec text only (Appendix A '?' cells are not asserted)
	return o
}

func c02Frames(rt *rapid.T) {
	rec := stats.For("C02")
	v := gen.Version(rt)
	comp := drawComp(rt, v)
	fc := gen.Frame(rt, v, comp != compNone, c02Opts())
	f := fc.Frame
	codec, spy := newSpyCodec(comp)
	enc, err := encodeFrame(codec, f)
	if err != nil {
		rt.Fatalf("EncodeFrame failed on a version-valid frame: %v\n%s", err, renderFrame(fc, comp))
	}
	h := hdrLen(v)
	refBody, err := ref.EncodeBody(f.Header, f.Body)
	if err != nil {
		rt.Fatalf("harness defect: generator produced a frame the reference encoder rejects: %v\n%s", err, renderFrame(fc, comp))
	}
	compressed := f.Header.Flags.Contains(primitive.HeaderFlagCompressed)
	// header: always byte-exact
	wantHdr := ref.EncodeHeaderBytes(f.Header, int32(len(enc)-h))
	if len(enc) < h || !bytes.Equal(enc[:h], wantHdr) {
		rt.Fatalf("header bytes differ from the specification: library %x, specification %x\n%s", enc[:min(h, len(enc))], wantHdr, renderFrame(fc, comp))
	}
	body := enc[h:]
	if compressed {
		if knownLz4("C02", spy) {
			return
		}
		var plain []byte
		switch comp {
		case compLz4: // [int] uncompressed length (big-endian) + LZ4 block
			if len(body) < 4 {
				rt.Fatalf("LZ4 body shorter than its length prefix")
			}
			declared := int(binary.BigEndian.Uint32(body[:4]))
			plain, err = ref.LZ4DecodeBlock(body[4:], declared+64)
			if err != nil {
				rt.Fatalf("LZ4 body is not a valid block per the independent decoder: %v\n%s", err, renderFrame(fc, comp))
			}
			if declared != len(plain) {
				rt.Fatalf("LZ4 body declares %d uncompressed bytes but holds %d", declared, len(plain))
			}
		case compSnappy:
			plain, err = ref.SnappyDecodeBlock(body, 1<<28)
			if err != nil {
				rt.Fatalf("Snappy body is not a valid block per the independent decoder: %v\n%s", err, renderFrame(fc, comp))
			}
		}
		body = plain
	}
	if d := refBody.Match(body); d != "" {
		rt.Fatalf("body bytes differ from the specification of version %d: %s\n%s", v, d, renderFrame(fc, comp))
	}

	// decode direction: specification-formatted bytes (map entries in a generated order) decode to the frame
	perm := rapid.SliceOfN(rapid.IntRange(0, 7), refBody.Groups(), refBody.Groups()).Draw(rt, "perm")
	specBody := refBody.Flat(perm)
	hd := f.Header.DeepCopy()
	hd.Flags = hd.Flags.Remove(primitive.HeaderFlagCompressed)
	specBytes := append(ref.EncodeHeaderBytes(hd, int32(len(specBody))), specBody...)
	dec, err := newRawCodec(compNone).DecodeFrame(bytes.NewReader(specBytes))
	if err != nil {
		rt.Fatalf("specification-formatted bytes do not decode: %v\n%s\nbytes %x", err, renderFrame(fc, comp), clipBytes(specBytes))
	}
	want := f.DeepCopy()
	want.Header.Flags = hd.Flags
	want.Header.BodyLength = int32(len(specBody))
	if d := diffFrames(want, dec); d != "" {
		rt.Fatalf("specification-formatted bytes decode to a different frame: %s\n%s", d, renderFrame(fc, comp))
	}
	if compressed {
		// foreign compressed form: literal-only blocks produced by the reference encoders must be accepted too
		var cbody []byte
		if comp == compLz4 {
			cbody = binary.BigEndian.AppendUint32(nil, uint32(len(specBody)))
			cbody = append(cbody, ref.LZ4EncodeLiteral(specBody)...)
		} else {
			cbody = ref.SnappyEncodeLiteral(specBody)
		}
		if len(specBody) > 0 || comp == compSnappy {
			cb := append(ref.EncodeHeaderBytes(f.Header, int32(len(cbody))), cbody...)
			dec2, err := newRawCodec(comp).DecodeFrame(bytes.NewReader(cb))
			if err != nil {
				rt.Fatalf("a conforming %s-compressed body produced by an independent encoder does not decode: %v\n%s", comp, err, renderFrame(fc, comp))
			}
			want2 := f.DeepCopy()
			want2.Header.BodyLength = int32(len(cbody))
			if d := diffFrames(want2, dec2); d != "" {
				rt.Fatalf("independently compressed body decodes to a different frame: %s", d)
			}
		}
	}
	rec.Case(len(refBody.Annots()) >= 2, stats.Hash(specBytes), func() string {
		return fmt.Sprintf("%s | spec bytes %x", renderFrame(fc, comp), clipBytes(specBytes))
	}, "kind:"+fc.Kind, fmt.Sprintf("version:%d", v), "comp:"+comp.String(), fmt.Sprintf("groups:%d", refBody.Groups()))
}

func TestC02Frames(t *testing.T) { rapid.Check(t, c02Frames) }

// Header accept/reject table (DESIGN.md Appendix A): version byte b: direction = b&0x80, version = b&0x7F in
// {2,3,4,5,65,66}; request opcodes {01,05,07,09,0A,0B,0D,0F} (+FF for 65,66); response opcodes {00,02,03,06,08,0C,0E,10}.
func headerValid(vb, op byte) (validHeader bool, validForVersion bool) {
	v := vb & 0x7f
	resp := vb&0x80 != 0
	switch v {
	case 2, 3, 4, 5, 65, 66:
	default:
		return false, false
	}
	isReq, isResp := false, false
	switch op {
	case 0x01, 0x05, 0x07, 0x09, 0x0A, 0x0B, 0x0D, 0x0F, 0xFF:
		isReq = true
	case 0x00, 0x02, 0x03, 0x06, 0x08, 0x0C, 0x0E, 0x10:
		isResp = true
	}
	if !(isReq && !resp || isResp && resp) {
		return false, false
	}
	if op == 0xFF && v < 65 {
		return true, false // a known opcode, but not one this version's specification defines
	}
	return true, true
}

func TestC02Headers(t *testing.T) {
	rec := stats.For("C02")
	if k, _ := shard(); k != 0 {
		return
	}
	codec := frame.NewRawCodec()
	n, rejected := int64(0), int64(0)
	for vb := 0; vb < 256; vb++ {
		for op := 0; op < 256; op++ {
			var hdr []byte
			if vb&0x7f == 2 {
				hdr = []byte{byte(vb), 0, 0, byte(op), 0, 0, 0, 0}
			} else {
				hdr = []byte{byte(vb), 0, 0, 0, byte(op), 0, 0, 0, 0}
			}
			// a short body that is a valid empty map/list/string for most opcodes
			stream := append(append([]byte{}, hdr...), 0, 0, 0, 0, 0, 0, 0, 0, 0, 0, 0, 0, 0, 0, 0, 0)
			valid, forVersion := headerValid(byte(vb), byte(op))
			var h *frame.Header
			var herr error
			if msg := recovered(func() { h, herr = codec.DecodeHeader(bytes.NewReader(stream)) }); msg != "" {
				rec.Violation("header-panic", fmt.Sprintf("DecodeHeader(%x) %s", hdr, msg))
				t.Errorf("DecodeHeader(%x) %s", hdr, msg)
				continue
			}
			if valid && forVersion && herr != nil {
				rec.Violation("header-rejected", fmt.Sprintf("DecodeHeader rejects the specification-conforming header %x: %v", hdr, herr))
				t.Errorf("valid header %x rejected: %v", hdr, herr)
			}
			if !valid && herr == nil {
				rec.Violation("header-accepted", fmt.Sprintf("DecodeHeader accepts header %x (version byte %#x, opcode %#x), which breaks the specification: %+v", hdr, vb, op, h))
				t.Errorf("invalid header %x accepted", hdr)
			}
			if valid && forVersion && herr == nil {
				if h.IsResponse != (vb&0x80 != 0) || byte(h.Version) != byte(vb&0x7f) || byte(h.OpCode) != byte(op) {
					rec.Violation("header-misread", fmt.Sprintf("DecodeHeader(%x) = %+v", hdr, h))
					t.Errorf("header %x misread", hdr)
				}
			}
			// the full decoder must reject whatever the header decoder must reject, and DSE-only opcodes under OSS versions
			var ferr error
			if msg := recovered(func() { _, ferr = codec.DecodeFrame(bytes.NewReader(stream)) }); msg != "" {
				rec.Violation("header-panic", fmt.Sprintf("DecodeFrame(%x) %s", stream, msg))
				t.Errorf("DecodeFrame(%x) %s", stream, msg)
				continue
			}
			if (!valid || !forVersion) && ferr == nil {
				rec.Violation("frame-accepted", fmt.Sprintf("DecodeFrame accepts a frame whose header %x breaks the specification (version byte %#x, opcode %#x)", hdr, vb, op))
				t.Errorf("frame with invalid header %x accepted", hdr)
			}
			if ferr != nil || herr != nil {
				rejected++
			}
			n++
		}
	}
	rec.Bulk(n, n, "header-sweep")
	rec.Exhaustive("(version byte, opcode) headers", n)
	rec.AddSample(fmt.Sprintf("header sweep: %d (version byte, opcode) pairs, %d rejected; e.g. 04 00 0000 ff 00000000 (REVISE under OSS v4) must be rejected by DecodeFrame", n, rejected))
}

// the shape enumeration of C01 against the reference encoder, both directions
func TestC02Shapes(t *testing.T) {
	rec := stats.For("C02")
	sh, nsh := shard()
	idx := 0
	var n int64
	codec := frame.NewRawCodec()
	forEachShape(func(v primitive.ProtocolVersion, m message.Message, what string) bool {
		idx++
		if idx%nsh != sh {
			return true
		}
		f := frame.NewFrame(v, 5, m.DeepCopyMessage())
		enc, err := encodeFrame(codec, f)
		if err != nil {
			rec.Violation("shape-encode", fmt.Sprintf("v%d %s: EncodeFrame failed: %v", v, what, err))
			t.Errorf("v%d %s: EncodeFrame failed: %v", v, what, err)
			return false
		}
		re, err := ref.EncodeFrame(f)
		if err != nil {
			t.Errorf("harness defect: reference encoder rejects shape v%d %s: %v", v, what, err)
			return false
		}
		if d := re.Match(enc); d != "" {
			rec.Violation("shape-bytes", fmt.Sprintf("v%d %s: %s", v, what, d))
			t.Errorf("v%d %s: bytes differ from the specification: %s", v, what, d)
			return false
		}
		dec, err := codec.DecodeFrame(bytes.NewReader(re.Flat([]int{1, 3})))
		if err != nil || diffFrames(f, dec) != "" {
			rec.Violation("shape-decode", fmt.Sprintf("v%d %s: specification bytes decode to a different frame (%v)", v, what, err))
			t.Errorf("v%d %s: specification bytes decode to a different frame (%v)", v, what, err)
			return false
		}
		n++
		return true
	})
	rec.Bulk(n, n, "shapes")
	rec.Exhaustive("optional-field subsets of QueryOptions/Batch/RowsMetadata x versions vs the reference encoder (this shard's share)", n)
}

var variantMu sync.Mutex

// Specification-legal encodings the library's own encoder never emits must decode to the frame they denote:
// per-column table specs although all columns share a table (global-tables flag clear), type option 0x000A (Text) for
// varchar columns in protocol v2, a non-zero byte other than 1 for a true <data_present>.
func c02SpecForms(rt *rapid.T) {
	rec := stats.For("C02")
	v := gen.Version(rt)
	form := rapid.SampledFrom([]string{"per-column-table-spec", "v2-text-code", "true-byte"}).Draw(rt, "form")
	if form == "v2-text-code" {
		v = primitive.ProtocolVersion2
	}
	o := c02Opts()
	names := []string{"RESULT/Rows", "RESULT/Prepared"}
	if form == "true-byte" {
		names = []string{"ERROR/ReadTimeout"}
		if gen.AtLeast(v, 4) {
			names = append(names, "ERROR/ReadFailure")
		}
	}
	name := rapid.SampledFrom(names).Draw(rt, "kind")
	var f *frame.Frame
	for _, k := range gen.KindsFor(v) {
		if k.Name == name {
			f = gen.FrameOf(rt, v, k, k.Draw(rt, v, o), false).Frame
		}
	}
	if f == nil {
		rt.Fatalf("harness defect: kind %s not defined for %v", name, v)
	}
	variantMu.Lock()
	defer variantMu.Unlock()
	switch form {
	case "per-column-table-spec":
		ref.Variant = ref.Variants{PerColumnTableSpec: true}
	case "v2-text-code":
		ref.Variant = ref.Variants{V2TextCode: true}
	default:
		ref.Variant = ref.Variants{TrueByte: rapid.SampledFrom([]byte{1, 2, 0x7f, 0x80, 0xff}).Draw(rt, "trueByte")}
	}
	enc, err := ref.EncodeFrame(f)
	ref.Variant = ref.Variants{}
	if err != nil {
		rt.Fatalf("harness defect: %v", err)
	}
	std, _ := ref.EncodeFrame(f)
	spec := enc.Flat(nil)
	differs := !bytes.Equal(spec, std.Flat(nil))
	dec, err := frame.NewRawCodec().DecodeFrame(bytes.NewReader(spec))
	if err != nil {
		rt.Fatalf("specification-legal bytes (%s) do not decode: %v\n%s\nbytes %x", form, err, canon.Render(f), clipBytes(spec))
	}
	want := f.DeepCopy()
	want.Header.BodyLength = dec.Header.BodyLength
	if d := diffFrames(want, dec); d != "" {
		rt.Fatalf("specification-legal bytes (%s) decode to a different frame: %s\n%s", form, d, canon.Render(f))
	}
	rec.Case(differs, stats.Hash(spec, []byte(form)), func() string { return fmt.Sprintf("spec form %s v%d: %x", form, v, clipBytes(spec)) }, "form:"+form, fmt.Sprintf("form-differs:%v", differs))
}

func TestC02SpecForms(t *testing.T) { rapid.Check(t, c02SpecForms) }
