package props

// C05, declared body lengths near the protocol's limit ("the body length is limited to 256MB" = 268435456 bytes, spec
// section 2.5): DiscardBody after a decoded header consumes exactly the declared length, from a stream and from a seekable
// source. No body of that size is materialised: the stream is an endless run of zeros behind a counter, the seekable source
// only keeps a position. (DecodeRawBody would allocate the body; it is exercised up to a few MiB elsewhere.)

import (
	"bytes"
	"fmt"
	"io"
	"testing"

	"github.com/datastax/go-cassandra-native-protocol/frame"
	"github.com/datastax/go-cassandra-native-protocol/message"
	"github.com/datastax/go-cassandra-native-protocol/primitive"

	"verifharness/stats"
)

type zeroStream struct{ n int64 }

func (z *zeroStream) Read(p []byte) (int, error) {
	for i := range p {
		p[i] = 0
	}
	z.n += int64(len(p))
	return len(p), nil
}

type virtualSeeker struct{ pos, size int64 }

func (v *virtualSeeker) Read(p []byte) (int, error) {
	if v.pos >= v.size {
		return 0, io.EOF
	}
	n := int64(len(p))
	if n > v.size-v.pos {
		n = v.size - v.pos
	}
	for i := int64(0); i < n; i++ {
		p[i] = 0
	}
	v.pos += n
	return int(n), nil
}

func (v *virtualSeeker) Seek(off int64, whence int) (int64, error) {
	switch whence {
	case io.SeekStart:
		v.pos = off
	case io.SeekCurrent:
		v.pos += off
	default:
		v.pos = v.size + off
	}
	if v.pos < 0 {
		return 0, fmt.Errorf("negative position")
	}
	return v.pos, nil
}

func TestC05LargeBodies(t *testing.T) {
	if k, _ := shard(); k != 0 {
		t.Skip("enumerated once, by shard 0")
	}
	rec := stats.For("C05")
	codec := newRawCodec(compNone)
	lengths := []int32{1 << 20, 100_000_000, 255_999_999, 256_000_000, 256_000_001, 260_000_000, 1<<28 - 1, 1 << 28}
	for _, v := range []primitive.ProtocolVersion{primitive.ProtocolVersion2, primitive.ProtocolVersion4, primitive.ProtocolVersion5, primitive.ProtocolVersionDse2} {
		for _, l := range lengths {
			f := frame.NewFrame(v, 1, &message.Options{})
			f.Header.BodyLength = l
			var hb bytes.Buffer
			if err := codec.EncodeHeader(f.Header, &hb); err != nil {
				t.Fatalf("EncodeHeader with body length %d: %v", l, err)
			}
			h, err := codec.DecodeHeader(bytes.NewReader(hb.Bytes()))
			if err != nil || h.BodyLength != l {
				rec.Violation("large-body", fmt.Sprintf("v%d: a header declaring a %d-byte body (within the 256 MiB limit) is refused or misread: %v", v, l, err))
				t.Fatalf("v%d: a header declaring a %d-byte body (within the 256 MiB limit) is refused or misread: %v", v, l, err)
			}
			zs := &zeroStream{}
			if err := codec.DiscardBody(h, struct{ io.Reader }{zs}); err != nil {
				rec.Violation("large-body", fmt.Sprintf("v%d: DiscardBody of a declared %d-byte body from a stream: %v", v, l, err))
				t.Fatalf("v%d: DiscardBody of a declared %d-byte body (within the 256 MiB limit) from a stream failed: %v", v, l, err)
			}
			if zs.n < int64(l) || zs.n > int64(l)+1<<20 { // io.CopyN over a LimitReader reads exactly l; allow a buffered tail
				t.Fatalf("v%d: DiscardBody of a declared %d-byte body read %d bytes from the stream", v, l, zs.n)
			}
			vs := &virtualSeeker{size: int64(l) + 10}
			if err := codec.DiscardBody(h, vs); err != nil || vs.pos != int64(l) {
				rec.Violation("large-body", fmt.Sprintf("v%d: DiscardBody of a declared %d-byte body from a seekable source: err=%v, position %d", v, l, err, vs.pos))
				t.Fatalf("v%d: DiscardBody of a declared %d-byte body (within the 256 MiB limit) from a seekable source: err=%v, position %d", v, l, err, vs.pos)
			}
			rec.Case(true, stats.HashString(fmt.Sprintf("largebody/%d/%d", v, l)), func() string {
				return fmt.Sprintf("DiscardBody after a header declaring %d bytes (v%d): stream and seekable source consumed exactly that", l, v)
			}, "large-declared-body")
		}
	}
}
