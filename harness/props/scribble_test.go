package props

import (
	"math/big"
	"reflect"
)

var (
	bigIntPtrType   = reflect.TypeOf((*big.Int)(nil))
	bigFloatPtrType = reflect.TypeOf((*big.Float)(nil))
)

// scribble overwrites, in place, every piece of mutable memory reachable from v (what a caller that owns a decoded value
// is free to do): big numbers are changed through their pointers, slice and array elements are overwritten, map values
// are replaced, pointed-to scalars are altered. Strings and unexported fields are left alone.
func scribble(v reflect.Value, depth int) {
	if !v.IsValid() || depth > 12 {
		return
	}
	switch v.Kind() {
	case reflect.Interface:
		if !v.IsNil() {
			scribble(v.Elem(), depth+1)
		}
	case reflect.Ptr:
		if v.IsNil() {
			return
		}
		switch v.Type() {
		case bigIntPtrType:
			x := v.Interface().(*big.Int)
			x.Add(x, big.NewInt(41)).Neg(x)
			return
		case bigFloatPtrType:
			x := v.Interface().(*big.Float)
			if !x.IsInf() {
				x.Add(x, big.NewFloat(41.5))
			}
			return
		}
		e := v.Elem()
		scribble(e, depth+1)
		if e.CanSet() {
			switch e.Kind() {
			case reflect.Int, reflect.Int8, reflect.Int16, reflect.Int32, reflect.Int64:
				e.SetInt(e.Int() ^ 0x55)
			case reflect.Uint, reflect.Uint8, reflect.Uint16, reflect.Uint32, reflect.Uint64:
				e.SetUint(e.Uint() ^ 0x55)
			case reflect.Bool:
				e.SetBool(!e.Bool())
			case reflect.Float32, reflect.Float64:
				e.SetFloat(e.Float() + 1.5)
			}
		}
	case reflect.Slice:
		if v.IsNil() {
			return
		}
		fallthrough
	case reflect.Array:
		for i := 0; i < v.Len(); i++ {
			e := v.Index(i)
			switch e.Kind() {
			case reflect.Uint8:
				if e.CanSet() {
					e.SetUint(e.Uint() ^ 0xa5)
				}
			case reflect.Int32: // []rune
				if e.CanSet() {
					e.SetInt(e.Int() ^ 1)
				}
			default:
				scribble(e, depth+1)
			}
		}
	case reflect.Map:
		if v.IsNil() {
			return
		}
		for _, k := range v.MapKeys() {
			scribble(v.MapIndex(k), depth+1) // reaches what the stored value points to
		}
	case reflect.Struct:
		for i := 0; i < v.NumField(); i++ {
			if v.Type().Field(i).PkgPath != "" {
				continue
			}
			scribble(v.Field(i), depth+1)
		}
	}
}
