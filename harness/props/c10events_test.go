//go:build verif

package props

// C10, event clause under load: a client with a small event queue (its capacity follows MaxInFlight) whose application
// only uses event handlers and never drains EventChannel(). A raw server peer pushes more events than the queue holds,
// then answers a barrier request. Every pushed event must reach the handlers, in order; what the event channel holds is
// a subsequence of the pushed events in order (the library drops events from a full queue by design) and never a
// response; the barrier request receives exactly its response.

import (
	"context"
	"encoding/json"
	"fmt"
	"net"
	"strings"
	"sync"
	"testing"
	"time"

	"github.com/datastax/go-cassandra-native-protocol/client"
	"github.com/datastax/go-cassandra-native-protocol/frame"
	"github.com/datastax/go-cassandra-native-protocol/message"
	"github.com/datastax/go-cassandra-native-protocol/primitive"
	"pgregory.net/rapid"

	"verifharness/ref"
	"verifharness/stats"
)

type c10EventsSpec struct {
	Version     int
	MaxInFlight int
	Events      int
	Batch       bool
}

func c10EventsSession(args []string, _ []byte) string {
	var spec c10EventsSpec
	if err := json.Unmarshal([]byte(args[0]), &spec); err != nil {
		return "FAIL: harness: " + err.Error()
	}
	v := primitive.ProtocolVersion(spec.Version)
	const T = 10 * time.Second
	ln, err := net.Listen("tcp", "127.0.0.1:0")
	if err != nil {
		return "FAIL: harness: " + err.Error()
	}
	defer ln.Close()
	peer := make(chan string, 1)
	release := make(chan struct{})
	defer close(release)
	go func() {
		c, err := ln.Accept()
		if err != nil {
			peer <- "harness: accept: " + err.Error()
			return
		}
		defer c.Close()
		l := newRawLink(c)
		l.setDeadline(6 * T)
		if _, err := l.serverHandshake(false); err != nil {
			peer <- "raw server: " + err.Error()
			return
		}
		e, err := l.readEnvelope()
		if err != nil {
			peer <- "raw server: reading the barrier request: " + err.Error()
			return
		}
		var out [][]byte
		for i := 1; i <= spec.Events; i++ {
			f := frame.NewFrame(v, -1, &message.StatusChangeEvent{ChangeType: primitive.StatusChangeTypeUp, Address: &primitive.Inet{Addr: net.IPv4(10, 0, 0, byte(i)), Port: int32(i)}})
			enc, err := ref.EncodeFrame(f)
			if err != nil {
				peer <- "harness: " + err.Error()
				return
			}
			out = append(out, enc.Flat(nil))
		}
		enc, err := ref.EncodeFrame(taggedFinal(v, e.Stream, "barrier"))
		if err != nil {
			peer <- "harness: " + err.Error()
			return
		}
		out = append(out, enc.Flat(nil))
		if spec.Batch {
			err = l.writeEnvelopes(out, false, nil, true)
		} else {
			for _, o := range out {
				if err = l.writeEnvelopes([][]byte{o}, false, nil, true); err != nil {
					break
				}
			}
		}
		if err != nil {
			peer <- "raw server: write: " + err.Error()
			return
		}
		peer <- ""
		<-release
	}()
	var mu sync.Mutex
	var handled []int
	cl := client.NewCqlClient(ln.Addr().String(), nil)
	cl.ReadTimeout = 3 * T
	cl.MaxInFlight = spec.MaxInFlight
	cl.EventHandlers = []client.EventHandler{func(ev *frame.Frame, _ *client.CqlClientConnection) {
		mu.Lock()
		defer mu.Unlock()
		if m, ok := ev.Body.Message.(*message.StatusChangeEvent); ok {
			handled = append(handled, int(m.Address.Port))
		} else {
			handled = append(handled, -1)
		}
	}}
	ctx, cancel := context.WithCancel(context.Background())
	defer cancel()
	var cc *client.CqlClientConnection
	if err := within(T, "ConnectAndInit", func() (err error) { cc, err = cl.ConnectAndInit(ctx, v, client.ManagedStreamId); return }); err != nil {
		return "FAIL: handshake with the raw server failed: " + err.Error()
	}
	defer cc.Close()
	req, err := cc.Send(frame.NewFrame(v, client.ManagedStreamId, &message.Query{Query: "barrier"}))
	if err != nil {
		return "FAIL: Send: " + err.Error()
	}
	var f *frame.Frame
	var rerr error
	if err := within(T, "Receive", func() error { f, rerr = cc.Receive(req); return nil }); err != nil || rerr != nil || f == nil {
		return fmt.Sprintf("FAIL: the barrier response did not arrive: %v %v", err, rerr)
	}
	if tagOf(f) != "barrier" {
		return "FAIL: the barrier request received " + tagOf(f)
	}
	if p := <-peer; p != "" {
		return "FAIL: " + p
	}
	// frames are processed in arrival order: once the barrier response is here, every event before it has been handled
	mu.Lock()
	got := append([]int{}, handled...)
	mu.Unlock()
	var want []int
	for i := 1; i <= spec.Events; i++ {
		want = append(want, i)
	}
	if fmt.Sprint(got) != fmt.Sprint(want) {
		return fmt.Sprintf("FAIL: the server pushed events %v; the event handler saw %v (event queue capacity %d, nobody reading the event channel)", want, got, spec.MaxInFlight)
	}
	last := 0
	n := 0
	for {
		select {
		case ev := <-cc.EventChannel():
			if ev == nil {
				return "FAIL: nil frame on the event channel"
			}
			m, ok := ev.Body.Message.(*message.StatusChangeEvent)
			if !ok || ev.Header.OpCode != primitive.OpCodeEvent {
				return fmt.Sprintf("FAIL: a non-event frame (%s) appeared on the event channel", tagOf(ev))
			}
			if int(m.Address.Port) <= last || int(m.Address.Port) > spec.Events {
				return fmt.Sprintf("FAIL: event channel delivered event %d after event %d (pushed 1..%d)", m.Address.Port, last, spec.Events)
			}
			last = int(m.Address.Port)
			n++
			continue
		default:
		}
		break
	}
	if n == 0 {
		return "FAIL: the event channel holds none of the pushed events"
	}
	return "OK"
}

func init() { workerHandlers["c10events"] = c10EventsSession }

func c10Events(rt *rapid.T) {
	if !everyNth("c10Events", 1, 3) {
		return
	}
	defer noteFailure()
	rec := stats.For("C10")
	spec := c10EventsSpec{Version: int(rapid.SampledFrom(allVersions).Draw(rt, "version")), MaxInFlight: rapid.IntRange(1, 4).Draw(rt, "maxInFlight"), Batch: rapid.Bool().Draw(rt, "batch")}
	spec.Events = spec.MaxInFlight + rapid.IntRange(0, 5).Draw(rt, "beyondCapacity")
	sj, _ := json.Marshal(spec)
	verdict := isolated("c10events", []string{string(sj)}, nil)
	verdict = harnessTrouble(verdict)
	if strings.HasPrefix(verdict, "FAIL:") {
		rt.Fatalf("%s\nspec %s", verdict, sj)
	}
	if strings.HasPrefix(verdict, "SKIP:") {
		rec.Case(false, 0, nil, "skipped")
		return
	}
	rec.Case(spec.Events > spec.MaxInFlight, stats.HashString("events/"+string(sj)), func() string { return "events beyond the queue: " + string(sj) }, "events-overflow")
}

func TestC10Events(t *testing.T) { rapid.Check(t, c10Events) }

// A response with a fatal error code (SERVER_ERROR, PROTOCOL_ERROR, AUTH_ERROR) makes the client drop the connection -
// after the response has been delivered to its request like any other. k requests, the last one answered by such an
// error: every request receives exactly its own response.
type c10FatalSpec struct {
	Version int
	K       int
	Code    int // 0 server error, 1 protocol error, 2 authentication error
	Batch   bool
}

func c10FatalSession(args []string, _ []byte) string {
	var spec c10FatalSpec
	if err := json.Unmarshal([]byte(args[0]), &spec); err != nil {
		return "FAIL: harness: " + err.Error()
	}
	v := primitive.ProtocolVersion(spec.Version)
	const T = 10 * time.Second
	ln, err := net.Listen("tcp", "127.0.0.1:0")
	if err != nil {
		return "FAIL: harness: " + err.Error()
	}
	defer ln.Close()
	peer := make(chan string, 1)
	release := make(chan struct{})
	defer close(release)
	go func() {
		c, err := ln.Accept()
		if err != nil {
			peer <- "harness: accept: " + err.Error()
			return
		}
		defer c.Close()
		l := newRawLink(c)
		l.setDeadline(6 * T)
		if _, err := l.serverHandshake(false); err != nil {
			peer <- "raw server: " + err.Error()
			return
		}
		var out [][]byte
		for i := 0; i < spec.K; i++ {
			e, err := l.readEnvelope()
			if err != nil {
				peer <- fmt.Sprintf("raw server: reading request %d: %v", i, err)
				return
			}
			var f *frame.Frame
			if i < spec.K-1 {
				f = taggedFinal(v, e.Stream, fmt.Sprintf("r%d", i))
			} else {
				msg := fmt.Sprintf("fatal-%d", i)
				switch spec.Code {
				case 0:
					f = frame.NewFrame(v, e.Stream, &message.ServerError{ErrorMessage: msg})
				case 1:
					f = frame.NewFrame(v, e.Stream, &message.ProtocolError{ErrorMessage: msg})
				default:
					f = frame.NewFrame(v, e.Stream, &message.AuthenticationError{ErrorMessage: msg})
				}
			}
			enc, err := ref.EncodeFrame(f)
			if err != nil {
				peer <- "harness: " + err.Error()
				return
			}
			out = append(out, enc.Flat(nil))
		}
		if spec.Batch {
			err = l.writeEnvelopes(out, false, nil, true)
		} else {
			for _, o := range out {
				if err = l.writeEnvelopes([][]byte{o}, false, nil, true); err != nil {
					break
				}
			}
		}
		if err != nil {
			peer <- "harness: raw server: write: " + err.Error() // the client may already have dropped the connection
			return
		}
		peer <- ""
		<-release
	}()
	cl := client.NewCqlClient(ln.Addr().String(), nil)
	cl.ReadTimeout = 3 * T
	ctx, cancel := context.WithCancel(context.Background())
	defer cancel()
	var cc *client.CqlClientConnection
	if err := within(T, "ConnectAndInit", func() (err error) { cc, err = cl.ConnectAndInit(ctx, v, client.ManagedStreamId); return }); err != nil {
		return "FAIL: handshake with the raw server failed: " + err.Error()
	}
	defer cc.Close()
	var reqs []client.InFlightRequest
	for i := 0; i < spec.K; i++ {
		r, err := cc.Send(frame.NewFrame(v, client.ManagedStreamId, &message.Query{Query: fmt.Sprintf("q%d", i)}))
		if err != nil {
			return "FAIL: Send: " + err.Error()
		}
		reqs = append(reqs, r)
	}
	for i, r := range reqs {
		select {
		case f, ok := <-r.Incoming():
			if !ok || f == nil {
				return fmt.Sprintf("FAIL: request %d of %d (stream %d) was closed without receiving its response (Err=%v); the last response carries a fatal error code", i, spec.K, r.StreamId(), r.Err())
			}
			want := fmt.Sprintf("r%d", i)
			got := tagOf(f)
			if e, ok := f.Body.Message.(message.Error); ok {
				got = e.GetErrorMessage()
				want = fmt.Sprintf("fatal-%d", i)
			}
			if i == spec.K-1 {
				want = fmt.Sprintf("fatal-%d", i)
			}
			if got != want {
				return fmt.Sprintf("FAIL: request %d received %q, expected %q", i, got, want)
			}
		case <-time.After(T):
			return fmt.Sprintf("FAIL: request %d of %d received nothing within %v", i, spec.K, T)
		}
	}
	return "OK"
}

func init() { workerHandlers["c10fatal"] = c10FatalSession }

func c10Fatal(rt *rapid.T) {
	if !everyNth("c10Fatal", 1, 3) {
		return
	}
	defer noteFailure()
	rec := stats.For("C10")
	spec := c10FatalSpec{Version: int(rapid.SampledFrom(allVersions).Draw(rt, "version")), K: rapid.IntRange(1, 4).Draw(rt, "k"),
		Code: rapid.IntRange(0, 2).Draw(rt, "code"), Batch: rapid.Bool().Draw(rt, "batch")}
	sj, _ := json.Marshal(spec)
	verdict := isolated("c10fatal", []string{string(sj)}, nil)
	verdict = harnessTrouble(verdict)
	if strings.HasPrefix(verdict, "FAIL:") {
		rt.Fatalf("%s\nspec %s", verdict, sj)
	}
	if strings.HasPrefix(verdict, "SKIP:") {
		rec.Case(false, 0, nil, "skipped")
		return
	}
	rec.Case(true, stats.HashString("fatal/"+string(sj)), func() string { return "fatal error as the last response: " + string(sj) }, "fatal-error-response")
}

func TestC10Fatal(t *testing.T) { rapid.Check(t, c10Fatal) }
