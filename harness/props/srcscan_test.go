package props

import (
	"go/ast"
	"go/constant"
	"go/importer"
	"go/parser"
	"go/token"
	"go/types"
	"os"
	"path/filepath"
	"sort"
	"strings"
	"sync"
)

// declConst is a constant of a named type declared in primitive/constants.go, read from /repo's working tree.
type declConst struct {
	Type  string
	Name  string
	IsStr bool
	Str   string
	Num   uint64
}

type scannedPkg struct {
	fset  *token.FileSet
	files []*ast.File
	pkg   *types.Package
	info  *types.Info
	err   error
}

var (
	scanMu    sync.Mutex
	scanCache = map[string]*scannedPkg{}
)

// scanPackage parses the non-test files of a /repo package with the source importer (offline).
func scanPackage(rel string) *scannedPkg {
	scanMu.Lock()
	defer scanMu.Unlock()
	if s, ok := scanCache[rel]; ok {
		return s
	}
	s := &scannedPkg{fset: token.NewFileSet()}
	scanCache[rel] = s
	dir := filepath.Join(repoDir(), rel)
	ents, err := os.ReadDir(dir)
	if err != nil {
		s.err = err
		return s
	}
	for _, e := range ents {
		n := e.Name()
		if !strings.HasSuffix(n, ".go") || strings.HasSuffix(n, "_test.go") {
			continue
		}
		f, err := parser.ParseFile(s.fset, filepath.Join(dir, n), nil, parser.ParseComments)
		if err != nil {
			s.err = err
			return s
		}
		// honour build tags crudely: skip files guarded by "!verif" when a verif twin exists is not needed for scanning
		s.files = append(s.files, f)
	}
	return s
}

// typeCheck type-checks a scanned package with the source importer (offline; slow: it parses the imported std packages).
func (s *scannedPkg) typeCheck(rel string) {
	if s.info != nil || s.err != nil {
		return
	}
	s.info = &types.Info{Defs: map[*ast.Ident]types.Object{}}
	conf := types.Config{Importer: importer.ForCompiler(s.fset, "source", nil), Error: func(error) {}}
	s.pkg, _ = conf.Check("github.com/datastax/go-cassandra-native-protocol/"+rel, s.fset, s.files, s.info)
}

// declaredConstants lists every constant of a named type declared in primitive/constants.go.
func declaredConstants() ([]declConst, error) {
	s := scanPackage("primitive")
	if s.err != nil {
		return nil, s.err
	}
	s.typeCheck("primitive")
	var out []declConst
	for id, obj := range s.info.Defs {
		c, ok := obj.(*types.Const)
		if !ok || c == nil {
			continue
		}
		if filepath.Base(s.fset.Position(id.Pos()).Filename) != "constants.go" {
			continue
		}
		named, ok := c.Type().(*types.Named)
		if !ok {
			continue
		}
		d := declConst{Type: named.Obj().Name(), Name: c.Name()}
		switch c.Val().Kind() {
		case constant.String:
			d.IsStr = true
			d.Str = constant.StringVal(c.Val())
		case constant.Int:
			v, _ := constant.Uint64Val(c.Val())
			d.Num = v
		default:
			continue
		}
		out = append(out, d)
	}
	sort.Slice(out, func(i, j int) bool {
		if out[i].Type != out[j].Type {
			return out[i].Type < out[j].Type
		}
		return out[i].Name < out[j].Name
	})
	return out, nil
}
