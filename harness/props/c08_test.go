package props

// C08: compression is lossless for every input.
// Generated domain: byte strings by size (0,1,2..15, 2^k+-1, up to 131071 for the raw segment format and up to 4 MiB -
// thorough 16 MiB - for the length-prefixed frame-body format) x content class (all-equal, short period, text, random,
// half/half, one long run + random tail), LZ4 raw and with length, Snappy with length.
// Oracle: D(C(x)) == x; LZ4 length prefix is big-endian len(x); independent reference decoders expand the library's
// output to x; the library's decompressors expand blocks produced by independent reference encoders to x.

import (
	"bytes"
	"encoding/binary"
	"fmt"
	"testing"

	"github.com/datastax/go-cassandra-native-protocol/compression/lz4"
	"github.com/datastax/go-cassandra-native-protocol/compression/snappy"
	"pgregory.net/rapid"

	"verifharness/gen"
	"verifharness/kf"
	"verifharness/ref"
	"verifharness/stats"
)

func c08Content(rt *rapid.T, n int) ([]byte, string) {
	class := rapid.IntRange(0, 7).Draw(rt, "class")
	seed := rapid.Uint64().Draw(rt, "seed")
	switch class {
	case 6: // incompressible, then a short compressible tail: a match is being emitted when the output is about as long as the input
		tail := rapid.SampledFrom([]int{5, 12, 13, 16, 32, 64, 200, 1000}).Draw(rt, "tail")
		if tail > n {
			tail = n
		}
		return append(gen.Expand(3, seed, n-tail), gen.Expand(rapid.IntRange(0, 1).Draw(rt, "tailClass"), seed, tail)...), "random+run"
	case 7: // short runs scattered through incompressible data
		b := gen.Expand(3, seed, n)
		for k, at := 0, 0; k < 8 && n > 64; k++ {
			at = (at + int(seed>>uint(8*k)&0xffff)) % (n - 32)
			for j := 0; j < 24; j++ {
				b[at+j] = b[at]
			}
		}
		return b, "random-with-runs"
	case 4:
		return append(gen.Expand(0, seed, n/2), gen.Expand(3, seed, n-n/2)...), "half-half"
	case 5: // one long run + short random tail: ratios up to ~250:1
		tail := rapid.IntRange(0, 40).Draw(rt, "tail")
		if tail > n {
			tail = n
		}
		return append(gen.Expand(0, seed, n-tail), gen.Expand(3, seed, tail)...), "run+tail"
	}
	return gen.Expand(class, seed, n), [...]string{"all-equal", "period", "text", "random"}[class]
}

func ratioClass(n, c int) string {
	if n == 0 || c == 0 {
		return "ratio:n/a"
	}
	r := float64(n) / float64(c)
	switch {
	case r > 100:
		return "ratio:>100"
	case r > 8:
		return "ratio:8-100"
	case r > 2:
		return "ratio:2-8"
	case r >= 1:
		return "ratio:1-2"
	}
	return "ratio:<1"
}

func c08Size(rt *rapid.T, max int) int {
	switch rapid.IntRange(0, 4).Draw(rt, "sizemode") {
	case 0:
		return rapid.IntRange(0, 16).Draw(rt, "size")
	case 1:
		k := rapid.IntRange(4, 24).Draw(rt, "pow")
		n := 1<<uint(k) + rapid.IntRange(-1, 1).Draw(rt, "delta")
		if n > max {
			n = max
		}
		return n
	case 2:
		return rapid.IntRange(0, 5000).Draw(rt, "size")
	default:
		return rapid.IntRange(0, max).Draw(rt, "size")
	}
}

func c08Property(rt *rapid.T) {
	rec := stats.For("C08")
	format := rapid.SampledFrom([]string{"lz4-raw", "lz4-len", "snappy-len"}).Draw(rt, "format")
	max := 131071
	if format != "lz4-raw" {
		max = 1 << 20
		if rapid.IntRange(0, 9).Draw(rt, "big") == 0 {
			max = 4 << 20
			if thorough() {
				max = 16 << 20
			}
		}
	}
	n := c08Size(rt, max)
	x, cname := c08Content(rt, n)
	desc := func() string { return fmt.Sprintf("%s size=%d content=%s", format, n, cname) }
	var comp, back bytes.Buffer
	var err error
	src, _, _ := streamSource(rt, x, "compressSource")
	switch format {
	case "lz4-raw":
		err = lz4.Compressor{}.Compress(src, &comp)
	case "lz4-len":
		err = lz4.Compressor{}.CompressWithLength(src, &comp)
	default:
		err = snappy.Compressor{}.CompressWithLength(src, &comp)
	}
	if err != nil {
		rt.Fatalf("%s: compression failed: %v", desc(), err)
	}
	c := append([]byte{}, comp.Bytes()...)
	// independent decoder on the library's output
	var refOut []byte
	var rerr error
	block := c
	switch format {
	case "lz4-len":
		if len(c) < 4 {
			rt.Fatalf("%s: output shorter than the length prefix", desc())
		}
		if got := binary.BigEndian.Uint32(c[:4]); int(got) != len(x) {
			rt.Fatalf("%s: length prefix is %d (big-endian), input has %d bytes", desc(), got, len(x))
		}
		block = c[4:]
		fallthrough
	case "lz4-raw":
		refOut, rerr = ref.LZ4DecodeBlock(block, len(x)+64)
		if (rerr != nil || !bytes.Equal(refOut, x)) && len(x) > 65536 && kf.Open("DEP-lz4-offset-wrap-65536") && lz4OffsetWrap(block, x) {
			rec.Excluded("DEP-lz4-offset-wrap-65536")
			return
		}
	default:
		refOut, rerr = ref.SnappyDecodeBlock(c, len(x)+64)
	}
	if rerr != nil || !bytes.Equal(refOut, x) {
		rt.Fatalf("%s: the compressed form does not expand to the input per the independent decoder (err=%v, %d bytes)", desc(), rerr, len(refOut))
	}
	// library round trip (the source is sometimes a reader with short reads, like a network connection)
	// (through one of the reader types callers use: *bytes.Buffer, *bytes.Reader, bufio.Reader, a plain io.Reader, short reads)
	in, _, _ := streamSource(rt, c, "decompressSource")
	switch format {
	case "lz4-raw":
		err = lz4.Compressor{}.Decompress(in, &back)
	case "lz4-len":
		err = lz4.Compressor{}.DecompressWithLength(in, &back)
	default:
		err = snappy.Compressor{}.DecompressWithLength(in, &back)
	}
	if err != nil {
		rt.Fatalf("%s (compressed to %d bytes): decompression of the compressor's own output failed: %v", desc(), len(c), err)
	}
	if !bytes.Equal(back.Bytes(), x) {
		rt.Fatalf("%s: D(C(x)) != x (%d -> %d -> %d bytes)", desc(), len(x), len(c), back.Len())
	}
	// foreign conforming inputs
	var foreign [][]byte
	switch format {
	case "lz4-raw":
		foreign = [][]byte{ref.LZ4EncodeLiteral(x), ref.LZ4EncodeRuns(x)}
	case "lz4-len":
		for _, b := range [][]byte{ref.LZ4EncodeLiteral(x), ref.LZ4EncodeRuns(x)} {
			foreign = append(foreign, append(binary.BigEndian.AppendUint32(nil, uint32(len(x))), b...))
		}
	default:
		foreign = [][]byte{ref.SnappyEncodeLiteral(x)}
	}
	for i, fb := range foreign {
		var out bytes.Buffer
		fin, _, _ := streamSource(rt, fb, fmt.Sprintf("foreignSource%d", i))
		switch format {
		case "lz4-raw":
			err = lz4.Compressor{}.Decompress(fin, &out)
		case "lz4-len":
			err = lz4.Compressor{}.DecompressWithLength(fin, &out)
		default:
			err = snappy.Compressor{}.DecompressWithLength(fin, &out)
		}
		if err != nil {
			rt.Fatalf("%s: a conforming block produced by independent encoder #%d (%d bytes) is rejected: %v", desc(), i, len(fb), err)
		}
		if !bytes.Equal(out.Bytes(), x) {
			rt.Fatalf("%s: a conforming block produced by independent encoder #%d decompresses to different bytes", desc(), i)
		}
	}
	rec.Case(n >= 1, stats.Hash([]byte(format), x), desc, "format:"+format, "content:"+cname, ratioClass(len(x), len(block)), sizeClass(n))
}

func TestC08(t *testing.T) { rapid.Check(t, c08Property) }
