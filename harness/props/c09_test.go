//go:build verif

package props

// C09: stream ids: unique while in flight, bounded, recycled, refused when exhausted.
// Deterministic part (through the build-tagged shim over the library's in-flight handler): histories over
// {send managed, send explicit k, deliver final / non-final page / unknown id, drain-and-refill} - exhaustively for N<=3 up
// to a depth bound, rapid-generated long histories for N up to 32767 - against a reference model of the unanswered set.
// Concurrent part: M sender goroutines + a responder on the shim and on real connections, with generated schedules at the
// hook points; per-id counters of accepted-unanswered requests must never exceed 1 and ids must be conserved.

import (
	"context"
	"fmt"
	"sync"
	"sync/atomic"
	"testing"
	"time"

	"github.com/datastax/go-cassandra-native-protocol/client"
	"github.com/datastax/go-cassandra-native-protocol/frame"
	"github.com/datastax/go-cassandra-native-protocol/message"
	"github.com/datastax/go-cassandra-native-protocol/primitive"
	"pgregory.net/rapid"

	"verifharness/stats"
)

type c09Act struct {
	Kind string // "managed" | "explicit" | "final" | "page" | "unknown" | "drain"
	Id   int16
}

func (a c09Act) String() string {
	if a.Kind == "managed" || a.Kind == "drain" {
		return a.Kind
	}
	return fmt.Sprintf("%s(%d)", a.Kind, a.Id)
}

func reqFrame(id int16) *frame.Frame {
	return frame.NewFrame(primitive.ProtocolVersionDse2, id, &message.Query{Query: "q"})
}

func finalFrame(id int16) *frame.Frame {
	return frame.NewFrame(primitive.ProtocolVersionDse2, id, &message.VoidResult{})
}

// finalFrameV: the forms a final response takes - a plain result, an error, the last page of a continuous-paging
// response without and with a paging state (the latter when the server stops at max_pages).
func finalFrameV(id int16, pageNo int32, variant int) *frame.Frame {
	switch ((variant % 4) + 4) % 4 {
	case 0:
		return finalFrame(id)
	case 1:
		return frame.NewFrame(primitive.ProtocolVersionDse2, id, &message.Unavailable{ErrorMessage: "u", Consistency: primitive.ConsistencyLevelOne, Required: 1, Alive: 0})
	case 2:
		return pageFrame(id, pageNo+1, true)
	default:
		f := pageFrame(id, pageNo+1, true)
		f.Body.Message.(*message.RowsResult).Metadata.PagingState = []byte{0xca, 0xfe}
		return f
	}
}

func pageFrame(id int16, pageNo int32, last bool) *frame.Frame {
	return frame.NewFrame(primitive.ProtocolVersionDse2, id, &message.RowsResult{Metadata: &message.RowsMetadata{ColumnCount: 0, ContinuousPageNumber: pageNo, LastContinuousPage: last}})
}

// c09Run executes a history on a fresh handler and checks every step against the model. Returns "" or a failure.
func c09Run(n int, hist []c09Act) (fail string, interesting bool) {
	ctx, cancel := context.WithCancel(context.Background())
	defer cancel()
	h := client.NewVerifInFlight(ctx, n, 10, time.Hour)
	defer h.Close()
	unanswered := map[int16]client.InFlightRequest{}
	pages := map[int16]int32{}
	var refusedFrame *frame.Frame
	step := func(i int, what string, args ...interface{}) string {
		return fmt.Sprintf("N=%d history %v step %d: %s", n, hist[:i+1], i, fmt.Sprintf(what, args...))
	}
	for i, a := range hist {
		switch a.Kind {
		case "managed":
			f := reqFrame(client.ManagedStreamId)
			if refusedFrame != nil && i%2 == 0 {
				f = refusedFrame // the caller retries the very frame object that was refused earlier
			}
			refusedFrame = nil
			req, err := h.Enqueue(f)
			if err != nil {
				refusedFrame = f
			}
			if err == nil {
				id := f.Header.StreamId
				if id < 1 || int(id) > n {
					return step(i, "managed send was given stream id %d, outside 1..%d", id, n), true
				}
				if req.StreamId() != id {
					return step(i, "in-flight request reports stream id %d, frame carries %d", req.StreamId(), id), true
				}
				if _, dup := unanswered[id]; dup {
					return step(i, "managed send was given stream id %d, which an unanswered request already carries", id), true
				}
				if len(unanswered) >= n {
					return step(i, "managed send accepted although %d requests are unanswered (limit %d)", len(unanswered), n), true
				}
				unanswered[id] = req
			} else {
				interesting = true
				if f.Header.StreamId != client.ManagedStreamId {
					// refused after an id was assigned: that id must not stay reserved (checked by the drain action)
				}
			}
		case "explicit":
			f := reqFrame(a.Id)
			req, err := h.Enqueue(f)
			_, inUse := unanswered[a.Id]
			if err == nil {
				if inUse {
					return step(i, "explicit send with id %d accepted although an unanswered request carries it", a.Id), true
				}
				if len(unanswered) >= n {
					return step(i, "explicit send accepted although %d requests are unanswered (limit %d)", len(unanswered), n), true
				}
				unanswered[a.Id] = req
			} else {
				interesting = true
			}
			if inUse {
				interesting = true
			}
		case "final", "page":
			req, known := unanswered[a.Id]
			var f *frame.Frame
			if a.Kind == "final" {
				f = finalFrameV(a.Id, pages[a.Id], i+int(a.Id)+int(pages[a.Id]))
			} else {
				pages[a.Id]++
				f = pageFrame(a.Id, pages[a.Id], false)
				if (i+int(a.Id))%2 == 0 {
					f.Body.Message.(*message.RowsResult).Metadata.PagingState = []byte{byte(pages[a.Id])}
				}
			}
			err := h.Deliver(f)
			if !known {
				if err == nil {
					return step(i, "response for unknown stream id %d was accepted", a.Id), true
				}
				continue
			}
			if err != nil {
				if a.Kind == "page" && pages[a.Id] > 10 {
					// more than MaxPending undelivered pages: the request is failed by design; forget it
					delete(unanswered, a.Id)
					continue
				}
				return step(i, "response for in-flight stream id %d was rejected: %v", a.Id, err), true
			}
			select {
			case got, ok := <-req.Incoming():
				if !ok || got != f {
					return step(i, "request %d did not receive the frame delivered for it (ok=%v)", a.Id, ok), true
				}
			case <-time.After(5 * time.Second):
				return step(i, "request %d received nothing after its response was delivered", a.Id), true
			}
			if a.Kind == "final" {
				if _, ok := <-req.Incoming(); ok {
					return step(i, "request %d: channel still open after the final response", a.Id), true
				}
				if !req.IsDone() || req.Err() != nil {
					return step(i, "request %d after final response: IsDone=%v Err=%v", a.Id, req.IsDone(), req.Err()), true
				}
				delete(unanswered, a.Id)
				if i+1 < len(hist) {
					interesting = true
				}
			}
		case "unknown":
			if _, known := unanswered[a.Id]; known {
				continue
			}
			if err := h.Deliver(finalFrame(a.Id)); err == nil {
				return step(i, "response for unknown stream id %d was accepted", a.Id), true
			}
		case "drain":
			// answer everything, then exactly N managed sends must succeed and the N+1-th be refused
			for id := range unanswered {
				if err := h.Deliver(finalFrameV(id, pages[id], i+int(id))); err != nil {
					return step(i, "drain: final response for %d rejected: %v", id, err), true
				}
				delete(unanswered, id)
			}
			if h.Len() != 0 {
				return step(i, "drain: %d requests still registered after every request was answered", h.Len()), true
			}
			seen := map[int16]bool{}
			for k := 0; k < n; k++ {
				f := reqFrame(client.ManagedStreamId)
				if _, err := h.Enqueue(f); err != nil {
					return step(i, "after all requests were answered only %d of %d new managed sends succeeded: %v (a stream id was lost)", k, n, err), true
				}
				id := f.Header.StreamId
				if id < 1 || int(id) > n || seen[id] {
					return step(i, "refill handed out stream id %d (duplicate or outside 1..%d)", id, n), true
				}
				seen[id] = true
			}
			f := reqFrame(client.ManagedStreamId)
			if _, err := h.Enqueue(f); err == nil {
				return step(i, "send number %d accepted with limit %d (stream id %d)", n+1, n, f.Header.StreamId), true
			}
			for id := range seen {
				if err := h.Deliver(finalFrameV(id, 0, i+int(id)+1)); err != nil {
					return step(i, "drain: final response for %d rejected: %v", id, err), true
				}
			}
		}
	}
	return "", interesting
}

func c09Alphabet(n int) []c09Act {
	acts := []c09Act{{Kind: "managed"}, {Kind: "drain"}}
	ids := []int16{1, 2, 7}
	if n >= 3 {
		ids = []int16{1, 3, 7}
	}
	for _, id := range ids {
		acts = append(acts, c09Act{"explicit", id}, c09Act{"final", id}, c09Act{"page", id})
	}
	acts = append(acts, c09Act{"unknown", 9})
	return acts
}

func TestC09Exhaustive(t *testing.T) {
	rec := stats.For("C09")
	k, shards := shard()
	depth := 4
	if thorough() {
		depth = 6
	}
	for _, n := range []int{1, 2, 3} {
		alpha := c09Alphabet(n)
		total := 1
		for i := 0; i < depth; i++ {
			total *= len(alpha)
		}
		var count, nt int64
		hist := make([]c09Act, depth)
		for idx := k; idx < total; idx += shards {
			x := idx
			for i := 0; i < depth; i++ {
				hist[i] = alpha[x%len(alpha)]
				x /= len(alpha)
			}
			fail, interesting := c09Run(n, hist)
			if fail != "" {
				rec.Violation("history", map[string]interface{}{"n": n, "history": fmt.Sprint(hist), "fail": fail})
				t.Errorf("%s", fail)
				return
			}
			count++
			if interesting {
				nt++
			}
		}
		rec.Bulk(count, nt, fmt.Sprintf("exhaustive:N=%d:depth=%d", n, depth))
		rec.Exhaustive(fmt.Sprintf("histories of length %d over %d actions, N=%d (this shard's share)", depth, len(alpha), n), count)
	}
	rec.AddSample(fmt.Sprintf("exhaustive histories of length %d over the alphabet %v for N=1,2,3", depth, c09Alphabet(3)))
}

func c09Random(rt *rapid.T) {
	rec := stats.For("C09")
	n := rapid.SampledFrom([]int{1, 2, 3, 10, 100, 1000, 32767}).Draw(rt, "N")
	length := rapid.IntRange(1, 60).Draw(rt, "len")
	if rapid.IntRange(0, 9).Draw(rt, "long") == 0 {
		length = rapid.IntRange(200, 2000).Draw(rt, "len2")
	}
	idGen := rapid.OneOf(rapid.Int16Range(1, int16(min(n, 6))), rapid.SampledFrom([]int16{-1, int16(min(n, 32766)) + 1, 32767, -32768, int16(n)}))
	hist := make([]c09Act, length)
	for i := range hist {
		switch rapid.IntRange(0, 9).Draw(rt, fmt.Sprintf("k%d", i)) {
		case 0, 1, 2, 3:
			hist[i] = c09Act{Kind: "managed"}
		case 4:
			hist[i] = c09Act{"explicit", idGen.Draw(rt, fmt.Sprintf("id%d", i))}
		case 5, 6:
			hist[i] = c09Act{"final", idGen.Draw(rt, fmt.Sprintf("id%d", i))}
		case 7:
			hist[i] = c09Act{"page", idGen.Draw(rt, fmt.Sprintf("id%d", i))}
		case 8:
			hist[i] = c09Act{"unknown", idGen.Draw(rt, fmt.Sprintf("id%d", i))}
		default:
			hist[i] = c09Act{Kind: "drain"}
			if n > 1000 && i != length-1 {
				hist[i] = c09Act{Kind: "managed"} // a refill of tens of thousands of requests only once per history
			}
		}
		if hist[i].Id == 0 && hist[i].Kind != "managed" && hist[i].Kind != "drain" {
			hist[i].Id = 1 // id 0 means "managed" for sends
		}
	}
	fail, interesting := c09Run(n, hist)
	if fail != "" {
		rt.Fatalf("%s", fail)
	}
	rec.Case(interesting, stats.HashString(fmt.Sprintf("%d/%v", n, hist)), func() string { return fmt.Sprintf("N=%d history %v", n, hist[:min(len(hist), 30)]) }, fmt.Sprintf("random:N=%d", n))
}

func TestC09Random(t *testing.T) { rapid.Check(t, c09Random) }

// ---------------------------------------------------------------------------------------------------------------
// concurrent senders + responder on the shim, with generated schedules at the hook points

type schedule struct {
	mu      sync.Mutex
	actions map[string][]int // point -> per-hit action: 0 none, 1..3 yield k times, 4 sleep 200us, 5 rendez-vous
	hits    map[string]int
	waiting map[string]chan struct{}
}

func (s *schedule) point(name string) {
	s.mu.Lock()
	i := s.hits[name]
	s.hits[name] = i + 1
	acts := s.actions[name]
	act := 0
	if len(acts) > 0 {
		act = acts[i%len(acts)]
	}
	var meet chan struct{}
	if act == 5 {
		if ch, ok := s.waiting[name]; ok {
			delete(s.waiting, name)
			close(ch) // second party arrived: release the first
			s.mu.Unlock()
			return
		}
		meet = make(chan struct{})
		s.waiting[name] = meet
	}
	s.mu.Unlock()
	switch act {
	case 1, 2, 3:
		for k := 0; k < act; k++ {
			yield()
		}
	case 4:
		time.Sleep(200 * time.Microsecond)
	case 5:
		select { // rendez-vous with the next goroutine reaching the same point; bounded, never decides a verdict
		case <-meet:
		case <-time.After(20 * time.Millisecond):
			s.mu.Lock()
			if s.waiting[name] == meet {
				delete(s.waiting, name)
			}
			s.mu.Unlock()
		}
	}
}

func drawSchedule(rt *rapid.T, points []string) *schedule {
	s := &schedule{actions: map[string][]int{}, hits: map[string]int{}, waiting: map[string]chan struct{}{}}
	for _, p := range points {
		if rapid.Bool().Draw(rt, "sched/"+p) {
			s.actions[p] = rapid.SliceOfN(rapid.IntRange(0, 5), 1, 6).Draw(rt, "sched/"+p+"/acts")
		}
	}
	return s
}

var hookMu sync.Mutex // one scheduled scenario at a time per process

func c09Concurrent(rt *rapid.T) {
	rec := stats.For("C09")
	n := rapid.SampledFrom([]int{1, 2, 3, 8, 64}).Draw(rt, "N")
	senders := rapid.IntRange(2, 8).Draw(rt, "senders")
	perSender := rapid.IntRange(1, 30).Draw(rt, "sends")
	explicitShare := rapid.SampledFrom([]int{0, 0, 3, 10}).Draw(rt, "explicitShare") // out of 10
	sched := drawSchedule(rt, []string{"inflight.enqueue.afterCheck", "inflight.incoming.afterLookup"})
	// the explicit ids used by sender g at its j-th send
	explicitIds := make([][]int16, senders)
	for g := range explicitIds {
		explicitIds[g] = make([]int16, perSender)
		for j := range explicitIds[g] {
			if rapid.IntRange(0, 9).Draw(rt, fmt.Sprintf("e%d/%d", g, j)) < explicitShare {
				explicitIds[g][j] = rapid.SampledFrom([]int16{1, 2, 42, 43}).Draw(rt, fmt.Sprintf("eid%d/%d", g, j))
			}
		}
	}
	hookMu.Lock()
	defer hookMu.Unlock()
	client.SetVerifPoint(sched.point)
	defer client.SetVerifPoint(nil)

	ctx, cancel := context.WithCancel(context.Background())
	defer cancel()
	h := client.NewVerifInFlight(ctx, n, 10, time.Hour)
	defer h.Close()
	var counters [65536]int32
	idx := func(id int16) int { return int(uint16(id)) }
	var violation atomic.Value
	accepted := make(chan int16, senders*perSender)
	var wg sync.WaitGroup
	var acceptedCount, refusedCount int64
	for g := 0; g < senders; g++ {
		wg.Add(1)
		go func(g int) {
			defer wg.Done()
			for j := 0; j < perSender; j++ {
				f := reqFrame(explicitIds[g][j])
				_, err := h.Enqueue(f)
				if err != nil {
					atomic.AddInt64(&refusedCount, 1)
					continue
				}
				id := f.Header.StreamId
				if c := atomic.AddInt32(&counters[idx(id)], 1); c != 1 {
					violation.Store(fmt.Sprintf("stream id %d is carried by %d accepted, unanswered requests at once", id, c))
				}
				if explicitIds[g][j] == 0 && (id < 1 || int(id) > n) {
					violation.Store(fmt.Sprintf("managed send was given stream id %d, outside 1..%d", id, n))
				}
				atomic.AddInt64(&acceptedCount, 1)
				accepted <- id
			}
		}(g)
	}
	done := make(chan struct{})
	go func() { // responder
		defer close(done)
		for id := range accepted {
			atomic.AddInt32(&counters[idx(id)], -1) // decremented BEFORE the final response is delivered
			if err := h.Deliver(finalFrameV(id, 0, int(id))); err != nil {
				violation.Store(fmt.Sprintf("final response for accepted stream id %d rejected: %v", id, err))
			}
		}
	}()
	wg.Wait()
	close(accepted)
	<-done
	client.SetVerifPoint(nil)
	if v := violation.Load(); v != nil {
		rt.Fatalf("N=%d senders=%d x %d explicitShare=%d/10 schedule=%v: %s", n, senders, perSender, explicitShare, sched.actions, v)
	}
	if h.Len() != 0 {
		rt.Fatalf("after every accepted request was answered %d are still registered", h.Len())
	}
	// conservation: N managed sends succeed now
	for k := 0; k < n; k++ {
		if _, err := h.Enqueue(reqFrame(client.ManagedStreamId)); err != nil {
			rt.Fatalf("N=%d senders=%d x %d explicitShare=%d/10 schedule=%v: after all requests were answered only %d of %d managed sends succeed (%v): a stream id was lost", n, senders, perSender, explicitShare, sched.actions, k, n, err)
		}
	}
	if _, err := h.Enqueue(reqFrame(client.ManagedStreamId)); err == nil {
		rt.Fatalf("send number N+1 accepted")
	}
	rec.Case(true, stats.HashString(fmt.Sprintf("%d/%d/%d/%v/%v", n, senders, perSender, explicitIds, sched.actions)), func() string {
		return fmt.Sprintf("concurrent: N=%d senders=%d x %d explicitShare=%d/10 accepted=%d refused=%d schedule=%v", n, senders, perSender, explicitShare, acceptedCount, refusedCount, sched.actions)
	}, "concurrent", fmt.Sprintf("concurrent:N=%d", n))
}

func TestC09Concurrent(t *testing.T) { rapid.Check(t, c09Concurrent) }

// A request that the library completed EARLY - its undelivered pages exceeded MaxPending, or it timed out - still holds its
// stream id until its final response arrives ("once a request's final response has arrived its id is assignable again").
// Scenario: fill N requests, complete a generated subset early (overflow or timeout), deliver everybody's final response
// (in its four forms), then nothing may be registered any more and N new managed sends must succeed with ids 1..N.
func c09ClosedEarly(rt *rapid.T) {
	if !everyNth("c09ClosedEarly", 2, 20) {
		return
	}
	defer noteFailure()
	rec := stats.For("C09")
	n := rapid.IntRange(1, 6).Draw(rt, "N")
	maxPending := rapid.IntRange(1, 4).Draw(rt, "maxPending")
	byTimeout := rapid.Bool().Draw(rt, "byTimeout")
	timeout := time.Hour
	if byTimeout {
		timeout = 40 * time.Millisecond
	}
	ctx, cancel := context.WithCancel(context.Background())
	defer cancel()
	// spare: slots of the limit that stay free, so that a refusal of an id in use cannot hide behind "too many in flight"
	spare := rapid.SampledFrom([]int{0, 0, 1, 3}).Draw(rt, "spareSlots")
	limit := n + spare
	h := client.NewVerifInFlight(ctx, limit, maxPending, timeout)
	defer h.Close()
	type ent struct {
		id   int16
		req  client.InFlightRequest
		mode string
	}
	var reqs []ent
	explicit := rapid.Bool().Draw(rt, "explicitIds")
	for k := 0; k < n; k++ {
		id := int16(client.ManagedStreamId)
		if explicit {
			id = int16(100 + k)
		}
		f := reqFrame(id)
		r, err := h.Enqueue(f)
		if err != nil {
			rt.Fatalf("N=%d: send %d of %d refused with nothing answered yet: %v", n, k+1, n, err)
		}
		reqs = append(reqs, ent{f.Header.StreamId, r, "normal"})
	}
	early := 0
	for k := range reqs {
		if byTimeout {
			reqs[k].mode = "timeout" // every request of this handler times out
			early++
			continue
		}
		if rapid.Bool().Draw(rt, fmt.Sprintf("overflow%d", k)) {
			reqs[k].mode = "overflow"
			early++
			extra := rapid.IntRange(1, 3).Draw(rt, fmt.Sprintf("extra%d", k))
			for p := 1; p <= maxPending+extra; p++ {
				_ = h.Deliver(pageFrame(reqs[k].id, int32(p), false)) // nobody reads: the pages beyond MaxPending are refused
			}
			if !reqs[k].req.IsDone() || reqs[k].req.Err() == nil {
				rt.Fatalf("N=%d maxPending=%d: request %d got %d unread pages but is not failed (IsDone=%v Err=%v)", n, maxPending, reqs[k].id, maxPending+extra, reqs[k].req.IsDone(), reqs[k].req.Err())
			}
		}
	}
	if byTimeout {
		deadline := time.Now().Add(10 * time.Second)
		for _, e := range reqs {
			for !e.req.IsDone() {
				if time.Now().After(deadline) {
					rt.Fatalf("request %d not timed out after 10 s (timeout %v)", e.id, timeout)
				}
				time.Sleep(5 * time.Millisecond)
			}
		}
	}
	// until their final responses arrive all N requests are unanswered - also the ones the library has completed early,
	// whose ids are still in use on the wire: a further send is refused
	if f := reqFrame(client.ManagedStreamId); spare == 0 {
		if _, err := h.Enqueue(f); err == nil {
			rt.Fatalf("N=%d maxPending=%d: with all %d requests unanswered (%d of them completed early by %s, their final responses still to come) a further managed send was accepted with stream id %d",
				n, maxPending, n, early, map[bool]string{true: "timeout", false: "overflow"}[byTimeout], f.Header.StreamId)
		}
	}
	if explicit && early > 0 {
		for _, e := range reqs {
			if e.mode != "normal" {
				if _, err := h.Enqueue(reqFrame(e.id)); err == nil {
					rt.Fatalf("N=%d (limit %d): caller-chosen stream id %d was accepted again while the request that carries it (completed early by %s) is still unanswered", n, limit, e.id, e.mode)
				}
				break
			}
		}
	}
	// every request's final response arrives (the early-completed ones may refuse the frame; their id must be freed anyway)
	order := rapid.Permutation(reqs).Draw(rt, "finalOrder")
	for k, e := range order {
		err := h.Deliver(finalFrameV(e.id, int32(maxPending+4), rapid.IntRange(0, 3).Draw(rt, fmt.Sprintf("form%d", k))))
		if err != nil && e.mode == "normal" {
			rt.Fatalf("final response for the open request %d rejected: %v", e.id, err)
		}
	}
	if h.Len() != 0 {
		rt.Fatalf("N=%d maxPending=%d early=%d (%s): %d request(s) still registered after every request's final response has arrived", n, maxPending, early, map[bool]string{true: "timeout", false: "overflow"}[byTimeout], h.Len())
	}
	seen := map[int16]bool{}
	for k := 0; k < limit; k++ {
		f := reqFrame(client.ManagedStreamId)
		if _, err := h.Enqueue(f); err != nil {
			rt.Fatalf("limit=%d maxPending=%d: after every final response arrived (%d of %d requests had been completed early by %s, explicit ids=%v) only %d of %d new managed sends succeeded: %v (a stream id or a slot was lost)",
				limit, maxPending, early, n, map[bool]string{true: "timeout", false: "overflow"}[byTimeout], explicit, k, limit, err)
		}
		id := f.Header.StreamId
		if id < 1 || int(id) > limit || seen[id] {
			rt.Fatalf("refill handed out stream id %d (duplicate or outside 1..%d)", id, limit)
		}
		seen[id] = true
	}
	if _, err := h.Enqueue(reqFrame(client.ManagedStreamId)); err == nil {
		rt.Fatalf("send number %d accepted with limit %d", limit+1, limit)
	}
	rec.Case(early > 0, stats.HashString(fmt.Sprintf("early/%d/%d/%d/%v/%v/%d", n, spare, maxPending, byTimeout, explicit, early)), func() string {
		return fmt.Sprintf("closed-early: N=%d maxPending=%d, %d requests completed early by %s, explicit ids=%v, then all finals, then refill", n, maxPending, early, map[bool]string{true: "timeout", false: "overflow"}[byTimeout], explicit)
	}, "closed-early", fmt.Sprintf("closed-early:timeout=%v", byTimeout))
}

func TestC09ClosedEarly(t *testing.T) { rapid.Check(t, c09ClosedEarly) }

// "Once a request's final response has arrived its id is assignable again": a caller that has just received the final
// response of its request sends the next one at once - with all ids in use until then (N = 1 or 2 requests in a
// ping-pong), that send must never be refused. The responder runs on another goroutine, so the window between handing the
// response to the request and giving the id back (if there were one) is open while the caller reacts.
func c09PingPong(rt *rapid.T) {
	if !everyNth("c09PingPong", 3, 30) {
		return
	}
	defer noteFailure()
	rec := stats.For("C09")
	n := rapid.IntRange(1, 2).Draw(rt, "N")
	iters := rapid.IntRange(200, 1500).Draw(rt, "iterations")
	poll := rapid.Bool().Draw(rt, "poll")
	ctx, cancel := context.WithCancel(context.Background())
	defer cancel()
	h := client.NewVerifInFlight(ctx, n, 4, time.Hour)
	defer h.Close()
	toAnswer := make(chan int16, n)
	done := make(chan struct{})
	go func() {
		defer close(done)
		k := 0
		for id := range toAnswer {
			k++
			_ = h.Deliver(finalFrameV(id, 0, k))
		}
	}()
	fail := ""
	send := func(i int) client.InFlightRequest {
		f := reqFrame(client.ManagedStreamId)
		r, err := h.Enqueue(f)
		if err != nil {
			fail = fmt.Sprintf("N=%d iteration %d: send refused (%v) although the caller holds the final response of every earlier request but %d", n, i, err, n-1)
			return nil
		}
		toAnswer <- f.Header.StreamId
		return r
	}
	var window []client.InFlightRequest
	for k := 0; k < n-1; k++ { // n-1 requests stay outstanding, the n-th slot is the ping-pong
		if r := send(-1); r != nil {
			window = append(window, r)
		}
	}
	for i := 0; i < iters && fail == ""; i++ {
		r := send(i)
		if r == nil {
			break
		}
		window = append(window, r)
		oldest := window[0]
		window = window[1:]
		// wait for the final response of the oldest request: busy polling or a blocking receive
		got := false
		deadline := time.Now().Add(10 * time.Second)
		for !got {
			if poll {
				select {
				case _, ok := <-oldest.Incoming():
					got = ok
					if !ok {
						fail = fmt.Sprintf("iteration %d: request closed without its response: %v", i, oldest.Err())
						got = true
					}
				default:
					if time.Now().After(deadline) {
						fail = fmt.Sprintf("iteration %d: no response within 10 s", i)
						got = true
					}
				}
			} else {
				select {
				case _, ok := <-oldest.Incoming():
					got = true
					if !ok {
						fail = fmt.Sprintf("iteration %d: request closed without its response: %v", i, oldest.Err())
					}
				case <-time.After(10 * time.Second):
					fail = fmt.Sprintf("iteration %d: no response within 10 s", i)
					got = true
				}
			}
		}
	}
	close(toAnswer)
	<-done
	if fail != "" {
		rt.Fatalf("%s", fail)
	}
	rec.Case(true, stats.HashString(fmt.Sprintf("pingpong/%d/%d/%v", n, iters, poll)), func() string {
		return fmt.Sprintf("ping-pong: N=%d, %d iterations, poll=%v: every send right after a final response was accepted", n, iters, poll)
	}, "ping-pong")
}

func TestC09PingPong(t *testing.T) { rapid.Check(t, c09PingPong) }
