package props

// C18: codecs can be shared by concurrent goroutines.
// Workloads (frames, raw frames, segments, messages, CQL values, blobs) and their expected results are computed sequentially first;
// then M goroutines run them on SHARED codec instances (one frame.RawCodec per compressor, one segment.Codec per
// compressor, message.DefaultMessageCodecs, the datacodec singletons and shared nested codecs, the compressors) from a
// start barrier, in generated per-goroutine orders with generated yields. Built with -race.
// Oracle: every concurrent result equals its sequential result (bytes where the encoding is deterministic, canonical
// frames / abstract values where map order is free); the race detector stays silent (a report fails the test binary).

import (
	"bytes"
	"fmt"
	"github.com/datastax/go-cassandra-native-protocol/datatype"
	"github.com/datastax/go-cassandra-native-protocol/message"
	"math/big"
	"os"
	"reflect"
	"runtime"
	"strings"
	"sync"
	"sync/atomic"
	"testing"
	"time"

	"github.com/datastax/go-cassandra-native-protocol/compression/lz4"
	"github.com/datastax/go-cassandra-native-protocol/compression/snappy"
	"github.com/datastax/go-cassandra-native-protocol/datacodec"
	"github.com/datastax/go-cassandra-native-protocol/frame"
	"github.com/datastax/go-cassandra-native-protocol/primitive"
	"github.com/datastax/go-cassandra-native-protocol/segment"
	"pgregory.net/rapid"

	"verifharness/canon"
	"verifharness/gen"
	"verifharness/stats"
)

type c18Item struct {
	name string
	run  func() (string, error) // returns a digest of the result
	want string
}

var (
	c18Once       sync.Once
	sharedFrame   map[compKind]frame.RawCodec
	sharedSegment map[bool]segment.Codec
	sharedNested  sync.Map // AsCql -> datacodec.Codec
)

func c18Shared() {
	c18Once.Do(func() {
		sharedFrame = map[compKind]frame.RawCodec{compNone: newRawCodec(compNone), compLz4: newRawCodec(compLz4), compSnappy: newRawCodec(compSnappy)}
		sharedSegment = map[bool]segment.Codec{false: segCodec(false), true: segCodec(true)}
	})
}

func digestBytes(b []byte) string { return fmt.Sprintf("%d:%016x", len(b), stats.Hash(b)) }

func c18DrawItem(rt *rapid.T, i int) *c18Item {
	label := fmt.Sprintf("item%d", i)
	v := gen.Version(rt)
	kind := rapid.IntRange(0, 10).Draw(rt, label+"/kind")
	if kind == 8 && !gen.AtLeast(v, 3) {
		kind = 4
	}
	switch kind {
	case 10: // a large compressed frame: bodies of 64 KiB and more, of a size of their own, on the shared codec
		comp := rapid.SampledFrom([]compKind{compLz4, compLz4, compSnappy}).Draw(rt, label+"/comp")
		if v == primitive.ProtocolVersion5 {
			comp = compLz4
		}
		// all-equal, short-period or random content: no repeat at a distance of 64 KiB or more, so the open LZ4 dependency
		// finding (DEP-lz4-offset-wrap-65536) cannot strike
		class := rapid.SampledFrom([]int{0, 1, 3}).Draw(rt, label+"/class")
		if comp == compLz4 && class == 3 {
			class = 1 // random letters repeat 4-grams at every distance
		}
		size := rapid.IntRange(65536, 150000).Draw(rt, label+"/size")
		q := gen.Expand(class, rapid.Uint64().Draw(rt, label+"/seed"), size)
		for j := range q { // a [long string] of printable ASCII
			q[j] = 'a' + q[j]%26
		}
		codec := sharedFrame[comp]
		f := frame.NewFrame(v, int16(i%100+1), &message.Query{Query: string(q)})
		f.SetCompress(true)
		return &c18Item{name: "large-frame/" + comp.String(), run: func() (string, error) {
			enc, err := encodeFrame(codec, f.DeepCopy())
			if err != nil {
				return "", err
			}
			dec, err := codec.DecodeFrame(bytes.NewReader(enc))
			if err != nil {
				return "", err
			}
			dec.Header.BodyLength = 0
			return fmt.Sprintf("%s/%016x", digestBytes(enc), canon.Hash(dec)), nil
		}}
	case 9: // a header the shared codec must refuse; what the error SAYS belongs to this call (version, flags)
		hv := rapid.SampledFrom([]byte{0x00, 0x01, 0x06, 0x07, 0x21, 0x40, 0x43, 0x7f}).Draw(rt, label+"/badVersion")
		resp := rapid.Bool().Draw(rt, label+"/response")
		flags := rapid.SampledFrom([]byte{0x00, 0x10, 0x02, 0x1f}).Draw(rt, label+"/flags")
		hdr := []byte{hv, flags, 0, byte(i), 0x05, 0, 0, 0, 0}
		if resp {
			hdr[0] |= 0x80
			hdr[4] = 0x02
		}
		codec := sharedFrame[compNone]
		bad := frame.NewFrame(primitive.ProtocolVersion(hv), int16(i), &message.Options{})
		return &c18Item{name: "refused-header", run: func() (string, error) {
			_, derr := codec.DecodeHeader(bytes.NewReader(hdr))
			var buf bytes.Buffer
			eerr := codec.EncodeFrame(bad, &buf)
			return fmt.Sprintf("decode: %v | encode: %v", derr, eerr), nil
		}}
	case 8: // a user-defined type written from and read into a Go struct type that did not exist before
		nf := rapid.IntRange(1, 4).Draw(rt, label+"/fields")
		fts := make([]datatype.DataType, nf)
		names := make([]string, nf)
		rep := &gen.Rep{Kind: "struct", Names: make([]string, nf), Tags: make([]string, nf), Fields: make([]*gen.Rep, nf), ArrLen: -1}
		for i := range fts {
			fts[i] = gen.ValueType(rt, v, 0, fmt.Sprintf("%s/ft%d", label, i))
			names[i] = fmt.Sprintf("f%d", i)
			rep.Fields[i] = gen.DrawRep(rt, fts[i], false, fmt.Sprintf("%s/fr%d", label, i))
		}
		dt, err := datatype.NewUserDefined("ks", "udt", names, fts)
		if err != nil {
			rt.Fatalf("harness defect: %v", err)
		}
		freshStructs(dt, rep)
		av := gen.DrawAV(rt, dt, rep, v, false, label+"/value")
		codec, err := datacodec.NewCodec(dt)
		if err != nil {
			rt.Fatalf("NewCodec: %v", err)
		}
		return &c18Item{name: "value/udt-fresh-struct", run: func() (string, error) {
			src := gen.ToGo(av, dt, rep).Interface()
			enc, err := codec.Encode(src, v)
			if err != nil {
				return "", err
			}
			dest := reflect.New(topDestType(rep))
			if _, err := codec.Decode(enc, dest.Interface(), v); err != nil {
				return "", err
			}
			got, err := gen.FromGo(dest.Elem(), dt)
			if err != nil {
				return "", err
			}
			return gen.RenderAV(dt, got), nil
		}}
	case 7: // a compressed frame whose body is corrupt: refused, on the same shared codec the valid frames go through
		comp := rapid.SampledFrom([]compKind{compLz4, compSnappy}).Draw(rt, label+"/comp")
		if v == primitive.ProtocolVersion5 {
			comp = compLz4
		}
		q := gen.Str(rt, label+"/query")
		codec := sharedFrame[comp]
		f := frame.NewFrame(v, 1, &message.Query{Query: "SELECT " + q + strings.Repeat(" x", 40)})
		f.SetCompress(true)
		enc, err := encodeFrame(codec, f)
		if err != nil {
			rt.Fatalf("EncodeFrame: %v", err)
		}
		h := hdrLen(v)
		bad := append([]byte{}, enc...)
		for i := h + 4; i < len(bad); i++ { // keep the LZ4 length prefix, ruin the block
			bad[i] = 0xff
		}
		return &c18Item{name: "corrupt-frame/" + comp.String(), run: func() (string, error) {
			_, err := codec.DecodeFrame(bytes.NewReader(bad))
			if err == nil {
				return "accepted", nil
			}
			return "refused", nil
		}}
	case 6: // raw paths on the shared frame codec: convert to raw, encode raw, decode raw, convert back; discard
		comp := drawComp(rt, v)
		o := gen.DefaultOpts()
		o.MaxLongString = 3000
		o.TypeDepth = 2
		fc := gen.Frame(rt, v, comp != compNone, o)
		comp = lz4Safe(fc.Frame, comp)
		codec := sharedFrame[comp]
		f := fc.Frame
		return &c18Item{name: "raw/" + comp.String(), run: func() (string, error) {
			raw, err := codec.ConvertToRawFrame(f.DeepCopy())
			if err != nil {
				return "", err
			}
			var buf bytes.Buffer
			if err := codec.EncodeRawFrame(raw, &buf); err != nil {
				return "", err
			}
			enc := append([]byte{}, buf.Bytes()...)
			r := bytes.NewReader(enc)
			raw2, err := codec.DecodeRawFrame(r)
			if err != nil {
				return "", err
			}
			dec, err := codec.ConvertFromRawFrame(raw2)
			if err != nil {
				return "", err
			}
			r2 := bytes.NewReader(enc)
			h, err := codec.DecodeHeader(r2)
			if err != nil {
				return "", err
			}
			if err := codec.DiscardBody(h, r2); err != nil {
				return "", err
			}
			dec.Header.BodyLength = 0
			return fmt.Sprintf("%016x/%d/%d", canon.Hash(dec), r.Len(), r2.Len()), nil
		}}
	case 0, 1: // frame encode + decode on the shared frame codec
		comp := drawComp(rt, v)
		o := gen.DefaultOpts()
		o.MaxLongString = 3000
		o.TypeDepth = 2
		fc := gen.Frame(rt, v, comp != compNone, o)
		comp = lz4Safe(fc.Frame, comp)
		codec := sharedFrame[comp]
		f := fc.Frame
		return &c18Item{name: "frame/" + comp.String(), run: func() (string, error) {
			cp := f.DeepCopy() // EncodeFrame writes the body length into the header it is given
			enc, err := encodeFrame(codec, cp)
			if err != nil {
				return "", err
			}
			dec, err := codec.DecodeFrame(bytes.NewReader(enc))
			if err != nil {
				return "", err
			}
			dec.Header.BodyLength = 0
			return fmt.Sprintf("%016x", canon.Hash(dec)), nil
		}}
	case 2: // segment
		lz := rapid.Bool().Draw(rt, label+"/lz4")
		plen := rapid.IntRange(0, 20000).Draw(rt, label+"/len")
		pclass := rapid.IntRange(0, 3).Draw(rt, label+"/class")
		if rapid.IntRange(0, 3).Draw(rt, label+"/big") == 0 {
			plen = rapid.IntRange(32769, 131071).Draw(rt, label+"/bigLen") // beyond the block size a chunked checksum would use
			if pclass == 2 {
				pclass = 1 // no text above 64 KiB under LZ4 (open dependency finding)
			}
		}
		payload := gen.Expand(pclass, rapid.Uint64().Draw(rt, label+"/seed"), plen)
		sc := rapid.Bool().Draw(rt, label+"/sc")
		codec := sharedSegment[lz]
		return &c18Item{name: fmt.Sprintf("segment/lz4=%v", lz), run: func() (string, error) {
			var buf bytes.Buffer
			seg := &segment.Segment{Header: &segment.Header{IsSelfContained: sc}, Payload: &segment.Payload{UncompressedData: payload}}
			if err := codec.EncodeSegment(seg, &buf); err != nil {
				return "", err
			}
			enc := append([]byte{}, buf.Bytes()...)
			dec, err := codec.DecodeSegment(bytes.NewReader(enc))
			if err != nil {
				return "", err
			}
			// the caller holds the decoded payload for a while (other goroutines keep decoding on the same codec)
			for y := 0; y < 3; y++ {
				runtime.Gosched()
			}
			return digestBytes(enc) + "/" + digestBytes(dec.Payload.UncompressedData), nil
		}}
	case 3: // message codec (package-level shared instances)
		o := gen.DefaultOpts()
		o.MaxLongString = 3000
		o.TypeDepth = 2
		_, msg := gen.Message(rt, v, o)
		mc := messageCodecFor(msg.GetOpCode())
		return &c18Item{name: "message", run: func() (string, error) {
			var buf bytes.Buffer
			if err := mc.Encode(msg, &buf, v); err != nil {
				return "", err
			}
			n, err := mc.EncodedLength(msg, v)
			if err != nil {
				return "", err
			}
			dec, err := mc.Decode(bytes.NewReader(buf.Bytes()), v)
			if err != nil {
				return "", err
			}
			return fmt.Sprintf("%d/%016x", n, canon.Hash(dec)), nil
		}}
	case 4: // CQL value on shared (singleton / cached nested) codecs
		dt := gen.ValueType(rt, v, rapid.IntRange(0, 2).Draw(rt, label+"/depth"), label+"/type")
		rep := gen.DrawRep(rt, dt, false, label+"/rep")
		rep.Iface = false
		if rapid.Bool().Draw(rt, label+"/freshStructTypes") {
			// Go struct types nobody has used before (what is remembered about a type is then learnt concurrently)
			freshStructs(dt, rep)
		}
		av := gen.DrawAV(rt, dt, rep, v, false, label+"/value")
		var codec datacodec.Codec
		if c, ok := sharedNested.Load(dt.AsCql()); ok {
			codec = c.(datacodec.Codec)
		} else {
			c, err := datacodec.NewCodec(dt)
			if err != nil {
				rt.Fatalf("NewCodec: %v", err)
			}
			actual, _ := sharedNested.LoadOrStore(dt.AsCql(), c)
			codec = actual.(datacodec.Codec)
		}
		return &c18Item{name: "value/" + typeClass(dt), run: func() (string, error) {
			src := gen.ToGo(av, dt, rep).Interface()
			enc, err := codec.Encode(src, v)
			if err != nil {
				return "", err
			}
			dest := reflect.New(topDestType(rep))
			if _, err := codec.Decode(enc, dest.Interface(), v); err != nil {
				return "", err
			}
			got, err := gen.FromGo(dest.Elem(), dt)
			if err != nil {
				return "", err
			}
			return gen.RenderAV(dt, got), nil
		}}
	default: // compressors
		x := gen.Expand(rapid.IntRange(0, 3).Draw(rt, label+"/class"), rapid.Uint64().Draw(rt, label+"/seed"), rapid.IntRange(0, 30000).Draw(rt, label+"/len"))
		which := rapid.IntRange(0, 2).Draw(rt, label+"/compressor")
		return &c18Item{name: fmt.Sprintf("compressor/%d", which), run: func() (string, error) {
			var c, d bytes.Buffer
			var err error
			src := bytes.NewBuffer(append([]byte{}, x...))
			switch which {
			case 0:
				if err = (lz4.Compressor{}).CompressWithLength(src, &c); err == nil {
					err = lz4.Compressor{}.DecompressWithLength(bytes.NewBuffer(append([]byte{}, c.Bytes()...)), &d)
				}
			case 1:
				if err = (lz4.Compressor{}).Compress(src, &c); err == nil {
					err = lz4.Compressor{}.Decompress(bytes.NewBuffer(append([]byte{}, c.Bytes()...)), &d)
				}
			default:
				if err = (snappy.Compressor{}).CompressWithLength(src, &c); err == nil {
					err = snappy.Compressor{}.DecompressWithLength(bytes.NewBuffer(append([]byte{}, c.Bytes()...)), &d)
				}
			}
			if err != nil {
				return "", err
			}
			return digestBytes(c.Bytes()) + "/" + digestBytes(d.Bytes()), nil
		}}
	}
}

// lz4Safe keeps bodies that the library would LZ4-compress at or below 64 KiB: above that the pinned LZ4 dependency may
// emit an undecodable block (open finding DEP-lz4-offset-wrap-65536, judged by C01/C08), and whether it does depends on
// the iteration order of wire maps, i.e. differs from call to call. Larger frames go through the codec uncompressed.
func lz4Safe(f *frame.Frame, comp compKind) compKind {
	if comp != compLz4 {
		return comp
	}
	probe := f.DeepCopy()
	probe.SetCompress(false)
	if enc, err := encodeFrame(newRawCodec(compNone), probe); err != nil || len(enc) > 65536 {
		f.SetCompress(false)
		return compNone
	}
	return comp
}

// stringRep: the Go string representation of a scalar type, if the generator knows one for it.
func stringRep(dt datatype.DataType) *gen.Rep {
	for _, k := range gen.ScalarRepKinds(dt.Code()) {
		if k == "string" {
			return &gen.Rep{Kind: "string", ArrLen: -1}
		}
	}
	return nil
}

var freshCounter atomic.Int64

// freshStructs renames the fields of every struct representation of a UDT so that reflect.StructOf yields a type that did
// not exist before; the cassandra tag carries the UDT field name.
func freshStructs(dt datatype.DataType, r *gen.Rep) {
	if r == nil {
		return
	}
	switch x := dt.(type) {
	case *datatype.List:
		freshStructs(x.ElementType, r.Elem)
	case *datatype.Set:
		freshStructs(x.ElementType, r.Elem)
	case *datatype.Map:
		freshStructs(x.KeyType, r.Key)
		freshStructs(x.ValueType, r.Elem)
	case *datatype.Tuple:
		for i, ft := range x.FieldTypes {
			if i < len(r.Fields) {
				freshStructs(ft, r.Fields[i])
			}
		}
	case *datatype.UserDefined:
		if r.Kind == "struct" && len(r.Names) == len(x.FieldNames) && len(r.Tags) == len(x.FieldNames) {
			u := freshCounter.Add(1)
			for i := range r.Names {
				r.Names[i] = fmt.Sprintf("T%d_%d", i, u)
				r.Tags[i] = x.FieldNames[i]
			}
		}
		for i, ft := range x.FieldTypes {
			if i < len(r.Fields) {
				freshStructs(ft, r.Fields[i])
			}
		}
	}
}

func c18Property(rt *rapid.T) {
	rec := stats.For("C18")
	c18Shared()
	m := rapid.IntRange(2, 16).Draw(rt, "goroutines")
	per := rapid.IntRange(1, 12).Draw(rt, "itemsPerGoroutine")
	repeat := rapid.IntRange(1, 6).Draw(rt, "repeat")
	// cold start: the sequential reference results are computed AFTER the concurrent phase, so that whatever the library
	// remembers between calls (per-type caches, pools) is first touched by concurrent callers
	cold := rapid.Bool().Draw(rt, "coldStart")
	items := make([][]*c18Item, m)
	n := 0
	for g := range items {
		for j := 0; j < per; j++ {
			it := c18DrawItem(rt, n)
			n++
			if !cold {
				want, err := it.run() // sequential reference result
				if err != nil {
					// e.g. the open LZ4 dependency finding on a large body: not this property's business
					continue
				}
				it.want = want
			}
			items[g] = append(items[g], it)
		}
	}
	// a group: every goroutine also works on the SAME scalar codec through the SAME Go representation, on a few values that
	// recur across goroutines (what a codec remembers from one call must not leak into another caller's result)
	if rapid.Bool().Draw(rt, "group") {
		gv := gen.Version(rt)
		dt := gen.ValueType(rt, gv, 0, "group/type")
		if rapid.IntRange(0, 3).Draw(rt, "group/textual") != 0 {
			// the types whose codecs convert to and from text (the conversions with the most machinery behind them)
			dt = rapid.SampledFrom([]datatype.DataType{datatype.Timestamp, datatype.Date, datatype.Time, datatype.Time, datatype.Uuid, datatype.Inet, datatype.Varint, datatype.Decimal, datatype.Bigint}).Draw(rt, "group/textualType")
			if !gen.AtLeast(gv, 4) && (dt == datatype.Date || dt == datatype.Time) {
				dt = datatype.Timestamp
			}
		}
		rep := gen.DrawRep(rt, dt, false, "group/rep")
		rep.Iface = false
		if rapid.IntRange(0, 3).Draw(rt, "group/string") != 0 {
			// the textual representation where the type has one
			if r2 := stringRep(dt); r2 != nil {
				rep = r2
			}
		}
		nvals := rapid.IntRange(2, 3).Draw(rt, "group/nvals")
		vals := make([]gen.AV, nvals)
		for k := range vals {
			vals[k] = gen.DrawAV(rt, dt, rep, gv, false, fmt.Sprintf("group/v%d", k))
		}
		codec, err := datacodec.NewCodec(dt) // scalar types: the package-level singleton
		if err != nil {
			rt.Fatalf("NewCodec: %v", err)
		}
		// every value once on its own: its encoding and what it decodes to
		encs := make([][]byte, nvals)
		wants := make([]string, nvals)
		usable := true
		for k, av := range vals {
			enc, err := codec.Encode(gen.ToGo(av, dt, rep).Interface(), gv)
			if err != nil {
				usable = false
				break
			}
			dest := reflect.New(topDestType(rep))
			if _, err := codec.Decode(enc, dest.Interface(), gv); err != nil {
				usable = false
				break
			}
			got, err := gen.FromGo(dest.Elem(), dt)
			if err != nil {
				usable = false
				break
			}
			encs[k], wants[k] = enc, gen.RenderAV(dt, got)
		}
		iters := rapid.SampledFrom([]int{200, 1000, 4000}).Draw(rt, "group/iterations")
		if usable {
			for g := range items {
				g := g
				it := &c18Item{name: "group/" + dt.AsCql() + "/" + rep.Kind, want: "all as alone", run: func() (string, error) {
					// the goroutines walk the same few values in step, so that the same value is often in flight twice
					for i := 0; i < iters; i++ {
						k := (i/3 + g%2) % nvals
						enc, err := codec.Encode(gen.ToGo(vals[k], dt, rep).Interface(), gv)
						if err != nil {
							return "", err
						}
						if !bytes.Equal(enc, encs[k]) {
							return fmt.Sprintf("iteration %d: value %d encodes to %x, alone to %x", i, k, enc, encs[k]), nil
						}
						dest := reflect.New(topDestType(rep))
						if _, err := codec.Decode(encs[k], dest.Interface(), gv); err != nil {
							return "", err
						}
						got, err := gen.FromGo(dest.Elem(), dt)
						if err != nil {
							return "", err
						}
						if r := gen.RenderAV(dt, got); r != wants[k] {
							return fmt.Sprintf("iteration %d: value %d decodes to %s, alone to %s", i, k, r, wants[k]), nil
						}
					}
					return "all as alone", nil
				}}
				items[g] = append(items[g], it)
				n++
			}
		}
	}
	yields := rapid.SliceOfN(rapid.IntRange(0, 3), m, m).Draw(rt, "yields")
	start := make(chan struct{})
	var wg sync.WaitGroup
	var mu sync.Mutex
	var failures []string
	coldGot := map[*c18Item]string{}
	for g := 0; g < m; g++ {
		wg.Add(1)
		go func(g int) {
			defer wg.Done()
			<-start
			for r := 0; r < repeat; r++ {
				for _, it := range items[g] {
					for y := 0; y < yields[g]; y++ {
						runtime.Gosched()
					}
					got, err := it.run()
					if cold {
						if err != nil {
							got = "error"
						}
						mu.Lock()
						if prev, ok := coldGot[it]; ok && prev != got {
							failures = append(failures, fmt.Sprintf("goroutine %d: %s: two concurrent runs of the same call gave %q and %q", g, it.name, clipS(prev), clipS(got)))
						}
						coldGot[it] = got
						mu.Unlock()
						continue
					}
					if err != nil || got != it.want {
						mu.Lock()
						failures = append(failures, fmt.Sprintf("goroutine %d: %s: concurrent result %q (err=%v) differs from the sequential result %q", g, it.name, clipS(got), err, clipS(it.want)))
						mu.Unlock()
					}
				}
			}
		}(g)
	}
	close(start)
	wg.Wait()
	if cold {
		for _, its := range items {
			for _, it := range its {
				want, err := it.run()
				if err != nil {
					want = "error"
				}
				if got := coldGot[it]; got != want {
					failures = append(failures, fmt.Sprintf("%s: concurrent result %q differs from the result of the same call made afterwards on its own %q", it.name, clipS(got), clipS(want)))
				}
			}
		}
	}
	if len(failures) > 0 {
		rt.Fatalf("%d of the concurrent calls disagree with their sequential results, e.g. %s", len(failures), failures[0])
	}
	var names []string
	for _, its := range items {
		for _, it := range its {
			names = append(names, it.name)
		}
	}
	rec.Case(true, stats.HashString(fmt.Sprintf("%d/%d/%d/%v", m, per, repeat, names)), func() string {
		return fmt.Sprintf("%d goroutines x %d items x %d repeats on shared codecs: %v", m, per, repeat, names[:min(len(names), 12)])
	}, "round", fmt.Sprintf("goroutines:%d", m), fmt.Sprintf("cold-start:%v", cold))
	rec.Class("calls", int64(n*repeat))
}

func TestC18(t *testing.T) { rapid.Check(t, c18Property) }

var _ = primitive.ProtocolVersion4

// Cold processes: whatever the library initialises lazily on first use (lookup tables, caches, pools) is initialised here by
// 16 goroutines at once, in a process that has done nothing else yet. Each goroutine records what it got; afterwards the same
// calls are made one after the other and must give the same results. Built with -race like the rest of C18: a report in the
// fresh process fails the case.
func c18ColdHandler(args []string, _ []byte) string {
	const g = 16
	type op struct {
		name string
		run  func(k int) string
	}
	payload := func(k int) []byte { return gen.Expand(k%4, uint64(k)+1, 50+37*k) }
	ops := []op{
		{"segment/plain", func(k int) string {
			var buf bytes.Buffer
			c := segment.NewCodec()
			if err := c.EncodeSegment(&segment.Segment{Header: &segment.Header{IsSelfContained: k%2 == 0}, Payload: &segment.Payload{UncompressedData: payload(k)}}, &buf); err != nil {
				return "err:" + err.Error()
			}
			enc := append([]byte{}, buf.Bytes()...)
			d, err := c.DecodeSegment(bytes.NewReader(enc))
			if err != nil {
				return "err:" + err.Error()
			}
			return digestBytes(enc) + "/" + digestBytes(d.Payload.UncompressedData)
		}},
		{"segment/lz4", func(k int) string {
			var buf bytes.Buffer
			c := segment.NewCodecWithCompression(lz4.Compressor{})
			if err := c.EncodeSegment(&segment.Segment{Header: &segment.Header{IsSelfContained: true}, Payload: &segment.Payload{UncompressedData: payload(k)}}, &buf); err != nil {
				return "err:" + err.Error()
			}
			enc := append([]byte{}, buf.Bytes()...)
			d, err := c.DecodeSegment(bytes.NewReader(enc))
			if err != nil {
				return "err:" + err.Error()
			}
			return digestBytes(enc) + "/" + digestBytes(d.Payload.UncompressedData)
		}},
		{"frame", func(k int) string {
			comp := []compKind{compNone, compLz4, compSnappy}[k%3]
			c := newRawCodec(comp)
			f := frame.NewFrame(primitive.ProtocolVersion4, int16(k), &message.Query{Query: fmt.Sprintf("SELECT %d FROM t WHERE k = ? AND j = ? %s", k, strings.Repeat("x", k))})
			f.SetCompress(comp != compNone)
			enc, err := encodeFrame(c, f)
			if err != nil {
				return "err:" + err.Error()
			}
			d, err := c.DecodeFrame(bytes.NewReader(enc))
			if err != nil {
				return "err:" + err.Error()
			}
			d.Header.BodyLength = 0
			return digestBytes(enc) + "/" + fmt.Sprintf("%016x", canon.Hash(d))
		}},
		{"values", func(k int) string {
			out := ""
			for _, c := range []struct {
				codec datacodec.Codec
				v     interface{}
			}{{datacodec.Varint, int64(-k * 1000003)}, {datacodec.Timestamp, int64(k) * 86400000}, {datacodec.Decimal, datacodec.CqlDecimal{Unscaled: big.NewInt(int64(k) - 7), Scale: int32(k)}},
				{datacodec.Uuid, fmt.Sprintf("%08x-0000-1000-8000-00805f9b34fb", k)}, {datacodec.Date, int32(k)}, {datacodec.Duration, datacodec.CqlDuration{Months: int32(k), Days: 1, Nanos: 5}}} {
				b, err := c.codec.Encode(c.v, primitive.ProtocolVersion4)
				if err != nil {
					return "err:" + err.Error()
				}
				var any interface{}
				if _, err := c.codec.Decode(b, &any, primitive.ProtocolVersion4); err != nil {
					return "err:" + err.Error()
				}
				out += fmt.Sprintf("%x=%v;", b, any)
			}
			return out
		}},
	}
	results := make([][]string, g)
	var ready, wg sync.WaitGroup
	start := make(chan struct{})
	ready.Add(g)
	for k := 0; k < g; k++ {
		wg.Add(1)
		go func(k int) {
			defer wg.Done()
			ready.Done()
			<-start
			for _, o := range ops {
				results[k] = append(results[k], o.run(k))
			}
		}(k)
	}
	ready.Wait()
	close(start)
	wg.Wait()
	for k := 0; k < g; k++ {
		for i, o := range ops {
			if want := o.run(k); want != results[k][i] {
				return fmt.Sprintf("FAIL: %s (goroutine %d of %d starting together in a fresh process): concurrent first use gave %s, the same call made afterwards on its own gives %s", o.name, k, g, clipS(results[k][i]), clipS(want))
			}
		}
	}
	return "OK"
}

func init() { workerHandlers["c18cold"] = c18ColdHandler }

func TestC18ColdProcess(t *testing.T) {
	rec := stats.For("C18")
	n := 6
	if thorough() {
		n = 60
	}
	for i := 0; i < n; i++ {
		resp, stderr, err := runFreshWorker("c18cold", nil, nil, 8, 5*time.Minute)
		switch {
		case strings.Contains(stderr, "WARNING: DATA RACE"):
			t.Fatalf("data race during concurrent first use in a fresh process:\n%s", lastLines(stderr, 60))
		case strings.HasPrefix(resp, "FAIL:"):
			t.Fatalf("%s", resp)
		case resp != "OK":
			if err != nil && (strings.Contains(stderr, "out of memory") || strings.Contains(err.Error(), "did not finish")) {
				rec.Class("cold-process:skipped(resource)", 1)
				continue
			}
			t.Fatalf("fresh process failed: %v\n%s", err, lastLines(stderr, 40))
		}
		rec.Case(true, stats.HashString(fmt.Sprintf("cold/%d/%d", i, os.Getpid())), func() string {
			return "fresh process: 16 goroutines x {segment, LZ4 segment, frame x 3 compressors, 6 value codecs} first used concurrently, then compared with the same calls made alone"
		}, "cold-process")
	}
}
