//go:build verif

package props

// C16 timeout clause on a real connection: the client's ReadTimeout (drawn independently of its ConnectTimeout) is what
// fails a request whose response never arrives, and it does not fail one whose response arrives before it. A raw server
// peer completes the handshake, reads the request and then stays silent, or answers after a generated delay.
// Time bounds are generous: "not earlier" is judged against 60 % of the read timeout with the answer sent at <= 30 % of
// it; "fails after the read timeout" allows 8 s of slack and keeps the other timeout at least 20 s away.

import (
	"context"
	"encoding/json"
	"fmt"
	"net"
	"strings"
	"sync"
	"testing"
	"time"

	"github.com/datastax/go-cassandra-native-protocol/client"
	"github.com/datastax/go-cassandra-native-protocol/frame"
	"github.com/datastax/go-cassandra-native-protocol/message"
	"github.com/datastax/go-cassandra-native-protocol/primitive"
	"pgregory.net/rapid"

	"verifharness/ref"
	"verifharness/stats"
)

type c16SockSpec struct {
	Version     int
	ReadMs      int
	ConnectMs   int
	AnswerAtPct int // 0 = never answer; otherwise answer after this percentage of the read timeout
}

func c16SockSession(args []string, _ []byte) string {
	var spec c16SockSpec
	if err := json.Unmarshal([]byte(args[0]), &spec); err != nil {
		return "FAIL: harness: " + err.Error()
	}
	v := primitive.ProtocolVersion(spec.Version)
	readT := time.Duration(spec.ReadMs) * time.Millisecond
	const T = 10 * time.Second
	ln, err := net.Listen("tcp", "127.0.0.1:0")
	if err != nil {
		return "FAIL: harness: " + err.Error()
	}
	defer ln.Close()
	peer := make(chan string, 1)
	release := make(chan struct{})
	go func() {
		c, err := ln.Accept()
		if err != nil {
			peer <- "harness: accept: " + err.Error()
			return
		}
		defer c.Close()
		l := newRawLink(c)
		l.setDeadline(6 * T)
		if _, err := l.serverHandshake(false); err != nil {
			peer <- "raw server: " + err.Error()
			return
		}
		e, err := l.readEnvelope()
		if err != nil {
			peer <- "raw server: reading the request: " + err.Error()
			return
		}
		if spec.AnswerAtPct > 0 {
			time.Sleep(readT * time.Duration(spec.AnswerAtPct) / 100)
			enc, err := ref.EncodeFrame(taggedFinal(v, e.Stream, "late"))
			if err != nil {
				peer <- "harness: " + err.Error()
				return
			}
			if err := l.writeEnvelopes([][]byte{enc.Flat(nil)}, false, nil, true); err != nil {
				peer <- "raw server: write: " + err.Error()
				return
			}
		}
		peer <- ""
		<-release // keep the TCP connection open: silence, not peer loss
	}()
	defer close(release)

	cl := client.NewCqlClient(ln.Addr().String(), nil)
	cl.ReadTimeout = readT
	cl.ConnectTimeout = time.Duration(spec.ConnectMs) * time.Millisecond
	ctx, cancel := context.WithCancel(context.Background())
	defer cancel()
	var cc *client.CqlClientConnection
	if err := within(T, "ConnectAndInit", func() (err error) { cc, err = cl.ConnectAndInit(ctx, v, client.ManagedStreamId); return }); err != nil {
		return "SKIP: handshake with the raw server failed (timeouts this short can fail the handshake itself): " + err.Error()
	}
	defer cc.Close()
	sent := time.Now()
	req, err := cc.Send(frame.NewFrame(v, client.ManagedStreamId, &message.Query{Query: "q"}))
	if err != nil {
		return "FAIL: Send: " + err.Error()
	}
	var f *frame.Frame
	var rerr error
	if err := within(readT+8*time.Second, "Receive", func() error { f, rerr = cc.Receive(req); return nil }); err != nil {
		return fmt.Sprintf("FAIL: request still pending %v after it was sent, with a read timeout of %v (connect timeout %v) and a silent peer", time.Since(sent), readT, cl.ConnectTimeout)
	}
	took := time.Since(sent)
	if p := <-peer; p != "" {
		return "SKIP: " + p
	}
	if spec.AnswerAtPct > 0 {
		if rerr != nil || f == nil {
			if took > readT*6/10 {
				return "SKIP: noisy timing (the answer due at 30 % of the read timeout was not seen before 60 %)"
			}
			return fmt.Sprintf("FAIL: request failed after %v (%v) although its response was sent after %d %% of the read timeout %v (connect timeout %v)", took, rerr, spec.AnswerAtPct, readT, cl.ConnectTimeout)
		}
		if tagOf(f) != "late" {
			return "FAIL: request received " + tagOf(f)
		}
		return "OK"
	}
	if rerr == nil {
		return fmt.Sprintf("FAIL: Receive returned a frame (%v) from a silent peer", f)
	}
	if took < readT*8/10 {
		return fmt.Sprintf("FAIL: request failed after only %v of silence (%v); the read timeout is %v (connect timeout %v)", took, rerr, readT, cl.ConnectTimeout)
	}
	if !req.IsDone() || req.Err() == nil {
		return fmt.Sprintf("FAIL: timed-out request has IsDone=%v Err=%v", req.IsDone(), req.Err())
	}
	return "OK"
}

func init() { workerHandlers["c16sock"] = c16SockSession }

func c16SocketTimeout(rt *rapid.T) {
	if !everyNth("c16SocketTimeout", 2, 15) {
		return
	}
	defer noteFailure()
	rec := stats.For("C16")
	spec := c16SockSpec{Version: int(rapid.SampledFrom(allVersions).Draw(rt, "version"))}
	if rapid.Bool().Draw(rt, "silent") {
		// silence: short read timeout, the other timeout far away
		spec.ReadMs = rapid.SampledFrom([]int{150, 300, 600}).Draw(rt, "readMs")
		spec.ConnectMs = rapid.SampledFrom([]int{20000, 30000, 60000}).Draw(rt, "connectMs")
	} else {
		// late answer: long read timeout, the other timeout short; the answer comes well after the short one
		spec.ReadMs = rapid.SampledFrom([]int{3000, 4000}).Draw(rt, "readMs")
		spec.ConnectMs = rapid.SampledFrom([]int{250, 400}).Draw(rt, "connectMs")
		spec.AnswerAtPct = rapid.SampledFrom([]int{20, 30}).Draw(rt, "answerAtPct")
	}
	sj, _ := json.Marshal(spec)
	verdict := isolated("c16sock", []string{string(sj)}, nil)
	verdict = harnessTrouble(verdict)
	if strings.HasPrefix(verdict, "FAIL:") {
		rt.Fatalf("%s\nspec %s", verdict, sj)
	}
	if strings.HasPrefix(verdict, "SKIP:") {
		rec.Case(false, 0, nil, "socket-timeout-skipped:"+clipS(verdict))
		return
	}
	rec.Case(true, stats.HashString("socktimeout/"+string(sj)), func() string { return "socket timeout clause: " + string(sj) }, "socket-timeout", fmt.Sprintf("socket-timeout:silent=%v", spec.AnswerAtPct == 0))
}

func TestC16SocketTimeout(t *testing.T) { rapid.Check(t, c16SocketTimeout) }

// Send racing with the end of the connection: goroutines keep calling Send on the client connection (and on the server
// connection) without pause while the connection is closed from one of its ends, over and over. Nothing may panic (a send
// on a channel that Close has just closed takes the whole process down), every Send returns, everything closes.
type c16RaceSpec struct {
	Version int
	Rounds  int
	Senders int
	Fault   string // "client-close" | "server-conn-close" | "server-close" | "ctx-cancel"
	DelayUs int
}

func c16RaceSession(args []string, _ []byte) string {
	var spec c16RaceSpec
	if err := json.Unmarshal([]byte(args[0]), &spec); err != nil {
		return "FAIL: harness: " + err.Error()
	}
	v := primitive.ProtocolVersion(spec.Version)
	const T = 10 * time.Second
	for round := 0; round < spec.Rounds; round++ {
		ctx, cancel := context.WithCancel(context.Background())
		srv := client.NewCqlServer("127.0.0.1:0", nil)
		if err := srv.Start(context.Background()); err != nil {
			cancel()
			return "FAIL: harness: server start: " + err.Error()
		}
		cl := client.NewCqlClient(srv.VerifAddr().String(), nil)
		cl.MaxInFlight = 32000
		var cc *client.CqlClientConnection
		var sc *client.CqlServerConnection
		if err := within(T, "BindAndInit", func() (err error) { cc, sc, err = srv.BindAndInit(cl, ctx, v, client.ManagedStreamId); return }); err != nil {
			cancel()
			_ = srv.Close()
			return "FAIL: harness: bind: " + err.Error()
		}
		var wg sync.WaitGroup
		stop := make(chan struct{})
		for g := 0; g < spec.Senders; g++ {
			wg.Add(2)
			go func() {
				defer wg.Done()
				for {
					select {
					case <-stop:
						return
					default:
					}
					_, _ = cc.Send(frame.NewFrame(v, client.ManagedStreamId, &message.Options{}))
				}
			}()
			go func() {
				defer wg.Done()
				for {
					select {
					case <-stop:
						return
					default:
					}
					_ = sc.Send(frame.NewFrame(v, 1, &message.Supported{}))
				}
			}()
		}
		time.Sleep(time.Duration(spec.DelayUs+round*37%500) * time.Microsecond)
		closed := make(chan struct{})
		go func() {
			defer close(closed)
			switch spec.Fault {
			case "client-close":
				_ = cc.Close()
			case "server-conn-close":
				_ = sc.Close()
			case "server-close":
				_ = srv.Close()
			default:
				cancel()
			}
		}()
		// the senders spin without pause; on a saturated machine with GOMAXPROCS=2 they can starve the closing goroutine for
		// seconds. Whether Close returns is therefore judged after the senders were told to stop: a close that is merely
		// starved returns then, one that is deadlocked does not.
		stopped := false
		select {
		case <-closed:
		case <-time.After(T / 5):
			close(stop)
			stopped = true
			select {
			case <-closed:
			case <-time.After(T):
				return fmt.Sprintf("FAIL: %s did not return within %v (the last %v with no goroutine calling Send any more) after %d goroutines kept calling Send (round %d)", spec.Fault, T+T/5, T, 2*spec.Senders, round)
			}
		}
		if !stopped {
			time.Sleep(2 * time.Millisecond)
			close(stop)
		}
		done := make(chan struct{})
		go func() { wg.Wait(); close(done) }()
		select {
		case <-done:
		case <-time.After(T):
			return fmt.Sprintf("FAIL: a Send did not return within %v of the connection being closed (round %d)", T, round)
		}
		for _, f := range []func() error{cc.Close, sc.Close, srv.Close} {
			f := f
			if err := within(T, "Close", func() error { _ = f(); return nil }); err != nil {
				cancel()
				return "FAIL: " + err.Error()
			}
		}
		cancel()
	}
	return "OK"
}

func init() { workerHandlers["c16race"] = c16RaceSession }

func c16SendCloseRace(rt *rapid.T) {
	if !everyNth("c16SendCloseRace", 2, 10) {
		return
	}
	defer noteFailure()
	rec := stats.For("C16")
	spec := c16RaceSpec{Version: int(rapid.SampledFrom(allVersions).Draw(rt, "version")), Rounds: rapid.IntRange(5, 25).Draw(rt, "rounds"), Senders: rapid.IntRange(1, 4).Draw(rt, "senders"),
		Fault: rapid.SampledFrom([]string{"client-close", "server-conn-close", "server-close", "ctx-cancel"}).Draw(rt, "fault"), DelayUs: rapid.SampledFrom([]int{0, 20, 100, 400, 1500}).Draw(rt, "delayUs")}
	sj, _ := json.Marshal(spec)
	verdict := isolated("c16race", []string{string(sj)}, nil)
	verdict = harnessTrouble(verdict)
	if strings.HasPrefix(verdict, "FAIL:") {
		rt.Fatalf("%s\nspec %s", verdict, sj)
	}
	if strings.HasPrefix(verdict, "SKIP:") {
		rec.Case(false, 0, nil, "skipped:send-close-race")
		return
	}
	rec.Case(true, stats.HashString("race/"+string(sj)), func() string { return "Send racing with Close: " + string(sj) }, "send-close-race")
	rec.Class("send-close-race-rounds", int64(spec.Rounds))
}

func TestC16SendCloseRace(t *testing.T) { rapid.Check(t, c16SendCloseRace) }
