//go:build verif

package props

// C16 timeout clause on a real connection: the client's ReadTimeout (drawn independently of its ConnectTimeout) is what
// fails a request whose response never arrives, and it does not fail one whose response arrives before it. A raw server
// peer completes the handshake, reads the request and then stays silent, or answers after a generated delay.
// Time bounds are generous: "not earlier" is judged against 60 % of the read timeout with the answer sent at <= 30 % of
// it; "fails after the read timeout" allows 8 s of slack and keeps the other timeout at least 20 s away.

import (
	"context"
	"encoding/json"
	"fmt"
	"net"
	"strings"
	"testing"
	"time"

	"github.com/datastax/go-cassandra-native-protocol/client"
	"github.com/datastax/go-cassandra-native-protocol/frame"
	"github.com/datastax/go-cassandra-native-protocol/message"
	"github.com/datastax/go-cassandra-native-protocol/primitive"
	"pgregory.net/rapid"

	"verifharness/ref"
	"verifharness/stats"
)

type c16SockSpec struct {
	Version     int
	ReadMs      int
	ConnectMs   int
	AnswerAtPct int // 0 = never answer; otherwise answer after this percentage of the read timeout
}

func c16SockSession(args []string, _ []byte) string {
	var spec c16SockSpec
	if err := json.Unmarshal([]byte(args[0]), &spec); err != nil {
		return "FAIL: harness: " + err.Error()
	}
	v := primitive.ProtocolVersion(spec.Version)
	readT := time.Duration(spec.ReadMs) * time.Millisecond
	const T = 10 * time.Second
	ln, err := net.Listen("tcp", "127.0.0.1:0")
	if err != nil {
		return "FAIL: harness: " + err.Error()
	}
	defer ln.Close()
	peer := make(chan string, 1)
	release := make(chan struct{})
	go func() {
		c, err := ln.Accept()
		if err != nil {
			peer <- "harness: accept: " + err.Error()
			return
		}
		defer c.Close()
		l := newRawLink(c)
		l.setDeadline(6 * T)
		if _, err := l.serverHandshake(false); err != nil {
			peer <- "raw server: " + err.Error()
			return
		}
		e, err := l.readEnvelope()
		if err != nil {
			peer <- "raw server: reading the request: " + err.Error()
			return
		}
		if spec.AnswerAtPct > 0 {
			time.Sleep(readT * time.Duration(spec.AnswerAtPct) / 100)
			enc, err := ref.EncodeFrame(taggedFinal(v, e.Stream, "late"))
			if err != nil {
				peer <- "harness: " + err.Error()
				return
			}
			if err := l.writeEnvelopes([][]byte{enc.Flat(nil)}, false, nil, true); err != nil {
				peer <- "raw server: write: " + err.Error()
				return
			}
		}
		peer <- ""
		<-release // keep the TCP connection open: silence, not peer loss
	}()
	defer close(release)

	cl := client.NewCqlClient(ln.Addr().String(), nil)
	cl.ReadTimeout = readT
	cl.ConnectTimeout = time.Duration(spec.ConnectMs) * time.Millisecond
	ctx, cancel := context.WithCancel(context.Background())
	defer cancel()
	var cc *client.CqlClientConnection
	if err := within(T, "ConnectAndInit", func() (err error) { cc, err = cl.ConnectAndInit(ctx, v, client.ManagedStreamId); return }); err != nil {
		return "SKIP: handshake with the raw server failed (timeouts this short can fail the handshake itself): " + err.Error()
	}
	defer cc.Close()
	sent := time.Now()
	req, err := cc.Send(frame.NewFrame(v, client.ManagedStreamId, &message.Query{Query: "q"}))
	if err != nil {
		return "FAIL: Send: " + err.Error()
	}
	var f *frame.Frame
	var rerr error
	if err := within(readT+8*time.Second, "Receive", func() error { f, rerr = cc.Receive(req); return nil }); err != nil {
		return fmt.Sprintf("FAIL: request still pending %v after it was sent, with a read timeout of %v (connect timeout %v) and a silent peer", time.Since(sent), readT, cl.ConnectTimeout)
	}
	took := time.Since(sent)
	if p := <-peer; p != "" {
		return "SKIP: " + p
	}
	if spec.AnswerAtPct > 0 {
		if rerr != nil || f == nil {
			if took > readT*6/10 {
				return "SKIP: noisy timing (the answer due at 30 % of the read timeout was not seen before 60 %)"
			}
			return fmt.Sprintf("FAIL: request failed after %v (%v) although its response was sent after %d %% of the read timeout %v (connect timeout %v)", took, rerr, spec.AnswerAtPct, readT, cl.ConnectTimeout)
		}
		if tagOf(f) != "late" {
			return "FAIL: request received " + tagOf(f)
		}
		return "OK"
	}
	if rerr == nil {
		return fmt.Sprintf("FAIL: Receive returned a frame (%v) from a silent peer", f)
	}
	if took < readT*8/10 {
		return fmt.Sprintf("FAIL: request failed after only %v of silence (%v); the read timeout is %v (connect timeout %v)", took, rerr, readT, cl.ConnectTimeout)
	}
	if !req.IsDone() || req.Err() == nil {
		return fmt.Sprintf("FAIL: timed-out request has IsDone=%v Err=%v", req.IsDone(), req.Err())
	}
	return "OK"
}

func init() { workerHandlers["c16sock"] = c16SockSession }

func c16SocketTimeout(rt *rapid.T) {
	if !everyNth("c16SocketTimeout", 2, 15) {
		return
	}
	defer noteFailure()
	rec := stats.For("C16")
	spec := c16SockSpec{Version: int(rapid.SampledFrom(allVersions).Draw(rt, "version"))}
	if rapid.Bool().Draw(rt, "silent") {
		// silence: short read timeout, the other timeout far away
		spec.ReadMs = rapid.SampledFrom([]int{150, 300, 600}).Draw(rt, "readMs")
		spec.ConnectMs = rapid.SampledFrom([]int{20000, 30000, 60000}).Draw(rt, "connectMs")
	} else {
		// late answer: long read timeout, the other timeout short; the answer comes well after the short one
		spec.ReadMs = rapid.SampledFrom([]int{3000, 4000}).Draw(rt, "readMs")
		spec.ConnectMs = rapid.SampledFrom([]int{250, 400}).Draw(rt, "connectMs")
		spec.AnswerAtPct = rapid.SampledFrom([]int{20, 30}).Draw(rt, "answerAtPct")
	}
	sj, _ := json.Marshal(spec)
	verdict := isolated("c16sock", []string{string(sj)}, nil)
	verdict = harnessTrouble(verdict)
	if strings.HasPrefix(verdict, "FAIL:") {
		rt.Fatalf("%s\nspec %s", verdict, sj)
	}
	if strings.HasPrefix(verdict, "SKIP:") {
		rec.Case(false, 0, nil, "socket-timeout-skipped:"+clipS(verdict))
		return
	}
	rec.Case(true, stats.HashString("socktimeout/"+string(sj)), func() string { return "socket timeout clause: " + string(sj) }, "socket-timeout", fmt.Sprintf("socket-timeout:silent=%v", spec.AnswerAtPct == 0))
}

func TestC16SocketTimeout(t *testing.T) { rapid.Check(t, c16SocketTimeout) }
