package props

// C20: frame mutators keep flags and body in step; STARTUP option accessors are mutually consistent.
// Stateful generation: sequences of mutator calls with nil / empty / non-empty arguments against a model of which
// optional parts are present; sequences of Startup setters/getters against a model map.

import (
	"bytes"
	"fmt"
	"testing"

	"github.com/datastax/go-cassandra-native-protocol/frame"
	"github.com/datastax/go-cassandra-native-protocol/message"
	"github.com/datastax/go-cassandra-native-protocol/primitive"
	"pgregory.net/rapid"

	"verifharness/canon"
	"verifharness/gen"
	"verifharness/stats"
)

func c20Mutators(rt *rapid.T) {
	rec := stats.For("C20")
	v := gen.Version(rt)
	kind, msg := gen.Message(rt, v, genOpts())
	f := frame.NewFrame(v, gen.StreamId(rt, v, false), msg)
	codec, spy := newSpyCodec(compLz4)
	var mPayload, mWarnings, mTracing, mCompress bool
	op := msg.GetOpCode()
	compressible := op != primitive.OpCodeStartup && op != primitive.OpCodeOptions && op != primitive.OpCodeReady
	var history []string
	interesting := false
	setThenClear := map[string]bool{}
	steps := rapid.IntRange(1, 12).Draw(rt, "steps")
	for i := 0; i < steps; i++ {
		var acts []string
		acts = append(acts, "SetCompress")
		if gen.AtLeast(v, 4) {
			acts = append(acts, "SetCustomPayload")
		}
		if kind.Response {
			acts = append(acts, "SetTracingId")
			if gen.AtLeast(v, 4) {
				acts = append(acts, "SetWarnings")
			}
		} else {
			// SetTracingId on a request: "tracing ids can only be used with response frames ... ignored otherwise" - the
			// flag follows the call, the id itself must never reach the wire
			acts = append(acts, "RequestTracingId", "SetTracingId")
		}
		a := rapid.SampledFrom(acts).Draw(rt, fmt.Sprintf("act%d", i))
		arg := rapid.IntRange(0, 2).Draw(rt, fmt.Sprintf("arg%d", i)) // 0 nil, 1 empty, 2 non-empty
		switch a {
		case "SetCustomPayload":
			switch arg {
			case 0:
				f.SetCustomPayload(nil)
			case 1:
				f.SetCustomPayload(map[string][]byte{})
			default:
				f.SetCustomPayload(gen.CustomPayload(rt, fmt.Sprintf("payload%d", i)))
			}
			if mPayload && arg != 2 {
				setThenClear[a] = true
			}
			mPayload = arg == 2
		case "SetWarnings":
			switch arg {
			case 0:
				f.SetWarnings(nil)
			case 1:
				f.SetWarnings([]string{})
			default:
				f.SetWarnings([]string{gen.Str(rt, fmt.Sprintf("warning%d", i)), "w"})
			}
			if mWarnings && arg != 2 {
				setThenClear[a] = true
			}
			mWarnings = arg == 2
		case "SetTracingId":
			if arg == 0 {
				f.SetTracingId(nil)
			} else {
				f.SetTracingId(gen.UUID(rt, fmt.Sprintf("tracing%d", i)))
			}
			if mTracing && arg == 0 {
				setThenClear[a] = true
			}
			mTracing = arg != 0
		case "RequestTracingId":
			f.RequestTracingId(arg != 0)
			if mTracing && arg == 0 {
				setThenClear[a] = true
			}
			mTracing = arg != 0
		case "SetCompress":
			f.SetCompress(arg != 0)
			if arg != 0 && !compressible {
				interesting = true
			}
			if mCompress && arg == 0 {
				setThenClear[a] = true
			}
			mCompress = arg != 0 && compressible
		}
		history = append(history, fmt.Sprintf("%s(%d)", a, arg))
		fl := f.Header.Flags
		check := func(flag primitive.HeaderFlag, want bool, name string) {
			if fl.Contains(flag) != want {
				rt.Fatalf("after %v on %s v%d: flag %s is %v, but the part is present=%v", history, kind.Name, v, name, fl.Contains(flag), want)
			}
		}
		check(primitive.HeaderFlagCustomPayload, mPayload, "CUSTOM_PAYLOAD")
		check(primitive.HeaderFlagWarning, mWarnings, "WARNING")
		check(primitive.HeaderFlagTracing, mTracing, "TRACING")
		check(primitive.HeaderFlagCompressed, mCompress, "COMPRESSED")
		if (f.Body.CustomPayload != nil && len(f.Body.CustomPayload) > 0) != mPayload || (len(f.Body.Warnings) > 0) != mWarnings || (kind.Response && (f.Body.TracingId != nil) != mTracing) {
			rt.Fatalf("after %v: body parts do not match what was set: %s", history, canon.Render(f.Body))
		}
		// the frame still encodes and round-trips
		if spy != nil {
			spy.in, spy.out = nil, nil
		}
		enc, err := encodeFrame(codec, f)
		if err != nil {
			rt.Fatalf("after %v the frame no longer encodes: %v\n%s", history, err, canon.Render(f))
		}
		if mCompress && knownLz4("C20", spy) {
			continue
		}
		dec, err := codec.DecodeFrame(bytes.NewReader(enc))
		if err != nil {
			rt.Fatalf("after %v the encoded frame does not decode: %v\n%s", history, err, canon.Render(f))
		}
		if d := diffFrames(f, dec); d != "" {
			rt.Fatalf("after %v the frame does not round-trip: %s\n%s", history, d, canon.Render(f))
		}
		// ... also on a stream (the header must announce exactly the body that was written: the same Frame object has been
		// encoded before, with other parts and another compression setting)
		src := bytes.NewReader(append(append([]byte{}, enc...), 0xEE, 0xEE))
		raw, err := codec.DecodeRawFrame(src)
		if err != nil {
			rt.Fatalf("after %v the encoded frame, followed by other bytes, does not decode as a raw frame: %v\n%s", history, err, canon.Render(f))
		}
		if src.Len() != 2 {
			rt.Fatalf("after %v the header announces a body of %d bytes but %d were written (%d bytes of the stream left instead of 2)", history, raw.Header.BodyLength, len(enc)-hdrLen(v), src.Len())
		}
		if dec2, err := codec.ConvertFromRawFrame(raw); err != nil {
			rt.Fatalf("after %v the raw frame does not convert: %v", history, err)
		} else if d := diffFrames(f, dec2); d != "" {
			rt.Fatalf("after %v the frame does not round-trip through the raw path: %s", history, d)
		}
	}
	if len(setThenClear) > 0 {
		interesting = true
	}
	rec.Case(interesting, stats.HashString(fmt.Sprintf("%s/%d/%v", kind.Name, v, history)), func() string {
		return fmt.Sprintf("%s v%d: %v", kind.Name, v, history)
	}, "mutators", "kind:"+kind.Name, fmt.Sprintf("setThenClear:%d", len(setThenClear)))
}

func TestC20Mutators(t *testing.T) { rapid.Check(t, c20Mutators) }

func c20Startup(rt *rapid.T) {
	rec := stats.For("C20")
	var m *message.Startup
	model := map[string]string{}
	if rapid.Bool().Draw(rt, "new") {
		m = message.NewStartup()
		model[message.StartupOptionCqlVersion] = "3.0.0"
	} else {
		kv := []string{}
		for i, n := 0, rapid.IntRange(0, 3).Draw(rt, "nkv"); i < n; i++ {
			k, val := gen.Str(rt, fmt.Sprintf("ik%d", i)), gen.Str(rt, fmt.Sprintf("iv%d", i))
			kv = append(kv, k, val)
		}
		m = message.NewStartup(kv...)
		model[message.StartupOptionCqlVersion] = "3.0.0"
		for i := 0; i < len(kv); i += 2 {
			model[kv[i]] = kv[i+1]
		}
	}
	type strAcc struct {
		key string
		set func(string)
		get func() string
	}
	accs := map[string]strAcc{
		"ClientId":           {message.StartupOptionClientId, m.SetClientId, m.GetClientId},
		"ApplicationName":    {message.StartupOptionApplicationName, m.SetApplicationName, m.GetApplicationName},
		"ApplicationVersion": {message.StartupOptionApplicationVersion, m.SetApplicationVersion, m.GetApplicationVersion},
		"DriverName":         {message.StartupOptionDriverName, m.SetDriverName, m.GetDriverName},
		"DriverVersion":      {message.StartupOptionDriverVersion, m.SetDriverVersion, m.GetDriverVersion},
	}
	names := []string{"ClientId", "ApplicationName", "ApplicationVersion", "DriverName", "DriverVersion", "Compression", "ThrowOnOverload", "getters"}
	var history []string
	used := map[string]bool{}
	throwModel, throwKnown := false, false
	steps := rapid.IntRange(1, 14).Draw(rt, "steps")
	for i := 0; i < steps; i++ {
		a := rapid.SampledFrom(names).Draw(rt, fmt.Sprintf("act%d", i))
		used[a] = true
		switch a {
		case "Compression":
			c := rapid.SampledFrom([]primitive.Compression{primitive.CompressionNone, primitive.CompressionLz4, primitive.CompressionSnappy}).Draw(rt, fmt.Sprintf("c%d", i))
			if rapid.IntRange(0, 2).Draw(rt, fmt.Sprintf("carb%d", i)) == 0 {
				// the parameter type is a string type: any string may be stored and must be returned as stored
				c = primitive.Compression(rapid.SampledFrom([]string{"lz4", "Snappy", "zstd", "none", "", " LZ4", "LZ4 "}).Draw(rt, fmt.Sprintf("cs%d", i)))
				if rapid.Bool().Draw(rt, fmt.Sprintf("cany%d", i)) {
					c = primitive.Compression(gen.Str(rt, fmt.Sprintf("cstr%d", i)))
				}
			}
			m.SetCompression(c)
			if c == primitive.CompressionNone {
				delete(model, message.StartupOptionCompression)
			} else {
				model[message.StartupOptionCompression] = string(c)
			}
			history = append(history, fmt.Sprintf("SetCompression(%s)", c))
			if got := m.GetCompression(); got != c {
				rt.Fatalf("after %v: GetCompression()=%q", history, got)
			}
		case "ThrowOnOverload":
			b := rapid.Bool().Draw(rt, fmt.Sprintf("b%d", i))
			m.SetThrowOnOverload(b)
			throwModel, throwKnown = b, true
			history = append(history, fmt.Sprintf("SetThrowOnOverload(%v)", b))
			// the accessor's own key may hold whatever the library chooses, as long as the getter agrees
			if val, ok := m.Options[message.StartupOptionThrowOnOverload]; ok {
				model[message.StartupOptionThrowOnOverload] = val
			} else {
				delete(model, message.StartupOptionThrowOnOverload)
			}
		case "getters":
			history = append(history, "getters")
		default:
			acc := accs[a]
			s := gen.Str(rt, fmt.Sprintf("s%d", i))
			acc.set(s)
			model[acc.key] = s
			history = append(history, fmt.Sprintf("Set%s(%q)", a, clipS(s)))
		}
		// every getter agrees with the model, and no other option changed
		for n, acc := range accs {
			if got := acc.get(); got != model[acc.key] {
				rt.Fatalf("after %v: Get%s()=%q, last stored %q", history, n, clipS(got), clipS(model[acc.key]))
			}
		}
		if throwKnown && m.IsThrowOnOverload() != throwModel {
			rt.Fatalf("after %v: IsThrowOnOverload()=%v, last set %v", history, m.IsThrowOnOverload(), throwModel)
		}
		if !throwKnown {
			val, ok := model[message.StartupOptionThrowOnOverload]
			if m.IsThrowOnOverload() != (ok && val == "1") {
				rt.Fatalf("after %v: IsThrowOnOverload()=%v with option %q", history, m.IsThrowOnOverload(), val)
			}
		}
		wantC := primitive.CompressionNone
		if c, ok := model[message.StartupOptionCompression]; ok {
			wantC = primitive.Compression(c)
		}
		if got := m.GetCompression(); got != wantC {
			rt.Fatalf("after %v: GetCompression()=%q, model %q", history, got, wantC)
		}
		if d := canon.Diff(model, m.Options); d != "" {
			rt.Fatalf("after %v: the options map is not what the setters stored (an unrelated option changed?): %s\noptions=%v\nmodel=%v", history, d, m.Options, model)
		}
	}
	rec.Case(len(used) >= 2, stats.HashString(fmt.Sprint(history)), func() string { return fmt.Sprintf("startup accessors: %v", history) }, "startup")
}

func clipS(s string) string {
	if len(s) > 40 {
		return s[:40] + "..."
	}
	return s
}

func TestC20Startup(t *testing.T) { rapid.Check(t, c20Startup) }
