package props

// C11: CQL value codecs round-trip every value of every type.
// C12: CQL values are serialized exactly as the specification's formats prescribe.
// Both share the generated case: (CQL type tree, protocol version, Go representation per node, abstract value).

import (
	"bytes"
	"fmt"
	"math/big"
	"reflect"
	"testing"

	"github.com/datastax/go-cassandra-native-protocol/datacodec"
	"github.com/datastax/go-cassandra-native-protocol/datatype"
	"github.com/datastax/go-cassandra-native-protocol/primitive"
	"pgregory.net/rapid"

	"verifharness/gen"
	"verifharness/ref"
	"verifharness/stats"
)

type valueCase struct {
	v   primitive.ProtocolVersion
	dt  datatype.DataType
	rep *gen.Rep
	av  gen.AV
}

func (c valueCase) String() string {
	return fmt.Sprintf("type=%s version=%d rep=%s value=%s", c.dt.AsCql(), c.v, c.rep, clip200(gen.RenderAV(c.dt, c.av)))
}

func valueDepth() int {
	if thorough() {
		return 4
	}
	return 2
}

// largeElementCase: collections whose elements sit at the size boundaries of their length prefix - a [short] in protocol
// v2 (32767, 32768, 65535 bytes), an [int] from v3 (up to 70000 bytes here). The general generator keeps v2 elements
// small so that nested collections stay below 65536 bytes; here the large element is a direct child of the top level.
func largeElementCase(rt *rapid.T) valueCase {
	v := gen.Version(rt)
	if rapid.Bool().Draw(rt, "v2") {
		v = primitive.ProtocolVersion2
	}
	et := rapid.SampledFrom([]datatype.DataType{datatype.Blob, datatype.Varchar, datatype.Ascii}).Draw(rt, "elementType")
	var dt datatype.DataType
	shape := rapid.IntRange(0, 3).Draw(rt, "shape")
	switch shape {
	case 0:
		dt = datatype.NewList(et)
	case 1:
		dt = datatype.NewSet(et)
	case 2:
		dt = datatype.NewMap(datatype.Int, et)
	default:
		dt = datatype.NewMap(et, datatype.Int)
	}
	rep := gen.DrawRep(rt, dt, false, "rep")
	rep.Iface = false
	sizes := []int{32767, 32768, 40000, 65535}
	if v != primitive.ProtocolVersion2 {
		sizes = append(sizes, 65536, 70000)
	}
	n := rapid.IntRange(1, 3).Draw(rt, "n")
	if rep.Kind == "array" {
		rep.ArrLen = n
	}
	av := gen.AV{Elems: []gen.AV{}}
	for i := 0; i < n; i++ {
		size := rapid.SampledFrom(sizes).Draw(rt, fmt.Sprintf("size%d", i))
		if i > 0 && rapid.Bool().Draw(rt, fmt.Sprintf("small%d", i)) {
			size = rapid.IntRange(1, 20).Draw(rt, fmt.Sprintf("smallSize%d", i))
		}
		b := bytes.Repeat([]byte{'a'}, size) // plain ASCII: exact in every representation
		b[0] = byte('0' + i)                 // distinct elements (sets, map keys)
		b[size-1] = byte('x' + i)
		big := gen.AV{Bytes: b}
		num := gen.AV{Int: big64(int64(i))}
		switch shape {
		case 2:
			av.Keys = append(av.Keys, num)
			av.Elems = append(av.Elems, big)
		case 3:
			av.Keys = append(av.Keys, big)
			av.Elems = append(av.Elems, num)
		default:
			av.Elems = append(av.Elems, big)
		}
	}
	return valueCase{v, dt, rep, av}
}

// manyElementsCase: collections whose element COUNT sits at the boundaries of the count prefix - a [short] in protocol v2
// (32767, 32768, 40000, 65535 elements), an [int] from v3 (also 65536 and 70000 here). Elements are small integers.
func manyElementsCase(rt *rapid.T) valueCase {
	v := gen.Version(rt)
	if rapid.Bool().Draw(rt, "v2") {
		v = primitive.ProtocolVersion2
	}
	et := rapid.SampledFrom([]datatype.DataType{datatype.Int, datatype.Bigint}).Draw(rt, "elementType")
	var dt datatype.DataType
	shape := rapid.IntRange(0, 2).Draw(rt, "shape")
	switch shape {
	case 0:
		dt = datatype.NewList(et)
	case 1:
		dt = datatype.NewSet(et)
	default:
		dt = datatype.NewMap(et, datatype.Int)
	}
	counts := []int{32767, 32768, 40000, 65535}
	if v != primitive.ProtocolVersion2 {
		counts = append(counts, 65536, 70000)
	}
	n := rapid.SampledFrom(counts).Draw(rt, "count")
	rep := gen.DrawRep(rt, dt, false, "rep")
	rep.Iface = false
	if rep.Kind == "array" {
		rep.ArrLen = n
	}
	// tens of thousands of distinct integers: the element (and key) representation must be wide enough to hold them
	rep.Elem.Kind = gen.PreferredKind(datatype.Int.Code())
	if shape != 2 {
		rep.Elem.Kind = gen.PreferredKind(et.Code())
	}
	if rep.Key != nil {
		rep.Key.Kind = gen.PreferredKind(et.Code())
	}
	av := gen.AV{Elems: make([]gen.AV, 0, n)}
	for i := 0; i < n; i++ {
		e := gen.AV{Int: big64(int64(i) - 7)}
		if shape == 2 {
			av.Keys = append(av.Keys, e)
			av.Elems = append(av.Elems, gen.AV{Int: big64(int64(i % 5))})
		} else {
			av.Elems = append(av.Elems, e)
		}
	}
	return valueCase{v, dt, rep, av}
}

func drawValueCase(rt *rapid.T) valueCase {
	switch k := rapid.IntRange(0, 1023).Draw(rt, "largeElements"); {
	case k < 64:
		return largeElementCase(rt)
	case k == 64: // rare: each costs seconds (tens of thousands of reflected elements)
		return manyElementsCase(rt)
	}
	v := gen.Version(rt)
	dt := gen.ValueType(rt, v, rapid.IntRange(0, valueDepth()).Draw(rt, "depth"), "type")
	rep := gen.DrawRep(rt, dt, false, "rep")
	rep.Iface = false // the top-level source is passed as interface{} anyway; untyped decode is exercised separately
	av := gen.DrawAV(rt, dt, rep, v, false, "value")
	return valueCase{v, dt, rep, av}
}

func isComposite(dt datatype.DataType) bool {
	switch dt.(type) {
	case *datatype.List, *datatype.Set, *datatype.Map, *datatype.Tuple, *datatype.UserDefined:
		return true
	}
	return false
}

func hasMap(dt datatype.DataType) bool {
	switch x := dt.(type) {
	case *datatype.Map:
		return true
	case *datatype.List:
		return hasMap(x.ElementType)
	case *datatype.Set:
		return hasMap(x.ElementType)
	case *datatype.Tuple:
		for _, f := range x.FieldTypes {
			if hasMap(f) {
				return true
			}
		}
	case *datatype.UserDefined:
		for _, f := range x.FieldTypes {
			if hasMap(f) {
				return true
			}
		}
	}
	return false
}

// encodeCase encodes the case through the library; a panic is reported as an error string.
func encodeCase(c valueCase) (codec datacodec.Codec, enc []byte, fail string) {
	var err error
	if msg := recovered(func() { codec, err = datacodec.NewCodec(c.dt) }); msg != "" || err != nil {
		return nil, nil, fmt.Sprintf("NewCodec failed: %v %s", err, msg)
	}
	src := gen.ToGo(c.av, c.dt, c.rep).Interface()
	if msg := recovered(func() { enc, err = codec.Encode(src, c.v) }); msg != "" {
		return nil, nil, "Encode " + msg
	}
	if err != nil {
		return nil, nil, fmt.Sprintf("Encode failed on an accepted representation holding a representable value: %v", err)
	}
	return codec, enc, ""
}

func decodeInto(codec datacodec.Codec, enc []byte, destPtr interface{}, v primitive.ProtocolVersion) (wasNull bool, fail string) {
	var err error
	if msg := recovered(func() { wasNull, err = codec.Decode(enc, destPtr, v) }); msg != "" {
		return false, "Decode " + msg
	}
	if err != nil {
		return false, fmt.Sprintf("Decode failed: %v", err)
	}
	return wasNull, ""
}

func topDestType(r *gen.Rep) reflect.Type { return r.BaseType() }

func c11Property(rt *rapid.T) {
	rec := stats.For("C11")
	c := drawValueCase(rt)
	codec, enc, fail := encodeCase(c)
	if fail != "" {
		rt.Fatalf("%s\n%s", fail, c)
	}
	encSnapshot := append([]byte(nil), enc...)
	// same representation
	dest := reflect.New(topDestType(c.rep))
	wasNull, fail := decodeInto(codec, enc, dest.Interface(), c.v)
	if fail != "" {
		rt.Fatalf("%s (decoding the encoder's own output %x into %v)\n%s", fail, clipBytes(enc), dest.Type(), c)
	}
	if wasNull {
		rt.Fatalf("Decode reports NULL for a non-null value (encoded as %x)\n%s", clipBytes(enc), c)
	}
	got, err := gen.FromGo(dest.Elem(), c.dt)
	if err != nil {
		rt.Fatalf("decoded destination cannot be read back: %v\n%s", err, c)
	}
	if !gen.EqualAV(c.dt, c.av, got) {
		rt.Fatalf("round trip through %v changed the value: got %s\n%s", dest.Type(), clip200(gen.RenderAV(c.dt, got)), c)
	}
	// a destination that already holds another value of the same representation (the second of two decodes into one
	// variable): the old contents must not show through. Top-level Go maps are excluded: decoding into a non-empty map
	// merges, as encoding/json does.
	if c.rep.Kind != "map" && c.rep.Kind != "ifacemap" {
		av2 := gen.DrawAV(rt, c.dt, c.rep, c.v, false, "previous")
		old := gen.ToGo(av2, c.dt, c.rep)
		for old.Kind() == reflect.Ptr && old.Type() != reflect.PtrTo(topDestType(c.rep)) && !old.IsNil() {
			old = old.Elem()
		}
		dest2 := reflect.New(topDestType(c.rep))
		if old.Type() == dest2.Type() && !old.IsNil() {
			dest2 = old
		} else if old.Type() == dest2.Type().Elem() {
			dest2.Elem().Set(old)
		}
		wasNull, fail := decodeInto(codec, enc, dest2.Interface(), c.v)
		if fail != "" || wasNull {
			rt.Fatalf("%s wasNull=%v (decoding into a destination that already held %s)\n%s", fail, wasNull, clip200(gen.RenderAV(c.dt, av2)), c)
		}
		got3, err := gen.FromGo(dest2.Elem(), c.dt)
		if err != nil || !gen.EqualAV(c.dt, c.av, got3) {
			rt.Fatalf("decoding into a destination that already held %s yields %s (%v): stale contents show through\n%s", clip200(gen.RenderAV(c.dt, av2)), clip200(gen.RenderAV(c.dt, got3)), err, c)
		}
	}
	// untyped destination: preferred representation holding the same value
	var any interface{}
	if !gen.UntypedDecodable(c.dt) {
		// a map keyed by blob/inet/collection/tuple/udt has no Go map type to be decoded into untyped (the preferred key type
		// is a slice or map); nothing to assert here - C04 checks that the attempt fails cleanly
		rec.Class("untyped:not-decodable-by-design", 1)
	} else if wasNull, fail = decodeInto(codec, enc, &any, c.v); fail != "" {
		rt.Fatalf("%s (decoding into *interface{})\n%s", fail, c)
	} else {
		if wasNull || any == nil {
			rt.Fatalf("untyped Decode reports NULL / nil for a non-null value\n%s", c)
		}
		got2, err := gen.FromGo(reflect.ValueOf(any), c.dt)
		if err != nil {
			rt.Fatalf("untyped result %T cannot be read back: %v\n%s", any, err, c)
		}
		if !gen.EqualAV(c.dt, c.av, got2) {
			rt.Fatalf("untyped decode yields a different value: %s (%T)\n%s", clip200(gen.RenderAV(c.dt, got2)), any, c)
		}
		if want, err := datacodec.PreferredGoType(c.dt); err == nil && reflect.TypeOf(any) != want {
			rt.Fatalf("untyped decode yields %T, documented preferred type is %v\n%s", any, want, c)
		}
	}
	// the bytes Encode returned belong to the caller as well: encoding another value with the same codec must not change
	// them (an encoder that returns a view of a pooled or reused buffer fails here)
	if other := gen.DrawAV(rt, c.dt, c.rep, c.v, false, "otherValue"); true {
		if _, err := codec.Encode(gen.ToGo(other, c.dt, c.rep).Interface(), c.v); err == nil && !bytes.Equal(enc, encSnapshot) {
			rt.Fatalf("the bytes returned by Encode changed when another value was encoded afterwards: %x became %x\n%s", clipBytes(encSnapshot), clipBytes(enc), c)
		}
	}
	// the caller owns what Decode handed out: after it has overwritten the decoded values in place, decoding the same
	// bytes again must still deliver the original value (a decoder that hands out shared state - a cached zero, a pooled
	// buffer - fails here). The bytes are copied first: a decoded blob may legitimately share memory with the source.
	enc2 := append([]byte(nil), enc...)
	if len(enc) == 0 && enc != nil {
		enc2 = []byte{}
	}
	scribble(dest, 0)
	scribble(reflect.ValueOf(&any), 0)
	dest3 := reflect.New(topDestType(c.rep))
	if wasNull, fail := decodeInto(codec, enc2, dest3.Interface(), c.v); fail != "" || wasNull {
		rt.Fatalf("%s wasNull=%v (second decode, after the first result was overwritten by its owner)\n%s", fail, wasNull, c)
	}
	if got4, err := gen.FromGo(dest3.Elem(), c.dt); err != nil || !gen.EqualAV(c.dt, c.av, got4) {
		rt.Fatalf("after the caller overwrote an earlier decoded result in place, decoding the same bytes yields %s (%v): decoded values share state\n%s", clip200(gen.RenderAV(c.dt, got4)), err, c)
	}
	if gen.UntypedDecodable(c.dt) {
		var any2 interface{}
		if wasNull, fail := decodeInto(codec, enc2, &any2, c.v); fail != "" || wasNull {
			rt.Fatalf("%s wasNull=%v (second untyped decode, after the first result was overwritten by its owner)\n%s", fail, wasNull, c)
		}
		if got5, err := gen.FromGo(reflect.ValueOf(any2), c.dt); err != nil || !gen.EqualAV(c.dt, c.av, got5) {
			rt.Fatalf("after the caller overwrote an earlier untyped result in place, decoding the same bytes yields %s (%v): decoded values share state\n%s", clip200(gen.RenderAV(c.dt, got5)), err, c)
		}
	}
	rec.Case(isComposite(c.dt) || !isZeroAV(c.av), stats.HashString(c.String()), c.String,
		"type:"+typeClass(c.dt), fmt.Sprintf("version:%d", c.v), "rep:"+c.rep.Kind)
}

func isZeroAV(av gen.AV) bool {
	return (av.Int == nil || av.Int.Sign() == 0) && av.Bits == 0 && len(av.Bytes) == 0 && av.M == 0 && av.D == 0 && av.Scale == 0 && len(av.Elems) == 0
}

func typeClass(dt datatype.DataType) string {
	switch dt.(type) {
	case *datatype.List:
		return "list"
	case *datatype.Set:
		return "set"
	case *datatype.Map:
		return "map"
	case *datatype.Tuple:
		return "tuple"
	case *datatype.UserDefined:
		return "udt"
	}
	return dt.AsCql()
}

func TestC11(t *testing.T) { rapid.Check(t, c11Property) }

// ---------------------------------------------------------------------------------------------------------------
// C12

// permuteMaps returns av with the entries of every map rotated/reversed according to drawn numbers.
func permuteMaps(rt *rapid.T, dt datatype.DataType, av gen.AV, label string) gen.AV {
	if av.Null {
		return av
	}
	out := av
	switch x := dt.(type) {
	case *datatype.Map:
		n := len(av.Keys)
		out.Keys, out.Elems = make([]gen.AV, n), make([]gen.AV, n)
		rot, rev := 0, false
		if n > 1 {
			rot = rapid.IntRange(0, n-1).Draw(rt, label+"/rot")
			rev = rapid.Bool().Draw(rt, label+"/rev")
		}
		for i := 0; i < n; i++ {
			j := (i + rot) % n
			if rev {
				j = n - 1 - j
			}
			out.Keys[i] = permuteMaps(rt, x.KeyType, av.Keys[j], label+"/k")
			out.Elems[i] = permuteMaps(rt, x.ValueType, av.Elems[j], label+"/v")
		}
	case *datatype.List:
		out.Elems = make([]gen.AV, len(av.Elems))
		for i, e := range av.Elems {
			out.Elems[i] = permuteMaps(rt, x.ElementType, e, label+"/e")
		}
	case *datatype.Set:
		out.Elems = make([]gen.AV, len(av.Elems))
		for i, e := range av.Elems {
			out.Elems[i] = permuteMaps(rt, x.ElementType, e, label+"/e")
		}
	case *datatype.Tuple:
		out.Elems = make([]gen.AV, len(av.Elems))
		for i, e := range av.Elems {
			out.Elems[i] = permuteMaps(rt, x.FieldTypes[i], e, label+"/f")
		}
	case *datatype.UserDefined:
		out.Elems = make([]gen.AV, len(av.Elems))
		for i, e := range av.Elems {
			out.Elems[i] = permuteMaps(rt, x.FieldTypes[i], e, label+"/f")
		}
	}
	return out
}

func c12Property(rt *rapid.T) {
	rec := stats.For("C12")
	c := drawValueCase(rt)
	codec, enc, fail := encodeCase(c)
	if fail != "" {
		rt.Fatalf("%s\n%s", fail, c)
	}
	// 1. the library's bytes, read by the independent deserializer, denote the value ...
	refAV, err := ref.DeserializeValue(c.dt, enc, c.v)
	if err != nil {
		rt.Fatalf("the bytes produced are not a valid serialization per the specification: %v\nbytes %x\n%s", err, clipBytes(enc), c)
	}
	if !gen.EqualAV(c.dt, c.av, refAV) {
		rt.Fatalf("the bytes produced denote a different value per the specification: %s\nbytes %x\n%s", clip200(gen.RenderAV(c.dt, refAV)), clipBytes(enc), c)
	}
	// ... and are exactly the specification's serialization of it (entry order of maps as found)
	want, err := ref.SerializeValue(c.dt, refAV, c.v)
	if err != nil {
		rt.Fatalf("harness defect: reference serializer failed: %v\n%s", err, c)
	}
	if !bytes.Equal(want, enc) {
		rt.Fatalf("bytes differ from the specification's serialization: library %x, specification %x\n%s", clipBytes(enc), clipBytes(want), c)
	}
	if !hasMap(c.dt) {
		direct, err := ref.SerializeValue(c.dt, c.av, c.v)
		if err != nil || !bytes.Equal(direct, enc) {
			rt.Fatalf("bytes differ from the specification's serialization of the source value: library %x, specification %x (%v)\n%s", clipBytes(enc), clipBytes(direct), err, c)
		}
	}
	// 2. specification-formatted bytes decode to the value they denote (maps in a generated entry order)
	specAV := permuteMaps(rt, c.dt, c.av, "perm")
	spec, err := ref.SerializeValue(c.dt, specAV, c.v)
	if err != nil {
		rt.Fatalf("harness defect: reference serializer failed: %v\n%s", err, c)
	}
	dest := reflect.New(topDestType(c.rep))
	wasNull, fail := decodeInto(codec, spec, dest.Interface(), c.v)
	if fail != "" {
		rt.Fatalf("%s on specification-formatted bytes %x\n%s", fail, clipBytes(spec), c)
	}
	got, err := gen.FromGo(dest.Elem(), c.dt)
	if err != nil || wasNull || !gen.EqualAV(c.dt, c.av, got) {
		rt.Fatalf("specification-formatted bytes %x decode to %s (wasNull=%v err=%v)\n%s", clipBytes(spec), clip200(gen.RenderAV(c.dt, got)), wasNull, err, c)
	}
	rec.Case(isComposite(c.dt) || !isZeroAV(c.av), stats.HashString(c.String()), func() string {
		return fmt.Sprintf("%s | bytes %x", c, clipBytes(enc))
	}, "type:"+typeClass(c.dt), fmt.Sprintf("version:%d", c.v), fmt.Sprintf("hasMap:%v", hasMap(c.dt)))
}

func TestC12(t *testing.T) { rapid.Check(t, c12Property) }

// Specification-legal forms the library's own encoder never emits (decode direction only), plus the varint table of
// section 5.24 as fixed points in both directions.
func c12SpecForms(rt *rapid.T) {
	rec := stats.For("C12")
	v := rapid.SampledFrom([]primitive.ProtocolVersion{3, 4, 5, 65, 66}).Draw(rt, "version")
	switch rapid.IntRange(0, 1).Draw(rt, "form") {
	case 0: // boolean: any non-zero byte is true (spec 5.4: "A single byte. A value of 0 denotes false; any other value denotes true")
		b := rapid.Byte().Draw(rt, "byte")
		var got bool
		wasNull, err := datacodec.Boolean.Decode([]byte{b}, &got, v)
		if err != nil || wasNull || got != (b != 0) {
			rt.Fatalf("boolean byte %#x decodes to %v (wasNull=%v err=%v), specification says %v", b, got, wasNull, err, b != 0)
		}
		rec.Case(b > 1, stats.HashString(fmt.Sprintf("bool/%d", b)), func() string { return fmt.Sprintf("boolean byte %#x -> %v", b, got) }, "form:boolean-nonzero")
	default: // UDT value with fewer trailing fields than the type: the missing fields are null
		n := rapid.IntRange(1, 4).Draw(rt, "nfields")
		fts := make([]datatype.DataType, n)
		names := make([]string, n)
		for i := range fts {
			fts[i] = gen.ValueType(rt, v, 1, fmt.Sprintf("ft%d", i))
			names[i] = fmt.Sprintf("f%d", i)
		}
		u, _ := datatype.NewUserDefined("ks", "udt", names, fts)
		rep := gen.DrawRep(rt, u, false, "rep")
		rep.Iface = false
		av := gen.DrawAV(rt, u, rep, v, false, "value")
		keep := rapid.IntRange(0, n).Draw(rt, "keep")
		var spec []byte
		for i := 0; i < keep; i++ {
			fb, err := ref.SerializeValue(fts[i], av.Elems[i], v)
			if err != nil {
				rt.Fatalf("harness defect: %v", err)
			}
			if fb == nil {
				spec = append(spec, 0xff, 0xff, 0xff, 0xff)
			} else {
				spec = append(spec, byte(len(fb)>>24), byte(len(fb)>>16), byte(len(fb)>>8), byte(len(fb)))
				spec = append(spec, fb...)
			}
		}
		if len(spec) == 0 {
			return // zero bytes denote a null UDT value, a different case
		}
		want := gen.AV{Elems: make([]gen.AV, n)}
		for i := range want.Elems {
			if i < keep {
				want.Elems[i] = av.Elems[i]
			} else {
				want.Elems[i] = gen.NullAV()
			}
		}
		codec, err := datacodec.NewCodec(u)
		if err != nil {
			rt.Fatalf("NewCodec: %v", err)
		}
		// destination able to hold nulls: untyped map
		var any interface{}
		wasNull, fail := decodeInto(codec, spec, &any, v)
		if !gen.UntypedDecodable(u) {
			return
		}
		if fail != "" {
			rt.Fatalf("%s on a UDT value carrying %d of %d fields (the specification allows fewer values than fields): bytes %x, type %s", fail, keep, n, clipBytes(spec), u.AsCql())
		}
		got, err := gen.FromGo(reflect.ValueOf(any), u)
		if err != nil || wasNull || !gen.EqualAV(u, want, got) {
			rt.Fatalf("UDT value with %d of %d fields decodes to %s, want %s (wasNull=%v err=%v)", keep, n, gen.RenderAV(u, got), gen.RenderAV(u, want), wasNull, err)
		}
		// the untyped result names every field of the type, the missing ones with a nil value - nothing else
		if m, ok := any.(map[string]interface{}); ok {
			if len(m) != n {
				rt.Fatalf("UDT value with %d of %d fields decodes to a map with %d keys: %v", keep, n, len(m), m)
			}
			for i, name := range names {
				val, present := m[name]
				if !present || (i >= keep && val != nil) {
					rt.Fatalf("UDT value with %d of %d fields: field %q of the untyped result is present=%v value=%v (missing fields are null)", keep, n, name, present, val)
				}
			}
		}
		// a typed destination that already holds another (complete) value: every field the value does not carry becomes null
		if rep.Kind == "struct" || rep.Kind == "ifaceslice" || rep.Kind == "ifacemap" || rep.Kind == "slice" {
			prev := gen.DrawAV(rt, u, rep, v, false, "previous")
			dest := reflect.New(topDestType(rep))
			old := gen.ToGo(prev, u, rep)
			for old.Kind() == reflect.Ptr && old.Type() != dest.Type() && !old.IsNil() {
				old = old.Elem()
			}
			if old.Type() == dest.Type().Elem() {
				dest.Elem().Set(old)
				typedWant := gen.AV{Elems: make([]gen.AV, n)}
				nullable := true
				for i := range typedWant.Elems {
					typedWant.Elems[i] = want.Elems[i]
					fr := rep.Elem
					if rep.Fields != nil {
						fr = rep.Fields[i]
					}
					if i >= keep && (fr == nil || !fr.Nillable()) {
						nullable = false // a plain value field cannot show null: it is zeroed, which FromGo cannot tell from a zero value
					}
				}
				if nullable && rep.Kind != "ifacemap" {
					wasNull, fail := decodeInto(codec, spec, dest.Interface(), v)
					got2, err := gen.FromGo(dest.Elem(), u)
					if fail != "" || wasNull || err != nil || !gen.EqualAV(u, typedWant, got2) {
						rt.Fatalf("UDT value with %d of %d fields decoded into a %v that already held %s yields %s (wasNull=%v %s %v), want %s", keep, n, dest.Type(), clip200(gen.RenderAV(u, prev)), clip200(gen.RenderAV(u, got2)), wasNull, fail, err, clip200(gen.RenderAV(u, typedWant)))
					}
				}
			}
		}
		rec.Case(keep < n, stats.Hash(spec, []byte(u.AsCql())), func() string {
			return fmt.Sprintf("udt %s with %d of %d fields: %x", u.AsCql(), keep, n, clipBytes(spec))
		}, "form:udt-short", fmt.Sprintf("keep:%d/%d", keep, n))
	}
}

func TestC12SpecForms(t *testing.T) { rapid.Check(t, c12SpecForms) }

// varint examples of the specification (section 5.24) in both directions, through the library and through the reference.
func TestC12VarintTable(t *testing.T) {
	rec := stats.For("C12")
	if k, _ := shard(); k != 0 {
		return
	}
	table := []struct {
		val   int64
		bytes []byte
	}{{0, []byte{0x00}}, {1, []byte{0x01}}, {127, []byte{0x7F}}, {128, []byte{0x00, 0x80}}, {129, []byte{0x00, 0x81}},
		{-1, []byte{0xFF}}, {-128, []byte{0x80}}, {-129, []byte{0xFF, 0x7F}}}
	for _, e := range table {
		enc, err := datacodec.Varint.Encode(e.val, primitive.ProtocolVersion4)
		if err != nil || !bytes.Equal(enc, e.bytes) {
			rec.Violation("varint-table", fmt.Sprintf("varint %d encodes to %x (err=%v), specification table says %x", e.val, enc, err, e.bytes))
			t.Errorf("varint %d encodes to %x, want %x", e.val, enc, e.bytes)
		}
		var back int64
		wasNull, err := datacodec.Varint.Decode(e.bytes, &back, primitive.ProtocolVersion4)
		if err != nil || wasNull || back != e.val {
			rec.Violation("varint-table", fmt.Sprintf("varint bytes %x decode to %d (wasNull=%v err=%v), specification table says %d", e.bytes, back, wasNull, err, e.val))
			t.Errorf("varint bytes %x decode to %d, want %d", e.bytes, back, e.val)
		}
		if !bytes.Equal(ref.Varint(bigOf(e.val)), e.bytes) || ref.FromTwosComplement(e.bytes).Int64() != e.val {
			t.Fatalf("harness defect: reference varint disagrees with the specification table for %d", e.val)
		}
	}
	rec.Bulk(int64(len(table)), int64(len(table)), "varint-table")
	rec.AddSample("varint table of spec 5.24: 0->00 1->01 127->7F 128->0080 129->0081 -1->FF -128->80 -129->FF7F, both directions")
}

func bigOf(x int64) *big.Int { return big.NewInt(x) }

func big64(x int64) *big.Int { return big.NewInt(x) }
