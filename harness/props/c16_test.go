//go:build verif

package props

// C16: connections terminate cleanly on close, peer loss and timeout (fault enumeration).
// (A) timeout clause on the in-flight handler shim: pages arriving faster than the read timeout must not time the request
//     out; silence must - with a timeout error, channel closed, IsDone; closing the handler afterwards must not panic.
// (B) scripted sessions (connect, handshake, k sends, a answers, multi-page answer in progress, blocked receivers) with a
//     fault {client Close, server-connection Close, server Close, context cancel, peer TCP close} injected at every step
//     boundary, optionally under a generated schedule at the hook points and with a concurrent sender.
// Oracle within T=10 s of the fault: every request of a successful Send has its channel closed, IsDone() and Err()!=nil
// unless it completed normally before; blocked Receive/ReceiveEvent return; later Send returns an error; Close returns
// (also twice and from two goroutines); no goroutine of the client package survives; the worker does not panic.

import (
	"context"
	"encoding/json"
	"fmt"
	"net"
	"runtime"
	"strings"
	"sync"
	"testing"
	"time"

	"github.com/datastax/go-cassandra-native-protocol/client"
	"github.com/datastax/go-cassandra-native-protocol/frame"
	"github.com/datastax/go-cassandra-native-protocol/message"
	"github.com/datastax/go-cassandra-native-protocol/primitive"
	"pgregory.net/rapid"

	"verifharness/stats"
)

// ---------------------------------------------------------------------------------------------------------------
// (A) timeouts on the shim

type c16TimeoutSpec struct {
	TimeoutMs int
	Pages     int  // non-final pages delivered every TimeoutMs/20 before the silence
	Final     bool // deliver a final page instead of going silent
	MaxPend   int
}

func c16Timeout(args []string, _ []byte) string {
	var spec c16TimeoutSpec
	if err := json.Unmarshal([]byte(args[0]), &spec); err != nil {
		return "FAIL: harness: " + err.Error()
	}
	tau := time.Duration(spec.TimeoutMs) * time.Millisecond
	ctx, cancel := context.WithCancel(context.Background())
	defer cancel()
	h := client.NewVerifInFlight(ctx, 4, spec.MaxPend, tau)
	f := reqFrame(client.ManagedStreamId)
	start := time.Now() // taken BEFORE the send: the request's timer starts somewhere inside Enqueue
	req, err := h.Enqueue(f)
	if err != nil {
		return "FAIL: send refused: " + err.Error()
	}
	id := f.Header.StreamId
	last := start
	maxGap := time.Duration(0)
	for p := 1; p <= spec.Pages; p++ {
		time.Sleep(tau / 20)
		now := time.Now()
		err := h.Deliver(pageFrame(id, int32(p), false))
		// the gap that matters ends when Deliver has re-armed the timer, i.e. at the latest when it returns (this
		// goroutine may lose the CPU for a long time on a busy machine, also inside Deliver)
		if g := time.Since(last); g > maxGap {
			maxGap = g
		}
		last = now
		if err != nil {
			if maxGap >= tau/2 {
				return "SKIP: noisy timing (a gap between pages reached half the timeout)"
			}
			return fmt.Sprintf("FAIL: page %d rejected although pages kept arriving every %v (timeout %v): %v", p, tau/20, tau, err)
		}
		select {
		case _, ok := <-req.Incoming():
			if !ok {
				if maxGap >= tau/2 {
					return "SKIP: noisy timing"
				}
				return fmt.Sprintf("FAIL: request closed after page %d although pages kept arriving every %v (timeout %v, largest gap %v): Err=%v", p, tau/20, tau, maxGap, req.Err())
			}
		case <-time.After(5 * time.Second):
			return fmt.Sprintf("FAIL: page %d was not delivered", p)
		}
	}
	if maxGap >= tau/2 {
		return "SKIP: noisy timing (a gap between pages reached half the timeout)"
	}
	if req.IsDone() || req.Err() != nil {
		return fmt.Sprintf("FAIL: request done (Err=%v) while its pages were still arriving (timeout %v, largest gap %v)", req.Err(), tau, maxGap)
	}
	if spec.Final {
		if err := h.Deliver(pageFrame(id, int32(spec.Pages+1), true)); err != nil {
			return "FAIL: last page rejected: " + err.Error()
		}
		<-req.Incoming()
		if _, ok := <-req.Incoming(); ok {
			return "FAIL: channel open after the last page"
		}
		if !req.IsDone() || req.Err() != nil {
			return fmt.Sprintf("FAIL: after the last page IsDone=%v Err=%v", req.IsDone(), req.Err())
		}
		time.Sleep(tau + tau/2) // a leftover timer must not fire on a completed request
		if req.Err() != nil {
			return fmt.Sprintf("FAIL: a completed request acquired an error afterwards: %v", req.Err())
		}
	} else {
		silence := time.Now()
		select {
		case _, ok := <-req.Incoming():
			if ok {
				return "FAIL: a frame appeared during the silence"
			}
		case <-time.After(tau + 10*time.Second):
			return fmt.Sprintf("FAIL: request not failed %v after the last page (timeout %v)", time.Since(silence), tau)
		}
		if waited := time.Since(start); waited < tau*8/10 && spec.Pages == 0 { // measured from before the send
			return fmt.Sprintf("FAIL: request timed out after only %v of silence (timeout %v)", waited, tau)
		}
		// the interface contract: if Incoming is closed, IsDone is true; closed because of an error => Err returns it
		deadline := time.Now().Add(2 * time.Second)
		for !(req.IsDone() && req.Err() != nil) && time.Now().Before(deadline) {
			time.Sleep(5 * time.Millisecond)
		}
		if !req.IsDone() || req.Err() == nil {
			return fmt.Sprintf("FAIL: after %d page(s) and then silence the channel was closed by the timeout but IsDone=%v Err=%v (want done with a timeout error)", spec.Pages, req.IsDone(), req.Err())
		}
		if !strings.Contains(req.Err().Error(), "timed out") {
			return fmt.Sprintf("FAIL: request failed with %q, want a timeout error", req.Err())
		}
		// the peer's answer arrives after all: late pages and the late final response must be handled without a panic
		// (they may be refused); the request stays failed
		for p := 1; p <= 5; p++ {
			_ = h.Deliver(pageFrame(id, int32(spec.Pages+p), false))
		}
		_ = h.Deliver(pageFrame(id, int32(spec.Pages+6), true))
		if !req.IsDone() || req.Err() == nil {
			return fmt.Sprintf("FAIL: late responses revived a timed-out request: IsDone=%v Err=%v", req.IsDone(), req.Err())
		}
	}
	h.Close() // must not panic (e.g. closing an already closed channel)
	time.Sleep(20 * time.Millisecond)
	// the request object stays usable after its connection is gone: the accessors return (a lock left held by the second
	// completion of an already completed request would block them forever)
	if err := within(5*time.Second, "IsDone/Err/Incoming on a completed request after its handler was closed", func() error {
		_, _ = req.IsDone(), req.Err()
		<-req.Incoming()
		return nil
	}); err != nil {
		return "FAIL: " + err.Error()
	}
	return "OK"
}

func init() { workerHandlers["c16timeout"] = c16Timeout }

func c16TimeoutProp(rt *rapid.T) {
	rec := stats.For("C16")
	spec := c16TimeoutSpec{TimeoutMs: rapid.SampledFrom([]int{100, 200, 400}).Draw(rt, "timeoutMs"), Pages: rapid.IntRange(0, 6).Draw(rt, "pages"),
		Final: rapid.IntRange(0, 2).Draw(rt, "final") == 0, MaxPend: 10}
	sj, _ := json.Marshal(spec)
	verdict := isolated("c16timeout", []string{string(sj)}, nil)
	verdict = harnessTrouble(verdict)
	if strings.HasPrefix(verdict, "FAIL:") {
		rt.Fatalf("%s\nspec %s", verdict, sj)
	}
	if strings.HasPrefix(verdict, "SKIP:") {
		rec.Case(false, 0, nil, "timeout:"+clipS(verdict))
		return
	}
	rec.Case(true, stats.HashString("timeout/"+string(sj)), func() string { return "timeout clause: " + string(sj) }, "timeout", fmt.Sprintf("timeout:pages=%d:final=%v", spec.Pages, spec.Final))
}

func TestC16Timeout(t *testing.T) { rapid.Check(t, c16TimeoutProp) }

// ---------------------------------------------------------------------------------------------------------------
// (B) scripted sessions with injected faults

type schedAct struct {
	Kind   string // "yield" | "sleep" | "waitfor"
	N      int    // yield count / sleep microseconds
	Target string // waitfor: proceed once this point has been hit (bounded)
}

type c16Spec struct {
	Version   int
	Peer      string // "lib" (library server) | "raw" (raw TCP peer)
	Step      int    // the fault is injected after this many script steps
	K         int    // requests sent
	Answered  int    // of which answered before the fault
	MultiPage bool   // request 0 has received one non-final page (DSE versions)
	Receivers int    // goroutines blocked in Receive / ReceiveEvent at fault time
	Fault     string // "client-close" | "server-conn-close" | "server-close" | "ctx-cancel" | "peer-close" | "double-close"
	Stress    bool   // a goroutine keeps calling Send while the fault happens
	Explicit  bool   // requests carry caller-chosen stream ids outside 1..MaxInFlight (and a negative one) instead of managed ones
	Schedule  map[string][]schedAct
}

func clientGoroutines() (int, string) {
	buf := make([]byte, 1<<20)
	n := runtime.Stack(buf, true)
	cnt := 0
	var sample string
	for _, g := range strings.Split(string(buf[:n]), "\n\n") {
		if strings.Contains(g, "go-cassandra-native-protocol/client.") && !strings.Contains(g, "verifharness") {
			cnt++
			if sample == "" {
				sample = g
			}
		} else if strings.Contains(g, "go-cassandra-native-protocol/client.") && strings.Contains(g, "created by github.com/datastax/go-cassandra-native-protocol/client") {
			cnt++
			if sample == "" {
				sample = g
			}
		}
	}
	return cnt, sample
}

type pointSched struct {
	mu   sync.Mutex
	acts map[string][]schedAct
	hits map[string]int
	seen map[string]chan struct{}
}

func (s *pointSched) reached(name string) chan struct{} {
	ch, ok := s.seen[name]
	if !ok {
		ch = make(chan struct{})
		s.seen[name] = ch
	}
	return ch
}

func (s *pointSched) point(name string) {
	s.mu.Lock()
	i := s.hits[name]
	s.hits[name] = i + 1
	ch := s.reached(name)
	select {
	case <-ch:
	default:
		close(ch)
	}
	var act *schedAct
	if as := s.acts[name]; i < len(as) {
		act = &as[i]
	}
	var wait chan struct{}
	if act != nil && act.Kind == "waitfor" {
		wait = s.reached(act.Target)
	}
	s.mu.Unlock()
	if act == nil {
		return
	}
	switch act.Kind {
	case "yield":
		for k := 0; k < act.N; k++ {
			runtime.Gosched()
		}
	case "sleep":
		time.Sleep(time.Duration(act.N) * time.Microsecond)
	case "waitfor":
		select { // bounded: a timeout only releases, it never decides a verdict
		case <-wait:
		case <-time.After(300 * time.Millisecond):
		}
	}
}

func c16Session(args []string, _ []byte) string {
	var spec c16Spec
	if err := json.Unmarshal([]byte(args[0]), &spec); err != nil {
		return "FAIL: harness: " + err.Error()
	}
	v := primitive.ProtocolVersion(spec.Version)
	const T = 10 * time.Second
	base, _ := clientGoroutines()
	if len(spec.Schedule) > 0 {
		ps := &pointSched{acts: spec.Schedule, hits: map[string]int{}, seen: map[string]chan struct{}{}}
		client.SetVerifPoint(ps.point)
		defer client.SetVerifPoint(nil)
	}
	ctx, cancel := context.WithCancel(context.Background())
	defer cancel()

	var srv *client.CqlServer
	var ln net.Listener
	var rawConn net.Conn
	var rawMu sync.Mutex
	addr := ""
	if spec.Peer == "lib" {
		srv = client.NewCqlServer("127.0.0.1:0", nil)
		if err := srv.Start(context.Background()); err != nil {
			return "FAIL: harness: " + err.Error()
		}
		defer srv.Close()
		addr = srv.VerifAddr().String()
	} else {
		var err error
		if ln, err = net.Listen("tcp", "127.0.0.1:0"); err != nil {
			return "FAIL: harness: " + err.Error()
		}
		defer ln.Close()
		addr = ln.Addr().String()
	}
	step := 0
	faultNow := func() bool { return step == spec.Step }

	cl := client.NewCqlClient(addr, nil)
	cl.ReadTimeout = 30 * time.Second
	cl.MaxInFlight = 16
	var cc *client.CqlClientConnection
	var sc *client.CqlServerConnection
	var reqs []client.InFlightRequest
	completed := map[int]bool{}
	type rawState struct {
		l       *rawLink
		streams []int16
	}
	var rs rawState
	var fail string

	// --- script: each step is one boundary where the fault may be injected
	script := []func() bool{
		func() bool { // connect
			if spec.Peer == "raw" {
				acc := make(chan net.Conn, 1)
				go func() { c, _ := ln.Accept(); acc <- c }()
				if err := within(T, "Connect", func() (err error) { cc, err = cl.Connect(ctx); return }); err != nil {
					fail = "connect: " + err.Error()
					return false
				}
				select {
				case c := <-acc:
					rawMu.Lock()
					rawConn = c
					rawMu.Unlock()
					rs.l = newRawLink(c)
					rs.l.setDeadline(3 * T)
				case <-time.After(T):
					fail = "raw accept timed out"
					return false
				}
				return true
			}
			if err := within(T, "Bind", func() (err error) { cc, sc, err = srv.Bind(cl, ctx); return }); err != nil {
				fail = "bind: " + err.Error()
				return false
			}
			return true
		},
		func() bool { // handshake
			if spec.Peer == "raw" {
				hs := make(chan error, 1)
				go func() { _, err := rs.l.serverHandshake(false); hs <- err }()
				if err := within(T, "InitiateHandshake", func() error { return cc.InitiateHandshake(v, client.ManagedStreamId) }); err != nil {
					fail = "handshake: " + err.Error()
					return false
				}
				if err := <-hs; err != nil {
					fail = "raw handshake: " + err.Error()
					return false
				}
				return true
			}
			if err := within(T, "PerformHandshake", func() error { return client.PerformHandshake(cc, sc, v, client.ManagedStreamId) }); err != nil {
				fail = "handshake: " + err.Error()
				return false
			}
			return true
		},
		func() bool { // k sends
			for i := 0; i < spec.K; i++ {
				id := int16(client.ManagedStreamId)
				if spec.Explicit {
					id = int16(100 + i) // MaxInFlight is 16
					if v != primitive.ProtocolVersion2 {
						id = []int16{2000, -7, 32767}[i%3]
					}
				}
				r, err := cc.Send(frame.NewFrame(v, id, &message.Query{Query: fmt.Sprintf("q%d", i)}))
				if err != nil {
					fail = fmt.Sprintf("send %d: %v", i, err)
					return false
				}
				reqs = append(reqs, r)
			}
			// the peer reads them
			for i := 0; i < spec.K; i++ {
				if spec.Peer == "raw" {
					e, err := rs.l.readEnvelope()
					if err != nil {
						fail = "raw read: " + err.Error()
						return false
					}
					rs.streams = append(rs.streams, e.Stream)
				} else {
					var got *frame.Frame
					if err := within(T, "server Receive", func() (err error) { got, err = sc.Receive(); return }); err != nil {
						fail = "server receive: " + err.Error()
						return false
					}
					rs.streams = append(rs.streams, got.Header.StreamId)
				}
			}
			return true
		},
		func() bool { // answers
			respond := func(f *frame.Frame) bool {
				if spec.Peer == "raw" {
					return sendRefFrame(rs.l, f) == nil
				}
				return sc.Send(f) == nil
			}
			for i := 0; i < spec.Answered && i < spec.K; i++ {
				idx := spec.K - 1 - i // answer from the end so that request 0 stays open for the multi-page case
				if !respond(taggedFinal(v, rs.streams[idx], "done")) {
					fail = "respond failed"
					return false
				}
				if f, err := cc.Receive(reqs[idx]); err != nil || f == nil {
					fail = fmt.Sprintf("receive of answered request failed: %v", err)
					return false
				}
				completed[idx] = true
			}
			if spec.MultiPage && spec.K > spec.Answered {
				if !respond(taggedPage(v, rs.streams[0], "page1", 1, false)) {
					fail = "respond failed"
					return false
				}
				if f, err := cc.Receive(reqs[0]); err != nil || f == nil {
					fail = fmt.Sprintf("receive of first page failed: %v", err)
					return false
				}
			}
			return true
		},
	}
	for step < len(script) && !faultNow() {
		if !script[step]() {
			return "SKIP: script did not reach the fault point: " + fail
		}
		step++
	}
	// --- blocked receivers
	var wg sync.WaitGroup
	recvDone := make(chan string, spec.Receivers+2)
	if cc != nil {
		for i := 0; i < spec.Receivers; i++ {
			wg.Add(1)
			go func(i int) {
				defer wg.Done()
				if i%2 == 0 && len(reqs) > 0 {
					var open client.InFlightRequest
					for j, r := range reqs {
						if !completed[j] {
							open = r
						}
					}
					if open != nil {
						_, _ = cc.Receive(open)
						recvDone <- "receive"
						return
					}
				}
				_, _ = cc.ReceiveEvent()
				recvDone <- "event"
			}(i)
		}
		if sc != nil && spec.Receivers > 0 {
			wg.Add(1)
			go func() { defer wg.Done(); _, _ = sc.Receive(); recvDone <- "server-receive" }()
		}
		time.Sleep(5 * time.Millisecond) // let them block
	}
	stop := make(chan struct{})
	var sendPanic string
	if spec.Stress && cc != nil {
		wg.Add(1)
		go func() {
			defer wg.Done()
			defer func() {
				if e := recover(); e != nil {
					sendPanic = fmt.Sprint(e)
				}
			}()
			for i := 0; ; i++ {
				select {
				case <-stop:
					return
				default:
				}
				_, _ = cc.Send(frame.NewFrame(v, client.ManagedStreamId, &message.Options{}))
			}
		}()
	}
	// --- the fault
	faultReturned := make(chan struct{})
	go func() {
		defer close(faultReturned)
		switch spec.Fault {
		case "client-close":
			if cc != nil {
				_ = cc.Close()
			}
		case "double-close":
			if cc != nil {
				var w sync.WaitGroup
				for i := 0; i < 2; i++ {
					w.Add(1)
					go func() { defer w.Done(); _ = cc.Close() }()
				}
				w.Wait()
				_ = cc.Close()
			}
		case "server-conn-close":
			if sc != nil {
				_ = sc.Close()
			} else {
				rawMu.Lock()
				if rawConn != nil {
					_ = rawConn.Close()
				}
				rawMu.Unlock()
			}
		case "server-close":
			if srv != nil {
				_ = srv.Close()
			} else if ln != nil {
				_ = ln.Close()
				rawMu.Lock()
				if rawConn != nil {
					_ = rawConn.Close()
				}
				rawMu.Unlock()
			}
		case "ctx-cancel":
			cancel()
		case "peer-close":
			rawMu.Lock()
			if rawConn != nil {
				if tc, ok := rawConn.(*net.TCPConn); ok && spec.K%2 == 1 {
					_ = tc.SetLinger(0) // RST instead of FIN
				}
				_ = rawConn.Close()
			} else if sc != nil {
				_ = sc.GetConn().Close()
			}
			rawMu.Unlock()
		}
	}()
	select {
	case <-faultReturned:
	case <-time.After(T):
		return fmt.Sprintf("FAIL: %s did not return within %v (fault after step %d)", spec.Fault, T, spec.Step)
	}
	if cc == nil {
		return "OK"
	}
	// --- obligations
	deadline := time.Now().Add(T)
	for i, r := range reqs {
		if completed[i] {
			continue
		}
		for {
			closed := false
			select {
			case _, ok := <-r.Incoming():
				closed = !ok
			default:
			}
			if closed {
				break
			}
			if time.Now().After(deadline) {
				return fmt.Sprintf("FAIL: request %d (stream %d) still open %v after %s", i, r.StreamId(), T, spec.Fault)
			}
			time.Sleep(2 * time.Millisecond)
		}
		if !r.IsDone() || r.Err() == nil {
			// give the flags the time the channel needed
			time.Sleep(20 * time.Millisecond)
			if !r.IsDone() || r.Err() == nil {
				return fmt.Sprintf("FAIL: request %d (stream %d): channel closed after %s but IsDone=%v Err=%v", i, r.StreamId(), spec.Fault, r.IsDone(), r.Err())
			}
		}
	}
	// the connection ends up closed (by itself for peer/ctx faults)
	for !cc.IsClosed() {
		if time.Now().After(deadline) {
			return fmt.Sprintf("FAIL: client connection not closed %v after %s", T, spec.Fault)
		}
		time.Sleep(2 * time.Millisecond)
	}
	if _, err := cc.Send(frame.NewFrame(v, client.ManagedStreamId, &message.Options{})); err == nil {
		return "FAIL: Send on the terminated connection succeeded"
	}
	close(stop)
	closeRet := make(chan struct{})
	go func() { _ = cc.Close(); _ = cc.Close(); close(closeRet) }()
	select {
	case <-closeRet:
	case <-time.After(T):
		return fmt.Sprintf("FAIL: Close did not return within %v after %s", T, spec.Fault)
	}
	if sc != nil {
		scRet := make(chan struct{})
		go func() { _ = sc.Close(); close(scRet) }()
		select {
		case <-scRet:
		case <-time.After(T):
			return fmt.Sprintf("FAIL: server connection Close did not return within %v after %s", T, spec.Fault)
		}
	}
	recvWait := make(chan struct{})
	go func() { wg.Wait(); close(recvWait) }()
	select {
	case <-recvWait:
	case <-time.After(T):
		var got []string
		for len(recvDone) > 0 {
			got = append(got, <-recvDone)
		}
		return fmt.Sprintf("FAIL: a blocked Receive/ReceiveEvent/Send did not return within %v after %s (returned so far: %v)", T, spec.Fault, got)
	}
	if sendPanic != "" {
		return "FAIL: Send panicked during " + spec.Fault + ": " + sendPanic
	}
	if srv != nil {
		srvRet := make(chan struct{})
		go func() { _ = srv.Close(); close(srvRet) }()
		select {
		case <-srvRet:
		case <-time.After(T):
			return "FAIL: server Close did not return"
		}
	}
	if ln != nil {
		_ = ln.Close()
	}
	rawMu.Lock()
	if rawConn != nil {
		_ = rawConn.Close()
	}
	rawMu.Unlock()
	client.SetVerifPoint(nil)
	// no goroutine of the connection survives
	var left int
	var sample string
	for {
		left, sample = clientGoroutines()
		if left <= base || time.Now().After(deadline.Add(2*time.Second)) {
			break
		}
		time.Sleep(10 * time.Millisecond)
	}
	if left > base {
		return fmt.Sprintf("FAIL: %d goroutine(s) of the client package still alive after %s and Close, e.g.\n%s", left-base, spec.Fault, clipS400(sample))
	}
	return "OK"
}

func clipS400(s string) string {
	if len(s) > 900 {
		return s[:900] + "..."
	}
	return s
}

func sendRefFrame(l *rawLink, f *frame.Frame) error {
	enc, err := refEncode(f)
	if err != nil {
		return err
	}
	return l.writeEnvelopes([][]byte{enc}, false, nil, false)
}

func init() { workerHandlers["c16session"] = c16Session }

var c16Points = []string{"client.outgoingLoop.iter", "client.incomingLoop.iter", "client.send.beforeEnqueue", "client.close.beforeCloseChannels",
	"client.close.afterCloseChannels", "server.process.beforeDeliver", "server.receive.beforeRecv", "server.close.beforeCloseChannels",
	"server.close.afterCloseChannels", "server.outgoingLoop.iter", "server.send.beforeEnqueue", "inflight.enqueue.afterCheck", "inflight.incoming.afterLookup"}

func drawC16Spec(rt *rapid.T, scheduled bool) c16Spec {
	v := rapid.SampledFrom(allVersions).Draw(rt, "version")
	spec := c16Spec{Version: int(v), Peer: rapid.SampledFrom([]string{"lib", "raw"}).Draw(rt, "peer"), Step: rapid.IntRange(0, 4).Draw(rt, "step"),
		K: rapid.IntRange(0, 3).Draw(rt, "k"), Receivers: rapid.IntRange(0, 3).Draw(rt, "receivers"), Stress: rapid.IntRange(0, 3).Draw(rt, "stress") == 0}
	spec.Explicit = rapid.IntRange(0, 2).Draw(rt, "explicitIds") == 0
	spec.Answered = rapid.IntRange(0, spec.K).Draw(rt, "answered")
	spec.MultiPage = (v == primitive.ProtocolVersionDse1 || v == primitive.ProtocolVersionDse2) && rapid.Bool().Draw(rt, "multipage")
	faults := []string{"client-close", "double-close", "server-conn-close", "server-close", "ctx-cancel", "peer-close"}
	spec.Fault = rapid.SampledFrom(faults).Draw(rt, "fault")
	if scheduled {
		spec.Schedule = map[string][]schedAct{}
		for _, p := range c16Points {
			if rapid.IntRange(0, 3).Draw(rt, "sched/"+p) != 0 {
				continue
			}
			n := rapid.IntRange(1, 4).Draw(rt, "sched/"+p+"/n")
			// actions apply to the LAST hits before the fault is not knowable: apply to hit indexes 0..n-1 after an offset
			off := rapid.IntRange(0, 6).Draw(rt, "sched/"+p+"/offset")
			acts := make([]schedAct, off+n)
			for i := off; i < off+n; i++ {
				switch rapid.IntRange(0, 2).Draw(rt, fmt.Sprintf("sched/%s/%d", p, i)) {
				case 0:
					acts[i] = schedAct{Kind: "yield", N: rapid.IntRange(1, 5).Draw(rt, fmt.Sprintf("sched/%s/%d/n", p, i))}
				case 1:
					acts[i] = schedAct{Kind: "sleep", N: rapid.IntRange(50, 2000).Draw(rt, fmt.Sprintf("sched/%s/%d/us", p, i))}
				default:
					acts[i] = schedAct{Kind: "waitfor", Target: rapid.SampledFrom(c16Points).Draw(rt, fmt.Sprintf("sched/%s/%d/target", p, i))}
				}
			}
			spec.Schedule[p] = acts
		}
	}
	return spec
}

func runC16(rt *rapid.T, spec c16Spec, class string) {
	rec := stats.For("C16")
	sj, _ := json.Marshal(spec)
	verdict := isolated("c16session", []string{string(sj)}, nil)
	verdict = harnessTrouble(verdict)
	if strings.HasPrefix(verdict, "FAIL:") {
		rt.Fatalf("%s\nspec %s", verdict, sj)
	}
	if strings.HasPrefix(verdict, "SKIP:") {
		rec.Case(false, 0, nil, class+":"+clipS(verdict))
		return
	}
	rec.Case(spec.K > spec.Answered || spec.Receivers > 0 || spec.Step < 4, stats.HashString(string(sj)), func() string { return class + ": " + string(sj) },
		class, "fault:"+spec.Fault, fmt.Sprintf("step:%d", spec.Step), "peer:"+spec.Peer)
}

func TestC16Sessions(t *testing.T) {
	rapid.Check(t, func(rt *rapid.T) { runC16(rt, drawC16Spec(rt, false), "session") })
}

func TestC16Scheduled(t *testing.T) {
	rapid.Check(t, func(rt *rapid.T) { runC16(rt, drawC16Spec(rt, true), "scheduled") })
}

// every (fault, step) combination for both peers, each run once per run with fixed other parameters.
func TestC16FaultMatrix(t *testing.T) {
	rec := stats.For("C16")
	sh, nsh := shard()
	idx := 0
	var n int64
	for _, peer := range []string{"lib", "raw"} {
		for _, fault := range []string{"client-close", "double-close", "server-conn-close", "server-close", "ctx-cancel", "peer-close"} {
			for step := 0; step <= 4; step++ {
				for _, v := range []int{4, 5, 66} {
					idx++
					if idx%nsh != sh {
						continue
					}
					spec := c16Spec{Version: v, Peer: peer, Step: step, K: 3, Answered: 1, MultiPage: v == 66, Receivers: 2, Fault: fault, Explicit: (step+len(fault))%2 == 0}
					sj, _ := json.Marshal(spec)
					verdict := isolated("c16session", []string{string(sj)}, nil)
					verdict = harnessTrouble(verdict)
					if strings.HasPrefix(verdict, "FAIL:") {
						rec.Violation("fault-matrix", map[string]interface{}{"spec": spec, "verdict": verdict})
						t.Errorf("%s\nspec %s", verdict, sj)
						return
					}
					n++
				}
			}
		}
	}
	rec.Bulk(n, n, "fault-matrix")
	rec.Exhaustive("(peer, fault, step boundary, version in {4,5,DSE2}) combinations (this shard's share)", n)
	rec.AddSample("fault matrix: 2 peers x 6 faults x 5 step boundaries (before connect .. after answers) x 3 versions, K=3 requests, 1 answered, 2 blocked receivers")
}
