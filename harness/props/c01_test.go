package props

// C01: frame round-trip fidelity for every message, version and compression.
// Generated domain: gen.Frame (version-valid by construction) x compression allowed for the version.
// Oracle: EncodeFrame succeeds, DecodeFrame of the bytes succeeds, canon.Diff(original, decoded) == "" and the
// reader is fully consumed; also at message level through each message codec (Encode -> Decode).

import (
	"bytes"
	"fmt"
	"io"
	"testing"

	"github.com/datastax/go-cassandra-native-protocol/message"
	"github.com/datastax/go-cassandra-native-protocol/primitive"
	"pgregory.net/rapid"

	"verifharness/canon"
	"verifharness/gen"
	"verifharness/stats"
)

func messageCodecFor(op primitive.OpCode) message.Codec {
	for _, c := range message.DefaultMessageCodecs {
		if c.GetOpCode() == op {
			return c
		}
	}
	return nil
}

func c01Property(rt *rapid.T) {
	rec := stats.For("C01")
	v := gen.Version(rt)
	comp := drawComp(rt, v)
	fc := gen.Frame(rt, v, comp != compNone, genOpts())
	codec, spy := newSpyCodec(comp)
	orig := fc.Frame.DeepCopy()

	enc, err := encodeFrame(codec, fc.Frame)
	if err != nil {
		rt.Fatalf("EncodeFrame failed on a version-valid frame: %v\n%s", err, renderFrame(fc, comp))
	}
	src := bytes.NewReader(enc)
	var rd io.Reader = src
	if rapid.IntRange(0, 3).Draw(rt, "shortReads") == 0 {
		rd = &chunkReader{r: src, chunks: drawChunks(rt)}
	}
	dec, err := codec.DecodeFrame(rd)
	if (err != nil || diffFrames(fc.Frame, dec) != "") && knownLz4("C01", spy) {
		return // open finding, excluded by construction and counted
	}
	if err != nil {
		rt.Fatalf("DecodeFrame failed on the encoder's own output: %v%s\n%s", err, lz4Diag(comp, enc), renderFrame(fc, comp))
	}
	if src.Len() != 0 {
		rt.Fatalf("DecodeFrame left %d of %d bytes unread\n%s", src.Len(), len(enc), renderFrame(fc, comp))
	}
	if d := diffFrames(fc.Frame, dec); d != "" {
		rt.Fatalf("round trip changed the frame: %s%s\n%s", d, lz4Diag(comp, enc), renderFrame(fc, comp))
	}
	// encoding must not alter the frame it was given, except for the computed body length
	orig.Header.BodyLength = fc.Frame.Header.BodyLength
	if d := canon.Diff(orig, fc.Frame); d != "" {
		rt.Fatalf("EncodeFrame modified its input: %s", d)
	}

	// message level
	mc := messageCodecFor(fc.Frame.Header.OpCode)
	var mb bytes.Buffer
	if err := mc.Encode(fc.Frame.Body.Message, &mb, v); err != nil {
		rt.Fatalf("message Encode failed: %v", err)
	}
	mr := bytes.NewReader(mb.Bytes())
	m2, err := mc.Decode(mr, v)
	if err != nil {
		rt.Fatalf("message Decode failed on the encoder's own output: %v\n%s", err, renderFrame(fc, comp))
	}
	if mr.Len() != 0 {
		rt.Fatalf("message Decode left %d bytes unread", mr.Len())
	}
	if d := canon.Diff(fc.Frame.Body.Message, m2); d != "" {
		rt.Fatalf("message round trip changed the message: %s\n%s", d, renderFrame(fc, comp))
	}

	nontrivial := fc.Optional > 0 || mb.Len() > 8
	compressed := fc.Frame.Header.Flags.Contains(primitive.HeaderFlagCompressed)
	ratio := "n/a"
	if compressed && len(enc) > 0 {
		r := float64(mb.Len()) / float64(len(enc))
		switch {
		case r > 50:
			ratio = ">50"
		case r > 8:
			ratio = "8-50"
		case r > 2:
			ratio = "2-8"
		default:
			ratio = "<2"
		}
	}
	rec.Case(nontrivial, canon.Hash(fc.Frame)^uint64(comp), func() string { return renderFrame(fc, comp) },
		"kind:"+fc.Kind, fmt.Sprintf("version:%d", v), "comp:"+comp.String(), fmt.Sprintf("compressed:%v", compressed),
		"ratio:"+ratio, fmt.Sprintf("optional:%d", fc.Optional), sizeClass(len(enc)))
}

func sizeClass(n int) string {
	switch {
	case n < 64:
		return "size:<64"
	case n < 1024:
		return "size:<1K"
	case n < 65536:
		return "size:<64K"
	case n < 1<<20:
		return "size:<1M"
	}
	return "size:>=1M"
}

func TestC01(t *testing.T) {
	rapid.Check(t, c01Property)
}
