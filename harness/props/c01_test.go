package props

// C01: frame round-trip fidelity for every message, version and compression.
// Generated domain: gen.Frame (version-valid by construction) x compression allowed for the version.
// Oracle: EncodeFrame succeeds, DecodeFrame of the bytes succeeds, canon.Diff(original, decoded) == "" and the
// reader is fully consumed; also at message level through each message codec (Encode -> Decode).

import (
	"bytes"
	"fmt"
	"testing"

	"github.com/datastax/go-cassandra-native-protocol/datatype"
	"github.com/datastax/go-cassandra-native-protocol/frame"
	"github.com/datastax/go-cassandra-native-protocol/message"
	"github.com/datastax/go-cassandra-native-protocol/primitive"
	"pgregory.net/rapid"

	"verifharness/canon"
	"verifharness/gen"
	"verifharness/stats"
)

func messageCodecFor(op primitive.OpCode) message.Codec {
	for _, c := range message.DefaultMessageCodecs {
		if c.GetOpCode() == op {
			return c
		}
	}
	return nil
}

func c01Property(rt *rapid.T) {
	rec := stats.For("C01")
	v := gen.Version(rt)
	comp := drawComp(rt, v)
	fc := gen.Frame(rt, v, comp != compNone, genOpts())
	codec, spy := newSpyCodec(comp)
	orig := fc.Frame.DeepCopy()

	enc, err := encodeFrame(codec, fc.Frame)
	if err != nil {
		rt.Fatalf("EncodeFrame failed on a version-valid frame: %v\n%s", err, renderFrame(fc, comp))
	}
	// the bytes are read through one of the reader types callers use, half of the time followed by more bytes of the
	// stream, which decoding this frame must leave alone
	var trailing []byte
	if rapid.Bool().Draw(rt, "trailing") {
		trailing = []byte{0xde, 0xad, 0xbe, 0xef, 0x00, 0x00, 0x00, 0x01, 0xff}
	}
	rd, unread, srcKind := streamSource(rt, append(append([]byte{}, enc...), trailing...), "source")
	dec, err := codec.DecodeFrame(rd)
	if (err != nil || diffFrames(fc.Frame, dec) != "") && knownLz4("C01", spy) {
		return // open finding, excluded by construction and counted
	}
	if err != nil {
		rt.Fatalf("DecodeFrame failed on the encoder's own output (read through a %s, %d bytes following): %v%s\n%s", srcKind, len(trailing), err, lz4Diag(comp, enc), renderFrame(fc, comp))
	}
	if unread() != len(trailing) {
		rt.Fatalf("DecodeFrame left %d bytes of the %s unread; the frame is %d bytes and is followed by %d bytes\n%s", unread(), srcKind, len(enc), len(trailing), renderFrame(fc, comp))
	}
	if d := diffFrames(fc.Frame, dec); d != "" {
		rt.Fatalf("round trip changed the frame: %s%s\n%s", d, lz4Diag(comp, enc), renderFrame(fc, comp))
	}
	// encoding must not alter the frame it was given, except for the computed body length
	orig.Header.BodyLength = fc.Frame.Header.BodyLength
	if d := canon.Diff(orig, fc.Frame); d != "" {
		rt.Fatalf("EncodeFrame modified its input: %s", d)
	}

	// message level
	mc := messageCodecFor(fc.Frame.Header.OpCode)
	var mb bytes.Buffer
	if err := mc.Encode(fc.Frame.Body.Message, &mb, v); err != nil {
		rt.Fatalf("message Encode failed: %v", err)
	}
	mr := bytes.NewReader(mb.Bytes())
	m2, err := mc.Decode(mr, v)
	if err != nil {
		rt.Fatalf("message Decode failed on the encoder's own output: %v\n%s", err, renderFrame(fc, comp))
	}
	if mr.Len() != 0 {
		rt.Fatalf("message Decode left %d bytes unread", mr.Len())
	}
	if d := canon.Diff(fc.Frame.Body.Message, m2); d != "" {
		rt.Fatalf("message round trip changed the message: %s\n%s", d, renderFrame(fc, comp))
	}

	nontrivial := fc.Optional > 0 || mb.Len() > 8
	compressed := fc.Frame.Header.Flags.Contains(primitive.HeaderFlagCompressed)
	ratio := "n/a"
	if compressed && len(enc) > 0 {
		r := float64(mb.Len()) / float64(len(enc))
		switch {
		case r > 50:
			ratio = ">50"
		case r > 8:
			ratio = "8-50"
		case r > 2:
			ratio = "2-8"
		default:
			ratio = "<2"
		}
	}
	rec.Case(nontrivial, canon.Hash(fc.Frame)^uint64(comp), func() string { return renderFrame(fc, comp) },
		"kind:"+fc.Kind, fmt.Sprintf("version:%d", v), "comp:"+comp.String(), fmt.Sprintf("compressed:%v", compressed),
		"ratio:"+ratio, fmt.Sprintf("optional:%d", fc.Optional), sizeClass(len(enc)))
}

func sizeClass(n int) string {
	switch {
	case n < 64:
		return "size:<64"
	case n < 1024:
		return "size:<1K"
	case n < 65536:
		return "size:<64K"
	case n < 1<<20:
		return "size:<1M"
	}
	return "size:>=1M"
}

func TestC01(t *testing.T) {
	rapid.Check(t, c01Property)
}

// Shape enumeration: every subset of the optional fields of QueryOptions (2^10 incl. DSE ones, filtered by what the
// version's specification defines), of Batch (2^4) and of RowsMetadata (2^5), for every version and for QUERY / EXECUTE /
// BATCH / ROWS / PREPARED, with fixed small field values. Complements the random generator: no subset is left to chance.
func forEachShape(check func(v primitive.ProtocolVersion, m message.Message, what string) bool) {
	i64 := int64(-42)
	i32 := int32(77)
	serial := primitive.ConsistencyLevelLocalSerial
	for _, v := range allVersions {
		// --- QueryOptions: bit i of mask selects optional field i
		for mask := 0; mask < 1<<10; mask++ {
			o := &message.QueryOptions{Consistency: primitive.ConsistencyLevelQuorum}
			valid := true
			if mask&1 != 0 {
				o.PositionalValues = []*primitive.Value{primitive.NewValue([]byte{1}), primitive.NewNullValue()}
			}
			if mask&2 != 0 {
				if mask&1 != 0 || !gen.AtLeast(v, 3) {
					valid = false // positional xor named; names from v3
				}
				o.NamedValues = map[string]*primitive.Value{"a": primitive.NewValue([]byte{2})}
			}
			if mask&4 != 0 {
				o.SkipMetadata = true
			}
			if mask&8 != 0 {
				o.PageSize = 100
			}
			if mask&16 != 0 {
				o.PagingState = []byte{9, 9}
			}
			if mask&32 != 0 {
				o.SerialConsistency = &serial
			}
			if mask&64 != 0 {
				if !gen.AtLeast(v, 3) {
					valid = false
				}
				o.DefaultTimestamp = &i64
			}
			if mask&128 != 0 {
				if !gen.HasKeyspaceFlag(v) {
					valid = false
				}
				o.Keyspace = "ks"
			}
			if mask&256 != 0 {
				if !gen.HasNowInSeconds(v) {
					valid = false
				}
				o.NowInSeconds = &i32
			}
			if mask&512 != 0 {
				if !gen.IsDse(v) {
					valid = false
				}
				o.ContinuousPagingOptions = &message.ContinuousPagingOptions{MaxPages: 3, PagesPerSecond: 4}
				if v == primitive.ProtocolVersionDse2 {
					o.ContinuousPagingOptions.NextPages = 5
				}
				if mask&8 != 0 {
					o.PageSizeInBytes = true
				}
			}
			if !valid {
				continue
			}
			if !check(v, &message.Query{Query: "SELECT", Options: o}, fmt.Sprintf("QUERY options mask %#x", mask)) {
				return
			}
			ex := &message.Execute{QueryId: []byte{1, 2}, Options: o}
			if gen.HasResultMetadataId(v) {
				ex.ResultMetadataId = []byte{3}
			}
			if !check(v, ex, fmt.Sprintf("EXECUTE options mask %#x", mask)) {
				return
			}
		}
		// --- Batch
		for mask := 0; mask < 1<<4; mask++ {
			b := &message.Batch{Type: primitive.BatchTypeUnlogged, Consistency: primitive.ConsistencyLevelOne,
				Children: []*message.BatchChild{{Query: "INSERT", Values: []*primitive.Value{primitive.NewValue([]byte{1})}}, {Id: []byte{7}}}}
			valid := true
			if mask&1 != 0 {
				b.SerialConsistency = &serial
				valid = valid && gen.AtLeast(v, 3)
			}
			if mask&2 != 0 {
				b.DefaultTimestamp = &i64
				valid = valid && gen.AtLeast(v, 3)
			}
			if mask&4 != 0 {
				b.Keyspace = "ks"
				valid = valid && gen.HasKeyspaceFlag(v)
			}
			if mask&8 != 0 {
				b.NowInSeconds = &i32
				valid = valid && gen.HasNowInSeconds(v)
			}
			if valid && !check(v, b, fmt.Sprintf("BATCH mask %#x", mask)) {
				return
			}
		}
		// --- RowsMetadata
		for mask := 0; mask < 1<<5; mask++ {
			md := &message.RowsMetadata{ColumnCount: 2}
			valid := true
			if mask&1 != 0 {
				md.Columns = []*message.ColumnMetadata{{Keyspace: "k", Table: "t", Name: "a", Type: datatype.Int}, {Keyspace: "k", Table: "t", Name: "b", Type: datatype.NewList(datatype.Varchar)}}
				if mask&2 != 0 {
					md.Columns[1].Table = "other" // no global table spec
				}
			} else if mask&2 != 0 {
				continue
			}
			if mask&4 != 0 {
				md.PagingState = []byte{1}
			}
			if mask&8 != 0 {
				md.NewResultMetadataId = []byte{2}
				valid = valid && gen.HasResultMetadataId(v)
			}
			if mask&16 != 0 {
				md.ContinuousPageNumber = 3
				md.LastContinuousPage = mask&4 != 0
				valid = valid && gen.IsDse(v)
			}
			if !valid {
				continue
			}
			rows := &message.RowsResult{Metadata: md, Data: message.RowSet{{[]byte{0, 0, 0, 1}, nil}, {nil, []byte{}}}}
			if !check(v, rows, fmt.Sprintf("ROWS metadata mask %#x", mask)) {
				return
			}
			if mask&16 == 0 {
				pr := &message.PreparedResult{PreparedQueryId: []byte{1}, VariablesMetadata: &message.VariablesMetadata{}, ResultMetadata: md}
				if gen.HasResultMetadataId(v) {
					pr.ResultMetadataId = []byte{4}
				}
				if gen.AtLeast(v, 4) {
					pr.VariablesMetadata.PkIndices = []uint16{0}
					pr.VariablesMetadata.Columns = []*message.ColumnMetadata{{Keyspace: "k", Table: "t", Name: "p", Type: datatype.Uuid}}
				}
				if !check(v, pr, fmt.Sprintf("PREPARED result metadata mask %#x", mask)) {
					return
				}
			}
		}
	}
}

func TestC01Shapes(t *testing.T) {
	rec := stats.For("C01")
	sh, nsh := shard()
	idx := 0
	var n int64
	forEachShape(func(v primitive.ProtocolVersion, m message.Message, what string) bool {
		idx++
		if idx%nsh != sh {
			return true
		}
		for _, comp := range []compKind{compNone, compLz4} {
			f := frame.NewFrame(v, 5, m.DeepCopyMessage())
			if comp != compNone {
				f.SetCompress(true)
			}
			codec := newRawCodec(comp)
			enc, err := encodeFrame(codec, f)
			if err != nil {
				rec.Violation("shape-encode", fmt.Sprintf("v%d %s: EncodeFrame failed: %v", v, what, err))
				t.Errorf("v%d %s: EncodeFrame failed: %v", v, what, err)
				return false
			}
			dec, err := codec.DecodeFrame(bytes.NewReader(enc))
			if err != nil {
				rec.Violation("shape-decode", fmt.Sprintf("v%d %s: DecodeFrame failed: %v (bytes %x)", v, what, err, clipBytes(enc)))
				t.Errorf("v%d %s: DecodeFrame failed: %v", v, what, err)
				return false
			}
			if d := diffFrames(f, dec); d != "" {
				rec.Violation("shape-roundtrip", fmt.Sprintf("v%d %s comp=%s: %s", v, what, comp, d))
				t.Errorf("v%d %s comp=%s: round trip changed the frame: %s", v, what, comp, d)
				return false
			}
			n++
		}
		return true
	})
	rec.Bulk(n, n, "shapes")
	rec.Exhaustive("optional-field subsets of QueryOptions/Batch/RowsMetadata x versions x {none,lz4} (this shard's share)", n)
	rec.AddSample("shape enumeration: e.g. v5 QUERY with options mask 0x1a9 = {positional values, page size, serial consistency, keyspace, now-in-seconds}")
}
