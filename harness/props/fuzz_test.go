package props

// Coverage-guided stage (thorough tier of C04 and C05, DESIGN.md 7.6). Two native fuzz targets carry the same oracles as the
// rapid properties, in-process:
//
//	FuzzC04(sel, data)  - sel picks one row of a fixed table of decoding entry points (Appendix B) x versions x compressors
//	                      x destination kinds; the call must return (value or error). A recovered panic fails the target.
//	FuzzC05(sel, data)  - data decoded as a frame under the compressor sel picks; when it decodes and re-encodes, the result
//	                      must decode to an equal frame (the property's last sentence).
//
// The fuzzer is only the *search*: a failing input it saves is handed to TestFuzzConfirm, which replays it through the
// address-space-limited worker of the rapid checks. Only a failure that reproduces there is a violation; a fuzz worker that
// died of memory exhaustion (the library allocates what a count field declares before reading) is a counted resource skip.
// The seed corpus is drawn from the same generators as the rapid checks (fixed PRNG values), plus whatever is committed under
// harness/props/testdata/fuzz/<target>/ ; with `-test.run` (quick tier) the targets execute exactly that corpus.

import (
	"encoding/binary"
	"encoding/hex"
	"encoding/json"
	"fmt"
	"os"
	"path/filepath"
	"regexp"
	"runtime"
	"strconv"
	"strings"
	"testing"

	"github.com/datastax/go-cassandra-native-protocol/message"
	"pgregory.net/rapid"

	"verifharness/gen"
	"verifharness/stats"
)

var fuzzVersions = []int{2, 3, 4, 5, 65, 66}

// fuzzInlineDests: destination kinds of the inline datacodec rows (the CQL type travels in the data: [short n][n bytes of
// type descriptor][value bytes]).
var fuzzInlineDests = wrongDests

var fuzzTable = buildFuzzTable()

func buildFuzzTable() [][]string {
	var t [][]string
	comps := []string{"none", "lz4", "snappy"}
	for _, v := range fuzzVersions {
		vs := strconv.Itoa(v)
		for _, c := range comps {
			for _, e := range []string{"frame.DecodeFrame", "frame.DecodeRawFrame", "frame.DecodeHeader", "frame.DecodeBody", "frame.DecodeRawBody", "frame.ConvertFromRawFrame"} {
				t = append(t, []string{e, c, "seek", vs})
			}
			t = append(t, []string{"frame.DiscardBody", c, "seek", vs}, []string{"frame.DiscardBody", c, "noseek", vs})
		}
		for _, mc := range message.DefaultMessageCodecs {
			t = append(t, []string{fmt.Sprintf("message.op%d", mc.GetOpCode()), vs})
		}
		t = append(t, []string{"message.QueryOptions", vs}, []string{"message.ContinuousPagingOptions", vs}, []string{"datatype.ReadDataType", vs})
		for _, d := range fuzzInlineDests {
			t = append(t, []string{"datacodec.DecodeInline", vs, d})
		}
	}
	names := make([]string, 0, len(primReaders)+1)
	for n := range primReaders {
		names = append(names, n)
	}
	sortStringsInPlace(names)
	names = append(names, "ParseUuid")
	for _, n := range names {
		switch n {
		case "ReadValue", "ReadPositionalValues", "ReadNamedValues", "ReadStreamId":
			for _, v := range fuzzVersions {
				t = append(t, []string{"primitive." + n, strconv.Itoa(v)})
			}
		default:
			t = append(t, []string{"primitive." + n, "4"})
		}
	}
	t = append(t, []string{"segment.DecodeSegment", "none", "3"}, []string{"segment.DecodeSegment", "lz4", "5"},
		[]string{"lz4.Decompress"}, []string{"lz4.DecompressWithLength"}, []string{"snappy.DecompressWithLength"},
		[]string{"client.AuthCredentials.Unmarshal"})
	return t
}

// fuzzResolve maps (sel, data) to the worker call (args, input) of the rapid C04 check; ok=false when the input is not usable
// (inline value rows need a leading type descriptor).
func fuzzResolve(sel uint16, data []byte) (args []string, input []byte, ok bool) {
	row := fuzzTable[int(sel)%len(fuzzTable)]
	if row[0] != "datacodec.DecodeInline" {
		return row, data, true
	}
	if len(data) < 2 {
		return nil, nil, false
	}
	n := int(binary.BigEndian.Uint16(data))
	if n == 0 || n > 64 || 2+n > len(data) {
		return nil, nil, false
	}
	return []string{"datacodec.Decode", row[1], hex.EncodeToString(data[2 : 2+n]), row[2], "data"}, data[2+n:], true
}

func fuzzSelOf(args []string) (uint16, bool) {
	for i, row := range fuzzTable {
		if len(row) == len(args) {
			same := true
			for j := range row {
				if row[j] != args[j] {
					same = false
					break
				}
			}
			if same {
				return uint16(i), true
			}
		}
	}
	return 0, false
}

// corpusDir: the committed corpus of a target, next to this source file (the shards run in scratch directories).
func corpusDir(target string) string {
	if d := os.Getenv("VERIF_CORPUS"); d != "" {
		return filepath.Join(d, target)
	}
	_, file, _, _ := runtime.Caller(0)
	return filepath.Join(filepath.Dir(file), "testdata", "fuzz", target)
}

var corpusLine = regexp.MustCompile(`^(\w+|\[\]byte)\((.*)\)$`)

// readCorpusFile parses a "go test fuzz v1" file with one integer and one []byte value.
func readCorpusFile(path string) (sel uint64, data []byte, err error) {
	b, err := os.ReadFile(path)
	if err != nil {
		return 0, nil, err
	}
	lines := strings.Split(strings.TrimSpace(string(b)), "\n")
	if len(lines) != 3 || !strings.HasPrefix(lines[0], "go test fuzz v1") {
		return 0, nil, fmt.Errorf("%s: not a two-value corpus file", path)
	}
	for _, l := range lines[1:] {
		m := corpusLine.FindStringSubmatch(strings.TrimSpace(l))
		if m == nil {
			return 0, nil, fmt.Errorf("%s: cannot parse %q", path, l)
		}
		if m[1] == "[]byte" {
			s, err := strconv.Unquote(m[2])
			if err != nil {
				return 0, nil, fmt.Errorf("%s: %v", path, err)
			}
			data = []byte(s)
		} else {
			lit := m[2]
			if strings.HasPrefix(lit, "'") { // byte values may be printed as runes
				r, _, _, err := strconv.UnquoteChar(strings.Trim(lit, "'"), '\'')
				if err != nil {
					return 0, nil, err
				}
				sel = uint64(r)
			} else if sel, err = strconv.ParseUint(lit, 0, 64); err != nil {
				return 0, nil, fmt.Errorf("%s: %v", path, err)
			}
		}
	}
	return sel, data, nil
}

func addCommittedCorpus(f *testing.F, target string, add func(sel uint64, data []byte)) {
	files, _ := filepath.Glob(filepath.Join(corpusDir(target), "*"))
	for _, p := range files {
		if sel, data, err := readCorpusFile(p); err == nil {
			add(sel, data)
		}
	}
}

// c04Seeds: valid encodings for the table rows, drawn from the rapid generators at fixed PRNG values.
func c04Seeds(n int, add func(sel uint16, data []byte)) {
	g := rapid.Custom(func(rt *rapid.T) c04Case {
		switch rapid.IntRange(0, 7).Draw(rt, "family") {
		case 0, 1:
			return frameCase(rt)
		case 2, 3:
			return messageCase(rt)
		case 4:
			return typeCase(rt)
		case 5:
			return primitiveCase(rt)
		case 6:
			c, _ := segmentCase(rt)
			return c
		default:
			return valueDecodeCase(rt)
		}
	})
	for i := 0; i < n; i++ {
		c := g.Example(i + 1)
		if len(c.valid) > 20000 {
			continue
		}
		if c.args[0] == "datacodec.Decode" {
			tb, _ := hex.DecodeString(c.args[2])
			if len(tb) == 0 || len(tb) > 64 {
				continue
			}
			for _, d := range []string{"iface", "pref"} {
				if sel, ok := fuzzSelOf([]string{"datacodec.DecodeInline", c.args[1], d}); ok {
					data := binary.BigEndian.AppendUint16(nil, uint16(len(tb)))
					data = append(append(data, tb...), c.valid...)
					add(sel, data)
				}
			}
			continue
		}
		args := c.args
		if strings.HasPrefix(args[0], "frame.") && args[0] != "frame.DiscardBody" {
			args = []string{args[0], args[1], "seek", args[3]}
		}
		if strings.HasPrefix(args[0], "primitive.") {
			switch args[0] {
			case "primitive.ReadValue", "primitive.ReadPositionalValues", "primitive.ReadNamedValues", "primitive.ReadStreamId":
			default:
				args = []string{args[0], "4"}
			}
		}
		if sel, ok := fuzzSelOf(args); ok {
			add(sel, c.valid)
		}
	}
}

func fuzzSeedCount() int {
	if n, err := strconv.Atoi(os.Getenv("VERIF_FUZZ_SEEDS")); err == nil && n > 0 {
		return n
	}
	return 400
}

// fuzzTooHungry: inputs whose *leading* length field declares more bytes than the input holds are left out of the search
// (not out of the property: the rapid checks feed exactly these, under the address-space-limited worker). The library
// allocates what such a field declares before it reads (up to 2 GiB, zeroed), which costs seconds per execution and trips
// the fuzzing engine's 10 s watchdog on a busy machine; nothing beyond the allocation and an EOF error happens for them.
func fuzzTooHungry(args []string, in []byte) bool {
	lead := func(off int) bool {
		return len(in) >= off+4 && int64(int32(binary.BigEndian.Uint32(in[off:]))) > int64(len(in))+64
	}
	switch args[0] {
	case "primitive.ReadBytes", "primitive.ReadValue", "primitive.ReadLongString", "primitive.ReadReasonMap", "lz4.DecompressWithLength":
		return lead(0)
	}
	if strings.HasPrefix(args[0], "frame.") && len(in) > 0 {
		h := 9
		if in[0]&0x7f == 2 {
			h = 8
		}
		if lead(h - 4) {
			return true
		}
		// an LZ4 body starts with the [int] length of the uncompressed body, which the library allocates at once
		if len(args) > 1 && args[1] == "lz4" && len(in) >= h+4 && in[1]&0x01 != 0 {
			return int64(int32(binary.BigEndian.Uint32(in[h:]))) > 256*int64(len(in))+64
		}
	}
	return false
}

// fuzzing reports whether the binary runs as fuzzing coordinator or worker (as opposed to replaying the corpus as tests).
func fuzzing() bool {
	for _, a := range os.Args[1:] {
		if strings.HasPrefix(a, "-test.fuzz=") || strings.HasPrefix(a, "-test.fuzzworker") {
			return true
		}
	}
	return false
}

func corpusReplayOnly(f *testing.F) {
	if k, _ := shard(); !fuzzing() && k != 0 {
		f.Skip("the corpus is replayed by shard 0 only")
	}
}

func FuzzC04(f *testing.F) {
	corpusReplayOnly(f)
	replay := !fuzzing()
	c04Seeds(fuzzSeedCount(), func(sel uint16, data []byte) { f.Add(sel, data) })
	addCommittedCorpus(f, "FuzzC04", func(sel uint64, data []byte) { f.Add(uint16(sel), data) })
	f.Fuzz(func(t *testing.T, sel uint16, data []byte) {
		if len(data) > 1<<20 {
			return
		}
		args, input, ok := fuzzResolve(sel, data)
		if !ok || fuzzTooHungry(args, input) {
			return
		}
		v := c04Handler(args, input)
		if strings.HasPrefix(v, "FAIL:") && !strings.HasPrefix(v, "FAIL: harness") && knownC04(v) == "" {
			t.Fatalf("%s\nentry %v input(%d bytes) %x", v, args, len(input), clipBytes(input))
		}
		if replay {
			stats.For("C04").Case(true, stats.Hash(input, []byte("corpus/"+strings.Join(args[:min(2, len(args))], "/"))), func() string {
				return fmt.Sprintf("corpus %v -> %s input(%d bytes) %x", args, v, len(input), clipBytes(input))
			}, "corpus-entry:"+args[0], "corpus-outcome:"+v)
		}
	})
}

var fuzzComps = []string{"none", "lz4", "snappy"}

func FuzzC05(f *testing.F) {
	corpusReplayOnly(f)
	replay := !fuzzing()
	g := rapid.Custom(func(rt *rapid.T) []interface{} {
		v := gen.Version(rt)
		comp := drawComp(rt, v)
		fc := gen.Frame(rt, v, comp != compNone, genOpts())
		enc, err := encodeFrame(newRawCodec(comp), fc.Frame)
		if err != nil {
			return []interface{}{uint8(0), []byte(nil)}
		}
		return []interface{}{uint8(comp), enc}
	})
	for i := 0; i < fuzzSeedCount(); i++ {
		e := g.Example(i + 1)
		if b := e[1].([]byte); len(b) > 0 && len(b) <= 20000 {
			f.Add(e[0].(uint8), b)
		}
	}
	addCommittedCorpus(f, "FuzzC05", func(sel uint64, data []byte) { f.Add(uint8(sel), data) })
	f.Fuzz(func(t *testing.T, sel uint8, data []byte) {
		if len(data) > 1<<20 {
			return
		}
		comp := fuzzComps[int(sel)%len(fuzzComps)]
		if fuzzTooHungry([]string{"frame.DecodeFrame", comp}, data) {
			return
		}
		v := c05ReencodeVerdict([]string{comp}, data)
		if strings.HasPrefix(v, "FAIL:") {
			t.Fatalf("%s\ncomp=%s input(%d bytes) %x", v, comp, len(data), clipBytes(data))
		}
		if replay {
			cls := "corpus-reencode:stable"
			if strings.HasPrefix(v, "SKIP:") {
				cls = "corpus-reencode:" + firstLine(strings.TrimPrefix(v, "SKIP: "))
			}
			stats.For("C05").Case(!strings.HasPrefix(v, "SKIP:"), stats.Hash(data, []byte("corpus/"+comp)), func() string {
				return fmt.Sprintf("corpus re-encode comp=%s input(%d bytes)=%x -> %s", comp, len(data), clipBytes(data), clip200(v))
			}, cls)
		}
	})
}

// TestFuzzConfirm replays one input saved by the fuzzer (VERIF_FUZZ_TARGET, VERIF_FUZZ_INPUT) through the isolated worker.
// Confirmed: a violation is recorded (replay file in the format of the rapid check of the same property) and the test fails.
// Not confirmed (returns normally there, or the worker ran out of memory): prints "UNCONFIRMED <reason>" and passes.
func TestFuzzConfirm(t *testing.T) {
	target, path := os.Getenv("VERIF_FUZZ_TARGET"), os.Getenv("VERIF_FUZZ_INPUT")
	if target == "" || path == "" {
		t.Skip("no fuzz input to confirm")
	}
	sel, data, err := readCorpusFile(path)
	if err != nil {
		t.Fatalf("harness: %v", err)
	}
	switch target {
	case "FuzzC04":
		args, input, ok := fuzzResolve(uint16(sel), data)
		if !ok {
			fmt.Println("UNCONFIRMED unusable input")
			return
		}
		v := isolated("c04", args, input)
		if strings.HasPrefix(v, "FAIL:") && !strings.HasPrefix(v, "FAIL: harness") && knownC04(v) == "" {
			p := stats.For("C04").Violation("fuzz-item", map[string]interface{}{"replay_test": "TestC04ReplayItem", "args": args, "input_hex": hex.EncodeToString(input), "verdict": v[:min(len(v), 2000)]})
			t.Fatalf("%s\nentry %v input %x\nreplay %s", v[:min(len(v), 600)], args, clipBytes(input), p)
		}
		fmt.Printf("UNCONFIRMED %s\n", firstLine(v))
	case "FuzzC05":
		comp := fuzzComps[int(sel)%len(fuzzComps)]
		v := isolated("c05reencode", []string{comp}, data)
		if strings.HasPrefix(v, "FAIL:") {
			p := stats.For("C05").Violation("fuzz-item", map[string]interface{}{"replay_test": "TestC05ReplayItem", "args": []string{comp}, "input_hex": hex.EncodeToString(data), "verdict": v[:min(len(v), 2000)]})
			t.Fatalf("%s\ncomp=%s input %x\nreplay %s", v[:min(len(v), 900)], comp, clipBytes(data), p)
		}
		fmt.Printf("UNCONFIRMED %s\n", firstLine(v))
	default:
		t.Fatalf("harness: unknown target %q", target)
	}
}

// TestC05ReplayItem re-runs one saved (compressor, input) pair of the re-encode clause: ./check replay <file>.
func TestC05ReplayItem(t *testing.T) {
	path := os.Getenv("VERIF_REPLAY_FILE")
	if path == "" {
		t.Skip("no replay file")
	}
	var doc struct {
		Case struct {
			Args     []string `json:"args"`
			InputHex string   `json:"input_hex"`
		} `json:"case"`
	}
	b, err := os.ReadFile(path)
	if err != nil {
		t.Fatal(err)
	}
	if err := json.Unmarshal(b, &doc); err != nil {
		t.Fatal(err)
	}
	input, err := hex.DecodeString(doc.Case.InputHex)
	if err != nil {
		t.Fatal(err)
	}
	if v := isolated("c05reencode", doc.Case.Args, input); strings.HasPrefix(v, "FAIL:") {
		t.Fatalf("%s\ncomp=%v input %x", v, doc.Case.Args, clipBytes(input))
	}
}
