//go:build verif

package props

// C15: client and server exchange frames intact under every version and compression.
// Three topologies: library client <-> library server; library client <-> raw server peer; raw client peer <-> library
// server. Raw peers use only the reference encoders. Each session runs in a worker process (a panic in a library goroutine
// would otherwise take the test binary down) and returns a verdict.

import (
	"bytes"
	"context"
	"encoding/json"
	"fmt"
	"net"
	"strings"
	"testing"
	"time"

	"github.com/datastax/go-cassandra-native-protocol/client"
	"github.com/datastax/go-cassandra-native-protocol/frame"
	"github.com/datastax/go-cassandra-native-protocol/message"
	"github.com/datastax/go-cassandra-native-protocol/primitive"
	"pgregory.net/rapid"

	"verifharness/gen"
	"verifharness/ref"
	"verifharness/stats"
)

type c15Exchange struct {
	Req        []byte // reference encoding (uncompressed) of the request frame
	Resp       []byte // reference encoding (uncompressed) of the response frame
	Compress   bool   // legacy framing: send compressed when compression was negotiated
	SplitPlan  []int  // raw sender, modern framing: split the envelope into segments of these sizes (nil: self-contained)
	CompressSg bool   // raw sender, modern framing + LZ4: compress segment payloads
}

type c15Spec struct {
	Topology    string // "lib-lib" | "lib-raw" | "raw-lib"
	Version     int
	Compression string // "", "LZ4", "SNAPPY"
	Auth        bool
	Batch       bool // send all requests first, then all responses (raw sender: several envelopes in one segment)
	Exchanges   []c15Exchange
}

func decodeRefFrame(b []byte) (*frame.Frame, error) {
	return frame.NewRawCodec().DecodeFrame(bytes.NewReader(b))
}

func within(d time.Duration, what string, f func() error) error {
	ch := make(chan error, 1)
	go func() { ch <- f() }()
	select {
	case err := <-ch:
		return err
	case <-time.After(d):
		return fmt.Errorf("%s did not complete within %v", what, d)
	}
}

func compressionOf(s string) primitive.Compression {
	switch s {
	case "LZ4":
		return primitive.CompressionLz4
	case "SNAPPY":
		return primitive.CompressionSnappy
	}
	return primitive.CompressionNone
}

func patchStream(env []byte, id int16) []byte {
	out := append([]byte{}, env...)
	if out[0]&0x7f == 2 {
		out[2] = byte(int8(id))
	} else {
		out[2], out[3] = byte(uint16(id)>>8), byte(id)
	}
	return out
}

// matchEnvelope compares an envelope seen by a raw peer with the reference encoding of the frame that was sent.
func matchEnvelope(e rawEnvelope, f *frame.Frame, checkStream bool) string {
	wantVB := byte(f.Header.Version)
	if f.Header.IsResponse {
		wantVB |= 0x80
	}
	if e.VersionByte != wantVB {
		return fmt.Sprintf("version byte %#x, want %#x", e.VersionByte, wantVB)
	}
	if e.OpCode != byte(f.Header.OpCode) {
		return fmt.Sprintf("opcode %#x, want %#x", e.OpCode, byte(f.Header.OpCode))
	}
	if checkStream && e.Stream != f.Header.StreamId {
		return fmt.Sprintf("stream id %d, want %d", e.Stream, f.Header.StreamId)
	}
	if e.Flags&^0x01 != byte(f.Header.Flags)&^0x01 {
		return fmt.Sprintf("flags %#x, want %#x (ignoring COMPRESSED)", e.Flags, byte(f.Header.Flags))
	}
	rb, err := ref.EncodeBody(f.Header, f.Body)
	if err != nil {
		return "harness: " + err.Error()
	}
	if d := rb.Match(e.Body); d != "" {
		return "body: " + d
	}
	return ""
}

func c15Session(args []string, _ []byte) string {
	var spec c15Spec
	if err := json.Unmarshal([]byte(args[0]), &spec); err != nil {
		return "FAIL: harness: bad spec: " + err.Error()
	}
	v := primitive.ProtocolVersion(spec.Version)
	var creds *client.AuthCredentials
	if spec.Auth {
		creds = &client.AuthCredentials{Username: "user1", Password: "pass1"}
	}
	var reqs, resps []*frame.Frame
	for i, ex := range spec.Exchanges {
		rq, err := decodeRefFrame(ex.Req)
		if err != nil {
			return fmt.Sprintf("FAIL: harness: request %d does not decode: %v", i, err)
		}
		rs, err := decodeRefFrame(ex.Resp)
		if err != nil {
			return fmt.Sprintf("FAIL: harness: response %d does not decode: %v", i, err)
		}
		reqs, resps = append(reqs, rq), append(resps, rs)
	}
	ctx, cancel := context.WithCancel(context.Background())
	defer cancel()
	const T = 30 * time.Second // generous: frames of several hundred KiB on a machine that may be saturated
	switch spec.Topology {
	case "lib-lib":
		srv := client.NewCqlServer("127.0.0.1:0", creds)
		if err := srv.Start(ctx); err != nil {
			return "FAIL: harness: server start: " + err.Error()
		}
		defer srv.Close()
		cl := client.NewCqlClient(srv.VerifAddr().String(), creds)
		cl.Compression = compressionOf(spec.Compression)
		cl.ReadTimeout = T
		var cc *client.CqlClientConnection
		var sc *client.CqlServerConnection
		if err := within(T, "BindAndInit", func() (err error) { cc, sc, err = srv.BindAndInit(cl, ctx, v, client.ManagedStreamId); return }); err != nil {
			return "FAIL: handshake between library client and library server failed: " + err.Error()
		}
		defer cc.Close()
		for i := range reqs {
			rq, rs := reqs[i], resps[i]
			if spec.Exchanges[i].Compress && spec.Compression != "" {
				rq.SetCompress(true)
			}
			wantReq := rq.DeepCopy()
			var infl client.InFlightRequest
			var err error
			if infl, err = cc.Send(rq); err != nil {
				return fmt.Sprintf("FAIL: exchange %d: client Send failed: %v", i, err)
			}
			wantReq.Header.StreamId = rq.Header.StreamId
			var got *frame.Frame
			if err := within(T, "server Receive", func() (err error) { got, err = sc.Receive(); return }); err != nil {
				return fmt.Sprintf("FAIL: exchange %d: server did not receive the request: %v", i, err)
			}
			wantReq.Header.BodyLength, wantReq.Header.Flags = got.Header.BodyLength, wantReq.Header.Flags&^1|got.Header.Flags&1
			if d := diffFrames(wantReq, got); d != "" {
				return fmt.Sprintf("FAIL: exchange %d: request received by the server differs from the one sent: %s", i, d)
			}
			rs.Header.StreamId = got.Header.StreamId
			wantResp := rs.DeepCopy()
			if err := sc.Send(rs); err != nil {
				return fmt.Sprintf("FAIL: exchange %d: server Send failed: %v", i, err)
			}
			var back *frame.Frame
			if err := within(T+time.Second, "client Receive", func() (err error) { back, err = cc.Receive(infl); return }); err != nil {
				return fmt.Sprintf("FAIL: exchange %d: client did not receive the response: %v", i, err)
			}
			if back == nil {
				return fmt.Sprintf("FAIL: exchange %d: client Receive returned no frame", i)
			}
			wantResp.Header.BodyLength, wantResp.Header.Flags = back.Header.BodyLength, wantResp.Header.Flags&^1|back.Header.Flags&1
			if d := diffFrames(wantResp, back); d != "" {
				return fmt.Sprintf("FAIL: exchange %d: response received by the client differs from the one sent: %s", i, d)
			}
		}
		return "OK"

	case "lib-raw":
		ln, err := net.Listen("tcp", "127.0.0.1:0")
		if err != nil {
			return "FAIL: harness: listen: " + err.Error()
		}
		defer ln.Close()
		peerErr := make(chan string, 1)
		go func() {
			c, err := ln.Accept()
			if err != nil {
				peerErr <- "harness: accept: " + err.Error()
				return
			}
			defer c.Close()
			l := newRawLink(c)
			l.setDeadline(3 * T)
			if _, err := l.serverHandshake(spec.Auth); err != nil {
				peerErr <- "raw server: " + err.Error() + " " + strings.Join(l.notes, "; ")
				return
			}
			serve := func(lo, hi int) string {
				var envs []rawEnvelope
				for i := lo; i < hi; i++ {
					e, err := l.readEnvelope()
					if err != nil {
						return fmt.Sprintf("raw server: reading request %d: %v", i, err)
					}
					if v == 5 && !e.InSegment {
						return fmt.Sprintf("raw server: request %d arrived outside a segment after the v5 handshake", i)
					}
					if d := matchEnvelope(e, reqs[i], reqs[i].Header.StreamId != client.ManagedStreamId); d != "" {
						return fmt.Sprintf("request %d as seen on the wire differs from the specification encoding of the frame sent: %s", i, d)
					}
					envs = append(envs, e)
				}
				var out [][]byte
				for k, e := range envs {
					out = append(out, patchStream(spec.Exchanges[lo+k].Resp, e.Stream))
				}
				if spec.Batch || hi-lo > 1 {
					if err := l.writeEnvelopes(out, spec.Exchanges[lo].Compress, nil, spec.Exchanges[lo].CompressSg); err != nil {
						return "raw server: write: " + err.Error()
					}
					return ""
				}
				ex := spec.Exchanges[lo]
				if err := l.writeEnvelopes(out, ex.Compress, ex.SplitPlan, ex.CompressSg); err != nil {
					return "raw server: write: " + err.Error()
				}
				return ""
			}
			if spec.Batch {
				if s := serve(0, len(reqs)); s != "" {
					peerErr <- s
					return
				}
			} else {
				for i := range reqs {
					if s := serve(i, i+1); s != "" {
						peerErr <- s
						return
					}
				}
			}
			if len(l.notes) > 0 {
				peerErr <- "wire conformance: " + strings.Join(l.notes, "; ")
				return
			}
			peerErr <- ""
		}()
		cl := client.NewCqlClient(ln.Addr().String(), creds)
		cl.Compression = compressionOf(spec.Compression)
		cl.ReadTimeout = T
		var cc *client.CqlClientConnection
		if err := within(T, "ConnectAndInit", func() (err error) { cc, err = cl.ConnectAndInit(ctx, v, client.ManagedStreamId); return }); err != nil {
			select {
			case p := <-peerErr:
				if p != "" {
					return "FAIL: " + p
				}
			default:
			}
			return "FAIL: library client could not complete the handshake with a conforming raw server: " + err.Error()
		}
		defer cc.Close()
		recvOne := func(i int, infl client.InFlightRequest) string {
			var back *frame.Frame
			if err := within(T+time.Second, "client Receive", func() (err error) { back, err = cc.Receive(infl); return }); err != nil {
				return fmt.Sprintf("exchange %d: client did not receive the response sent by the raw server: %v", i, err)
			}
			if back == nil {
				return fmt.Sprintf("exchange %d: client Receive returned no frame", i)
			}
			want := resps[i].DeepCopy()
			want.Header.StreamId = infl.StreamId()
			want.Header.BodyLength, want.Header.Flags = back.Header.BodyLength, want.Header.Flags&^1|back.Header.Flags&1
			if d := diffFrames(want, back); d != "" {
				return fmt.Sprintf("exchange %d: response received by the client differs from the one the raw server sent: %s", i, d)
			}
			return ""
		}
		var infls []client.InFlightRequest
		for i, rq := range reqs {
			if spec.Exchanges[i].Compress && spec.Compression != "" {
				rq.SetCompress(true)
			}
			infl, err := cc.Send(rq)
			if err != nil {
				return fmt.Sprintf("FAIL: exchange %d: client Send failed: %v", i, err)
			}
			if !spec.Batch {
				if s := recvOne(i, infl); s != "" {
					select {
					case p := <-peerErr:
						if p != "" {
							return "FAIL: " + p
						}
					default:
					}
					return "FAIL: " + s
				}
			}
			infls = append(infls, infl)
		}
		if spec.Batch {
			for i, infl := range infls {
				if s := recvOne(i, infl); s != "" {
					select {
					case p := <-peerErr:
						if p != "" {
							return "FAIL: " + p
						}
					default:
					}
					return "FAIL: " + s
				}
			}
		}
		select {
		case p := <-peerErr:
			if p != "" {
				return "FAIL: " + p
			}
		case <-time.After(T):
			return "FAIL: raw server did not finish"
		}
		return "OK"

	case "raw-lib":
		srv := client.NewCqlServer("127.0.0.1:0", creds)
		if err := srv.Start(ctx); err != nil {
			return "FAIL: harness: server start: " + err.Error()
		}
		defer srv.Close()
		c, err := net.Dial("tcp", srv.VerifAddr().String())
		if err != nil {
			return "FAIL: harness: dial: " + err.Error()
		}
		defer c.Close()
		l := newRawLink(c)
		l.setDeadline(3 * T)
		var sc *client.CqlServerConnection
		if err := within(T, "AcceptAny", func() (err error) { sc, err = srv.AcceptAny(); return }); err != nil {
			return "FAIL: library server did not accept the raw client: " + err.Error()
		}
		hs := make(chan error, 1)
		go func() { hs <- sc.AcceptHandshake() }()
		if err := l.clientHandshake(byte(v), spec.Compression, "user1", "pass1"); err != nil {
			return "FAIL: raw client handshake with the library server failed: " + err.Error() + " " + strings.Join(l.notes, "; ")
		}
		select {
		case err := <-hs:
			if err != nil {
				return "FAIL: library server handshake failed: " + err.Error()
			}
		case <-time.After(T):
			return "FAIL: library server AcceptHandshake did not return"
		}
		exchange := func(lo, hi int) string {
			var out [][]byte
			for i := lo; i < hi; i++ {
				out = append(out, spec.Exchanges[i].Req)
			}
			ex := spec.Exchanges[lo]
			plan := ex.SplitPlan
			if hi-lo > 1 {
				plan = nil
			}
			if err := l.writeEnvelopes(out, ex.Compress, plan, ex.CompressSg); err != nil {
				return "raw client: write: " + err.Error()
			}
			for i := lo; i < hi; i++ {
				var got *frame.Frame
				if err := within(T, "server Receive", func() (err error) { got, err = sc.Receive(); return }); err != nil {
					return fmt.Sprintf("exchange %d: library server did not deliver the request sent by the raw client: %v", i, err)
				}
				want := reqs[i].DeepCopy()
				want.Header.BodyLength, want.Header.Flags = got.Header.BodyLength, want.Header.Flags&^1|got.Header.Flags&1
				if d := diffFrames(want, got); d != "" {
					return fmt.Sprintf("exchange %d: request delivered by the library server differs from the one the raw client sent: %s", i, d)
				}
			}
			for i := lo; i < hi; i++ {
				rs := resps[i]
				rs.Header.StreamId = reqs[i].Header.StreamId
				sent := rs.DeepCopy()
				if err := sc.Send(rs); err != nil {
					return fmt.Sprintf("exchange %d: server Send failed: %v", i, err)
				}
				e, err := l.readEnvelope()
				if err != nil {
					return fmt.Sprintf("exchange %d: raw client could not read the response: %v", i, err)
				}
				if v == 5 && !e.InSegment {
					return fmt.Sprintf("exchange %d: response arrived outside a segment after the v5 handshake", i)
				}
				if d := matchEnvelope(e, sent, true); d != "" {
					return fmt.Sprintf("response %d as seen on the wire differs from the specification encoding of the frame sent: %s", i, d)
				}
			}
			return ""
		}
		if spec.Batch {
			if s := exchange(0, len(reqs)); s != "" {
				return "FAIL: " + s
			}
		} else {
			for i := range reqs {
				if s := exchange(i, i+1); s != "" {
					return "FAIL: " + s
				}
			}
		}
		if len(l.notes) > 0 {
			return "FAIL: wire conformance: " + strings.Join(l.notes, "; ")
		}
		return "OK"
	}
	return "FAIL: harness: unknown topology"
}

func init() { workerHandlers["c15session"] = c15Session }

// c15Frames draws a request/response pair usable after the handshake.
func c15Pair(rt *rapid.T, v primitive.ProtocolVersion, small bool, label string) (req, resp *frame.Frame) {
	o := gen.DefaultOpts()
	o.TypeDepth = 2
	o.MaxLongString = 70000
	if small {
		o.MaxLongString = 66000
	}
	// envelopes that are nothing but a header (OPTIONS - a driver's heartbeat - and READY have an empty body) are a
	// boundary of every "while bytes remain" loop: drawn on purpose, bare or with generated flags
	bare := rapid.IntRange(0, 7).Draw(rt, label+"/headerOnly")
	for {
		kind, msg := gen.Message(rt, v, o)
		if bare <= 1 {
			kind, msg = kindNamed(v, "OPTIONS"), &message.Options{}
		}
		if kind.Response || kind.Name == "STARTUP" || kind.Name == "AUTH_RESPONSE" {
			continue
		}
		if bare == 0 {
			req = frame.NewFrame(v, 0, msg)
			break
		}
		fc := gen.FrameOf(rt, v, kind, msg, false)
		req = fc.Frame
		break
	}
	for {
		kind, msg := gen.Message(rt, v, o)
		if bare == 2 {
			resp = frame.NewFrame(v, 0, &message.Ready{})
			break
		}
		if !kind.Response || strings.HasPrefix(kind.Name, "EVENT") || kind.Name == "ERROR/ServerError" || kind.Name == "ERROR/ProtocolError" ||
			kind.Name == "ERROR/AuthenticationError" || kind.Name == "READY" || kind.Name == "AUTHENTICATE" {
			continue
		}
		if rr, ok := msg.(*message.RowsResult); ok && rr.Metadata.ContinuousPageNumber > 0 {
			rr.Metadata.LastContinuousPage = true
		}
		fc := gen.FrameOf(rt, v, kind, msg, false)
		resp = fc.Frame
		break
	}
	// positive stream ids (0 = managed); the response carries the request's id
	id := rapid.Int16Range(0, 127).Draw(rt, label+"/stream")
	req.Header.StreamId, resp.Header.StreamId = id, id
	return
}

func kindNamed(v primitive.ProtocolVersion, name string) gen.Kind {
	for _, k := range gen.KindsFor(v) {
		if k.Name == name {
			return k
		}
	}
	panic("no kind " + name)
}

func c15Property(rt *rapid.T) {
	rec := stats.For("C15")
	v := gen.Version(rt)
	comps := []string{"", "LZ4", "SNAPPY"}
	if v == primitive.ProtocolVersion5 {
		comps = []string{"", "LZ4"}
	}
	spec := c15Spec{Topology: rapid.SampledFrom([]string{"lib-lib", "lib-raw", "raw-lib"}).Draw(rt, "topology"), Version: int(v),
		Compression: rapid.SampledFrom(comps).Draw(rt, "compression"), Auth: rapid.Bool().Draw(rt, "auth")}
	n := rapid.IntRange(1, 4).Draw(rt, "exchanges")
	spec.Batch = n > 1 && rapid.Bool().Draw(rt, "batch")
	usedIds := map[int16]bool{}
	managedIds := rapid.Bool().Draw(rt, "managedIds")
	totalLen := 0
	for i := 0; i < n; i++ {
		// the library sends at most one segment per envelope (it has no splitter): keep what IT sends below 128 KiB in v5
		req, resp := c15Pair(rt, v, true, fmt.Sprintf("x%d", i))
		// one id discipline per connection (mixing managed and caller-chosen ids is "not recommended"): all managed, or
		// distinct caller-chosen ids
		if managedIds && spec.Topology != "raw-lib" {
			req.Header.StreamId, resp.Header.StreamId = 0, 0
		} else {
			for req.Header.StreamId == 0 || usedIds[req.Header.StreamId] {
				req.Header.StreamId = req.Header.StreamId%127 + 1
			}
			resp.Header.StreamId = req.Header.StreamId
			usedIds[req.Header.StreamId] = true
		}
		if v == primitive.ProtocolVersion5 && rapid.IntRange(0, 9).Draw(rt, fmt.Sprintf("x%d/maxEnvelope", i)) == 0 {
			// an envelope of exactly 131071 bytes: the largest that fits one segment (the library sends it self-contained)
			q := &message.Query{Query: "q", Options: &message.QueryOptions{Consistency: primitive.ConsistencyLevelOne}}
			big := frame.NewFrame(v, req.Header.StreamId, q)
			probe, err := ref.EncodeFrame(big)
			if err != nil {
				rt.Fatalf("harness defect: %v", err)
			}
			target := rapid.SampledFrom([]int{131071, 131071, 131070}).Draw(rt, fmt.Sprintf("x%d/envelopeBytes", i))
			q.Query = "q" + strings.Repeat("x", target-len(probe.Flat(nil)))
			req = big
		}
		rqe, err := ref.EncodeFrame(req)
		if err != nil {
			rt.Fatalf("harness defect: %v", err)
		}
		rse, err := ref.EncodeFrame(resp)
		if err != nil {
			rt.Fatalf("harness defect: %v", err)
		}
		ex := c15Exchange{Req: rqe.Flat(nil), Resp: rse.Flat(nil), Compress: rapid.Bool().Draw(rt, fmt.Sprintf("x%d/compress", i)), CompressSg: rapid.Bool().Draw(rt, fmt.Sprintf("x%d/compressSeg", i))}
		// envelopes the LIBRARY has to send in v5 must fit one segment
		if v == primitive.ProtocolVersion5 {
			if (spec.Topology != "raw-lib" && len(ex.Req) > 131071) || (spec.Topology != "lib-raw" && len(ex.Resp) > 131071) {
				i--
				continue
			}
		}
		// split plan for what a RAW peer sends in v5: first part at least 9 bytes (whole envelope header)
		rawSends := ex.Resp
		if spec.Topology == "raw-lib" {
			rawSends = ex.Req
		}
		if v == primitive.ProtocolVersion5 && spec.Topology != "lib-lib" && !spec.Batch && len(rawSends) > 9 && rapid.Bool().Draw(rt, fmt.Sprintf("x%d/split", i)) {
			k := rapid.IntRange(1, 4).Draw(rt, fmt.Sprintf("x%d/parts", i))
			remaining := len(rawSends)
			first := rapid.IntRange(9, min(remaining, 131071)).Draw(rt, fmt.Sprintf("x%d/first", i))
			ex.SplitPlan = []int{first}
			remaining -= first
			for p := 1; p < k && remaining > 0; p++ {
				sz := rapid.IntRange(1, min(remaining, 131071)).Draw(rt, fmt.Sprintf("x%d/part%d", i, p))
				ex.SplitPlan = append(ex.SplitPlan, sz)
				remaining -= sz
			}
		}
		// open finding DEP-lz4-offset-wrap-65536: what the LIBRARY compresses with LZ4 can come out undecodable when the
		// input is longer than 64 KiB (the dependency writes match distances >= 65536 modulo 65536). C01/C06/C08 judge
		// that on the exact block; here such exchanges are excluded by construction and counted.
		if spec.Compression == "LZ4" && ((spec.Topology != "raw-lib" && len(ex.Req) > 65536) || (spec.Topology != "lib-raw" && len(ex.Resp) > 65536)) {
			rec.Excluded("DEP-lz4-offset-wrap-65536")
			i--
			continue
		}
		totalLen += len(ex.Req) + len(ex.Resp)
		spec.Exchanges = append(spec.Exchanges, ex)
	}
	sj, _ := json.Marshal(spec)
	verdict := isolated("c15session", []string{string(sj)}, nil)
	verdict = harnessTrouble(verdict)
	desc := func() string {
		var sizes []string
		for _, ex := range spec.Exchanges {
			sizes = append(sizes, fmt.Sprintf("%d/%d split=%v", len(ex.Req), len(ex.Resp), ex.SplitPlan))
		}
		return fmt.Sprintf("topology=%s v=%d compression=%q auth=%v batch=%v exchanges(req/resp bytes)=%v", spec.Topology, spec.Version, spec.Compression, spec.Auth, spec.Batch, sizes)
	}
	switch {
	case strings.HasPrefix(verdict, "FAIL:"):
		rt.Fatalf("%s\n%s", verdict, desc())
	case strings.HasPrefix(verdict, "SKIP:"):
		rec.Case(false, 0, nil, "skipped:"+clipS(verdict))
	default:
		rec.Case(totalLen > 40 && (spec.Compression != "" || v == 5 || spec.Auth), stats.HashString(string(sj)), desc,
			"topology:"+spec.Topology, fmt.Sprintf("version:%d", v), "compression:"+spec.Compression, fmt.Sprintf("auth:%v", spec.Auth), fmt.Sprintf("batch:%v", spec.Batch))
	}
}

func TestC15(t *testing.T) { rapid.Check(t, c15Property) }

func refEncode(f *frame.Frame) ([]byte, error) {
	enc, err := ref.EncodeFrame(f)
	if err != nil {
		return nil, err
	}
	return enc.Flat(nil), nil
}
