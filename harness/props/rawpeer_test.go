//go:build verif

package props

// An independent raw peer for the client/server stub: speaks the wire protocol using only the reference encoders
// (ref.EncodeFrame, ref.Segment, ref.CRC24/CRC32, ref LZ4/Snappy) and plain byte parsing. It records what it sees on the
// wire so that conformance (handshake unframed, segments with valid CRCs, envelopes inside segments not individually
// compressed) can be judged from the peer's point of view.

import (
	"bufio"
	"encoding/binary"
	"errors"
	"fmt"
	"io"
	"net"
	"time"

	"verifharness/ref"
)

type rawEnvelope struct {
	VersionByte byte
	Flags       byte
	Stream      int16
	OpCode      byte
	Body        []byte // uncompressed body
	Wire        []byte // header + body exactly as transmitted (possibly compressed)
	InSegment   bool
}

func (e rawEnvelope) version() byte { return e.VersionByte & 0x7f }

type rawLink struct {
	conn    net.Conn
	br      *bufio.Reader
	modern  bool   // v5 segment framing active
	comp    string // "", "LZ4", "SNAPPY": negotiated compression
	pending []rawEnvelope
	acc     []byte
	notes   []string // conformance problems seen on the wire
	segs    int
}

func newRawLink(c net.Conn) *rawLink { return &rawLink{conn: c, br: bufio.NewReaderSize(c, 1<<16)} }

func (l *rawLink) note(format string, args ...interface{}) {
	l.notes = append(l.notes, fmt.Sprintf(format, args...))
}

func (l *rawLink) setDeadline(d time.Duration) { _ = l.conn.SetDeadline(time.Now().Add(d)) }

// parseEnvelope reads one envelope (legacy frame) from r.
func (l *rawLink) parseEnvelope(r io.Reader, inSegment bool) (rawEnvelope, error) {
	var e rawEnvelope
	first := make([]byte, 1)
	if _, err := io.ReadFull(r, first); err != nil {
		return e, err
	}
	e.VersionByte = first[0]
	hl := 9
	if e.version() == 2 {
		hl = 8
	}
	hdr := make([]byte, hl)
	hdr[0] = first[0]
	if _, err := io.ReadFull(r, hdr[1:]); err != nil {
		return e, fmt.Errorf("truncated envelope header: %w", err)
	}
	e.Flags = hdr[1]
	if hl == 9 {
		e.Stream = int16(binary.BigEndian.Uint16(hdr[2:4]))
		e.OpCode = hdr[4]
	} else {
		e.Stream = int16(int8(hdr[2]))
		e.OpCode = hdr[3]
	}
	n := int(int32(binary.BigEndian.Uint32(hdr[hl-4:])))
	if n < 0 || n > 256<<20 {
		return e, fmt.Errorf("envelope declares body length %d", n)
	}
	body := make([]byte, n)
	if _, err := io.ReadFull(r, body); err != nil {
		return e, fmt.Errorf("truncated envelope body (%d declared): %w", n, err)
	}
	e.Wire = append(hdr, body...)
	e.InSegment = inSegment
	e.Body = body
	if e.Flags&0x01 != 0 {
		if inSegment {
			l.note("envelope inside a segment carries the COMPRESSED flag (opcode %#x): envelopes in v5 segments must not be individually compressed", e.OpCode)
		} else if e.version() == 5 && n > 0 && e.OpCode != 0x02 {
			// v5 2.4.1.2: "In protocol v5 this flag is deprecated and ignored": a conforming v5 peer reads the body as is
			l.note("v5 envelope (opcode %#x) sent with the COMPRESSED flag and an individually compressed body", e.OpCode)
		}
		switch l.comp {
		case "LZ4":
			if len(body) < 4 {
				return e, errors.New("compressed body shorter than its length prefix")
			}
			out, err := ref.LZ4DecodeBlock(body[4:], int(binary.BigEndian.Uint32(body[:4]))+64)
			if err != nil {
				return e, fmt.Errorf("compressed envelope body is not valid LZ4: %w", err)
			}
			if len(out) != int(binary.BigEndian.Uint32(body[:4])) {
				return e, errors.New("LZ4 body length prefix does not match the decompressed length")
			}
			e.Body = out
		case "SNAPPY":
			out, err := ref.SnappyDecodeBlock(body, 1<<28)
			if err != nil {
				return e, fmt.Errorf("compressed envelope body is not valid Snappy: %w", err)
			}
			e.Body = out
		default:
			return e, errors.New("envelope flagged COMPRESSED although no compression was negotiated")
		}
	}
	return e, nil
}

// readSegment reads one v5 segment and returns its uncompressed payload and the self-contained flag.
func (l *rawLink) readSegment() ([]byte, bool, error) {
	lz := l.comp == "LZ4"
	hl := 3
	if lz {
		hl = 5
	}
	hdr := make([]byte, hl+3)
	if _, err := io.ReadFull(l.br, hdr); err != nil {
		return nil, false, err
	}
	l.segs++
	var v uint64
	for i := 0; i < hl; i++ {
		v |= uint64(hdr[i]) << (8 * uint(i))
	}
	crc := uint32(hdr[hl]) | uint32(hdr[hl+1])<<8 | uint32(hdr[hl+2])<<16
	if crc != ref.CRC24(hdr[:hl]) {
		return nil, false, fmt.Errorf("segment header CRC-24 mismatch (header %x): not a valid v5 segment", hdr)
	}
	var plen, ulen int
	var sc bool
	if lz {
		plen = int(v & 0x1FFFF)
		ulen = int(v >> 17 & 0x1FFFF)
		sc = v>>34&1 == 1
	} else {
		plen = int(v & 0x1FFFF)
		sc = v>>17&1 == 1
	}
	payload := make([]byte, plen+4)
	if _, err := io.ReadFull(l.br, payload); err != nil {
		return nil, false, fmt.Errorf("truncated segment payload: %w", err)
	}
	pc := binary.LittleEndian.Uint32(payload[plen:])
	payload = payload[:plen]
	if pc != ref.CRC32(payload) {
		return nil, false, errors.New("segment payload CRC-32 mismatch")
	}
	if lz && ulen != 0 {
		out, err := ref.LZ4DecodeBlock(payload, ulen+64)
		if err != nil || len(out) != ulen {
			return nil, false, fmt.Errorf("segment payload is not a valid LZ4 block of %d bytes: %v", ulen, err)
		}
		payload = out
	}
	return payload, sc, nil
}

// readEnvelope returns the next envelope the peer sent, whatever the framing in force.
func (l *rawLink) readEnvelope() (rawEnvelope, error) {
	for {
		if len(l.pending) > 0 {
			e := l.pending[0]
			l.pending = l.pending[1:]
			return e, nil
		}
		if !l.modern {
			return l.parseEnvelope(l.br, false)
		}
		payload, sc, err := l.readSegment()
		if err != nil {
			return rawEnvelope{}, err
		}
		if sc {
			if len(l.acc) > 0 {
				l.note("self-contained segment arrived while a multi-segment envelope was incomplete")
			}
			r := &sliceReader{b: payload}
			for r.len() > 0 {
				e, err := l.parseEnvelope(r, true)
				if err != nil {
					return rawEnvelope{}, fmt.Errorf("self-contained segment does not hold whole envelopes: %w", err)
				}
				l.pending = append(l.pending, e)
			}
			continue
		}
		l.acc = append(l.acc, payload...)
		if len(l.acc) >= 9 {
			need := 9 + int(int32(binary.BigEndian.Uint32(l.acc[5:9])))
			if len(l.acc) >= need {
				r := &sliceReader{b: l.acc[:need]}
				e, err := l.parseEnvelope(r, true)
				if err != nil {
					return rawEnvelope{}, err
				}
				if len(l.acc) > need {
					l.note("multi-segment envelope followed by %d stray bytes in the same segment sequence", len(l.acc)-need)
				}
				l.acc = nil
				l.pending = append(l.pending, e)
			}
		}
	}
}

type sliceReader struct {
	b []byte
	i int
}

func (s *sliceReader) Read(p []byte) (int, error) {
	if s.i >= len(s.b) {
		return 0, io.EOF
	}
	n := copy(p, s.b[s.i:])
	s.i += n
	return n, nil
}

func (s *sliceReader) len() int { return len(s.b) - s.i }

// compressBody wraps an uncompressed body the way the negotiated compression prescribes (literal-only reference blocks).
func (l *rawLink) compressBody(body []byte) []byte {
	switch l.comp {
	case "LZ4":
		return append(binary.BigEndian.AppendUint32(nil, uint32(len(body))), ref.LZ4EncodeLiteral(body)...)
	case "SNAPPY":
		return ref.SnappyEncodeLiteral(body)
	}
	return body
}

// legacyBytes builds header+body for the wire; compress sets the COMPRESSED flag and compresses the body.
func (l *rawLink) legacyBytes(env []byte, compress bool) []byte {
	hl := 9
	if env[0]&0x7f == 2 {
		hl = 8
	}
	hdr := append([]byte{}, env[:hl]...)
	body := env[hl:]
	if compress && l.comp != "" {
		hdr[1] |= 0x01
		body = l.compressBody(body)
	} else {
		hdr[1] &^= 0x01
	}
	binary.BigEndian.PutUint32(hdr[hl-4:], uint32(len(body)))
	return append(hdr, body...)
}

// writeEnvelopes sends envelopes (uncompressed header+body bytes) using the framing in force. In modern framing,
// plan describes the segmentation: plan == nil -> all envelopes in one self-contained segment when they fit (else one
// each); otherwise the single envelope is split into non-self-contained segments of the given sizes.
func (l *rawLink) writeEnvelopes(envs [][]byte, compressLegacy bool, plan []int, compressSegments bool) error {
	if !l.modern {
		for _, e := range envs {
			if _, err := l.conn.Write(l.legacyBytes(e, compressLegacy)); err != nil {
				return err
			}
		}
		return nil
	}
	seg := func(payload []byte, sc bool) []byte {
		if l.comp == "LZ4" {
			if compressSegments && len(payload) > 0 {
				blk := ref.LZ4EncodeRuns(payload)
				if len(blk) <= 131071 {
					return ref.Segment(true, len(blk), len(payload), sc, blk)
				}
			}
			return ref.Segment(true, len(payload), 0, sc, payload)
		}
		return ref.Segment(false, 0, len(payload), sc, payload)
	}
	write := func(b []byte) error { _, err := l.conn.Write(b); return err }
	splitOne := func(env []byte, plan []int) error { // one envelope over several non-self-contained segments
		off := 0
		for _, n := range plan {
			if off >= len(env) {
				break
			}
			end := min(off+n, len(env))
			if err := write(seg(env[off:end], false)); err != nil {
				return err
			}
			off = end
		}
		for off < len(env) {
			end := min(off+131071, len(env))
			if err := write(seg(env[off:end], false)); err != nil {
				return err
			}
			off = end
		}
		return nil
	}
	var group []byte
	flush := func() error {
		if len(group) == 0 {
			return nil
		}
		err := write(seg(group, true))
		group = nil
		return err
	}
	for _, e := range envs {
		c := append([]byte{}, e...) // envelopes inside segments are never individually compressed
		c[1] &^= 0x01
		if len(envs) == 1 && plan != nil {
			return splitOne(c, plan)
		}
		if len(c) > 131071 {
			if err := flush(); err != nil {
				return err
			}
			if err := splitOne(c, nil); err != nil {
				return err
			}
			continue
		}
		if len(group)+len(c) > 131071 {
			if err := flush(); err != nil {
				return err
			}
		}
		group = append(group, c...)
	}
	return flush()
}

// parseStringMap reads a [string map] (STARTUP body).
func parseStringMap(b []byte) (map[string]string, error) {
	m := map[string]string{}
	if len(b) < 2 {
		return nil, errors.New("short string map")
	}
	n := int(binary.BigEndian.Uint16(b))
	b = b[2:]
	str := func() (string, error) {
		if len(b) < 2 {
			return "", errors.New("short string")
		}
		l := int(binary.BigEndian.Uint16(b))
		if len(b) < 2+l {
			return "", errors.New("short string")
		}
		s := string(b[2 : 2+l])
		b = b[2+l:]
		return s, nil
	}
	for i := 0; i < n; i++ {
		k, err := str()
		if err != nil {
			return nil, err
		}
		v, err := str()
		if err != nil {
			return nil, err
		}
		m[k] = v
	}
	return m, nil
}

// rawHeader builds an envelope header + body for simple handshake messages.
func rawEnvelopeBytes(version byte, response bool, stream int16, opcode byte, body []byte) []byte {
	vb := version
	if response {
		vb |= 0x80
	}
	var out []byte
	if version == 2 {
		out = []byte{vb, 0, byte(int8(stream)), opcode}
	} else {
		out = []byte{vb, 0, byte(uint16(stream) >> 8), byte(stream), opcode}
	}
	out = binary.BigEndian.AppendUint32(out, uint32(len(body)))
	return append(out, body...)
}

func rawString(s string) []byte {
	return append([]byte{byte(len(s) >> 8), byte(len(s))}, s...)
}

// serverHandshake plays the server side of the handshake on a raw link. Returns the negotiated version.
func (l *rawLink) serverHandshake(auth bool) (byte, error) {
	for {
		e, err := l.readEnvelope()
		if err != nil {
			return 0, fmt.Errorf("handshake: %w", err)
		}
		if e.InSegment {
			l.note("handshake message (opcode %#x) arrived inside a segment: the handshake must be unframed", e.OpCode)
		}
		switch e.OpCode {
		case 0x05: // OPTIONS -> SUPPORTED (empty multimap)
			if err := l.writeEnvelopes([][]byte{rawEnvelopeBytes(e.version(), true, e.Stream, 0x06, []byte{0, 0})}, false, nil, false); err != nil {
				return 0, err
			}
		case 0x01: // STARTUP
			if e.Flags&0x01 != 0 {
				l.note("STARTUP was sent compressed")
			}
			opts, err := parseStringMap(e.Body)
			if err != nil {
				return 0, fmt.Errorf("STARTUP body: %w", err)
			}
			if opts["CQL_VERSION"] == "" {
				l.note("STARTUP without CQL_VERSION")
			}
			comp := opts["COMPRESSION"]
			if !auth {
				if err := l.writeEnvelopes([][]byte{rawEnvelopeBytes(e.version(), true, e.Stream, 0x02, nil)}, false, nil, false); err != nil {
					return 0, err
				}
				l.comp = comp
				l.modern = e.version() == 5
				return e.version(), nil
			}
			if err := l.writeEnvelopes([][]byte{rawEnvelopeBytes(e.version(), true, e.Stream, 0x03, rawString("org.apache.cassandra.auth.PasswordAuthenticator"))}, false, nil, false); err != nil {
				return 0, err
			}
			l.comp = comp
			l.modern = e.version() == 5
			a, err := l.readEnvelope()
			if err != nil {
				return 0, fmt.Errorf("handshake: waiting for AUTH_RESPONSE: %w", err)
			}
			if a.OpCode != 0x0F {
				return 0, fmt.Errorf("handshake: expected AUTH_RESPONSE, got opcode %#x", a.OpCode)
			}
			if l.modern && !a.InSegment {
				l.note("AUTH_RESPONSE after AUTHENTICATE was not sent inside a segment (v5 framing starts after AUTHENTICATE)")
			}
			if err := l.writeEnvelopes([][]byte{rawEnvelopeBytes(e.version(), true, a.Stream, 0x10, []byte{0xff, 0xff, 0xff, 0xff})}, false, nil, false); err != nil {
				return 0, err
			}
			return e.version(), nil
		default:
			return 0, fmt.Errorf("handshake: unexpected opcode %#x", e.OpCode)
		}
	}
}

// clientHandshake plays the client side on a raw link.
func (l *rawLink) clientHandshake(version byte, comp string, user, pass string) error {
	body := []byte{0, 1}
	body = append(body, rawString("CQL_VERSION")...)
	body = append(body, rawString("3.0.0")...)
	if comp != "" {
		body[1] = 2
		body = append(body, rawString("COMPRESSION")...)
		body = append(body, rawString(comp)...)
	}
	if err := l.writeEnvelopes([][]byte{rawEnvelopeBytes(version, false, 1, 0x01, body)}, false, nil, false); err != nil {
		return err
	}
	l.comp = comp // "once the STARTUP frame has been received by the server, messages can be compressed (including the response)"
	e, err := l.readEnvelope()
	if err != nil {
		return fmt.Errorf("handshake: waiting for the STARTUP response: %w", err)
	}
	if e.InSegment {
		l.note("the response to STARTUP arrived inside a segment: it must be unframed")
	}
	l.modern = version == 5
	switch e.OpCode {
	case 0x02:
		return nil
	case 0x03:
		tok := append([]byte{0}, user...)
		tok = append(tok, 0)
		tok = append(tok, pass...)
		ab := binary.BigEndian.AppendUint32(nil, uint32(len(tok)))
		ab = append(ab, tok...)
		if err := l.writeEnvelopes([][]byte{rawEnvelopeBytes(version, false, 1, 0x0F, ab)}, false, nil, false); err != nil {
			return err
		}
		s, err := l.readEnvelope()
		if err != nil {
			return fmt.Errorf("handshake: waiting for AUTH_SUCCESS: %w", err)
		}
		if s.OpCode != 0x10 {
			return fmt.Errorf("handshake: expected AUTH_SUCCESS, got opcode %#x", s.OpCode)
		}
		if l.modern && !s.InSegment {
			l.note("AUTH_SUCCESS was not sent inside a segment (v5 framing starts after AUTHENTICATE)")
		}
		return nil
	}
	return fmt.Errorf("handshake: unexpected opcode %#x in response to STARTUP", e.OpCode)
}
