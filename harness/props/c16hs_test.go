//go:build verif

package props

// C16, faults in the middle of the handshake ("at any moment" includes before the connection is ready):
//   - server side: a library server connection blocked in AcceptHandshake while a raw client peer has sent nothing, has
//     only exchanged OPTIONS/SUPPORTED, or (with authentication) has sent STARTUP and received AUTHENTICATE;
//   - client side: a library client blocked in InitiateHandshake while a raw server peer has read STARTUP and stays
//     silent, or (with authentication) has sent AUTHENTICATE, read AUTH_RESPONSE and stays silent.
// Fault: the raw peer drops the TCP connection (FIN or RST), the blocked side's own connection is closed, the server is
// closed, or the client's context is cancelled. Obligations: the blocked handshake call returns with a non-nil error,
// Close returns, no goroutine of the client package survives, nothing panics. Worker-isolated.

import (
	"context"
	"encoding/json"
	"fmt"
	"github.com/datastax/go-cassandra-native-protocol/frame"
	"github.com/datastax/go-cassandra-native-protocol/message"
	"net"
	"strings"
	"testing"
	"time"

	"github.com/datastax/go-cassandra-native-protocol/client"
	"github.com/datastax/go-cassandra-native-protocol/primitive"
	"pgregory.net/rapid"

	"verifharness/stats"
)

type c16hsSpec struct {
	Version  int
	Side     string // "server" | "client": which library side is blocked in its handshake call
	Auth     bool
	Progress int    // how far the raw peer went before the fault (see above)
	Fault    string // "peer-fin" | "peer-rst" | "own-close" | "server-close" | "ctx-cancel"
}

func c16hsSession(args []string, _ []byte) string {
	var spec c16hsSpec
	if err := json.Unmarshal([]byte(args[0]), &spec); err != nil {
		return "FAIL: harness: " + err.Error()
	}
	v := primitive.ProtocolVersion(spec.Version)
	const T = 10 * time.Second
	base, _ := clientGoroutines()
	ctx, cancel := context.WithCancel(context.Background())
	defer cancel()
	var creds *client.AuthCredentials
	if spec.Auth {
		creds = &client.AuthCredentials{Username: "user1", Password: "pass1"}
	}
	dropPeer := func(c net.Conn) {
		if tc, ok := c.(*net.TCPConn); ok && spec.Fault == "peer-rst" {
			_ = tc.SetLinger(0)
		}
		_ = c.Close()
	}
	hs := make(chan error, 1)
	var closers []func() error
	what := ""

	if spec.Side == "server" {
		srv := client.NewCqlServer("127.0.0.1:0", creds)
		if err := srv.Start(ctx); err != nil {
			return "FAIL: harness: server start: " + err.Error()
		}
		c, err := net.Dial("tcp", srv.VerifAddr().String())
		if err != nil {
			_ = srv.Close()
			return "FAIL: harness: dial: " + err.Error()
		}
		l := newRawLink(c)
		l.setDeadline(3 * T)
		var sc *client.CqlServerConnection
		if err := within(T, "AcceptAny", func() (err error) { sc, err = srv.AcceptAny(); return }); err != nil {
			return "FAIL: library server did not accept the raw client: " + err.Error()
		}
		go func() { hs <- sc.AcceptHandshake() }()
		what = "AcceptHandshake"
		// partial handshake by the raw client
		if spec.Progress >= 1 {
			if err := l.writeEnvelopes([][]byte{rawEnvelopeBytes(byte(v), false, 1, 0x05, nil)}, false, nil, false); err != nil {
				return "SKIP: raw client could not send OPTIONS: " + err.Error()
			}
			if e, err := l.readEnvelope(); err != nil || e.OpCode != 0x06 {
				return fmt.Sprintf("FAIL: raw client expected SUPPORTED in answer to OPTIONS, got opcode %#x, %v", e.OpCode, err)
			}
		}
		if spec.Progress >= 2 && spec.Auth {
			body := append([]byte{0, 1}, rawString("CQL_VERSION")...)
			body = append(body, rawString("3.0.0")...)
			if err := l.writeEnvelopes([][]byte{rawEnvelopeBytes(byte(v), false, 2, 0x01, body)}, false, nil, false); err != nil {
				return "SKIP: raw client could not send STARTUP: " + err.Error()
			}
			if e, err := l.readEnvelope(); err != nil || e.OpCode != 0x03 {
				return fmt.Sprintf("FAIL: raw client expected AUTHENTICATE in answer to STARTUP, got opcode %#x, %v", e.OpCode, err)
			}
		}
		select {
		case err := <-hs:
			return fmt.Sprintf("FAIL: AcceptHandshake returned (%v) although the client has not completed the handshake", err)
		case <-time.After(5 * time.Millisecond):
		}
		switch spec.Fault {
		case "peer-fin", "peer-rst":
			dropPeer(c)
		case "own-close":
			if err := within(T, "server connection Close", func() error { _ = sc.Close(); return nil }); err != nil {
				return "FAIL: " + err.Error()
			}
		case "server-close":
			if err := within(T, "server Close", func() error { _ = srv.Close(); return nil }); err != nil {
				return "FAIL: " + err.Error()
			}
		default: // ctx-cancel: the server's context
			cancel()
		}
		closers = append(closers, sc.Close, srv.Close, c.Close)
	} else {
		ln, err := net.Listen("tcp", "127.0.0.1:0")
		if err != nil {
			return "FAIL: harness: " + err.Error()
		}
		defer ln.Close()
		cl := client.NewCqlClient(ln.Addr().String(), creds)
		cl.ReadTimeout = 3 * T
		acc := make(chan net.Conn, 1)
		go func() { c, _ := ln.Accept(); acc <- c }()
		var cc *client.CqlClientConnection
		if err := within(T, "Connect", func() (err error) { cc, err = cl.Connect(ctx); return }); err != nil {
			return "FAIL: connect: " + err.Error()
		}
		var c net.Conn
		select {
		case c = <-acc:
		case <-time.After(T):
			return "FAIL: harness: raw accept timed out"
		}
		if c == nil {
			return "FAIL: harness: raw accept failed"
		}
		l := newRawLink(c)
		l.setDeadline(3 * T)
		go func() { hs <- cc.InitiateHandshake(v, client.ManagedStreamId) }()
		what = "InitiateHandshake"
		e, err := l.readEnvelope()
		if err != nil || e.OpCode != 0x01 {
			return fmt.Sprintf("FAIL: raw server expected STARTUP, got opcode %#x, %v", e.OpCode, err)
		}
		if spec.Progress >= 1 && spec.Auth {
			if err := l.writeEnvelopes([][]byte{rawEnvelopeBytes(e.version(), true, e.Stream, 0x03, rawString("org.apache.cassandra.auth.PasswordAuthenticator"))}, false, nil, false); err != nil {
				return "SKIP: raw server could not send AUTHENTICATE: " + err.Error()
			}
			l.modern = e.version() == 5
			if a, err := l.readEnvelope(); err != nil || a.OpCode != 0x0F {
				return fmt.Sprintf("FAIL: raw server expected AUTH_RESPONSE, got opcode %#x, %v", a.OpCode, err)
			}
		}
		select {
		case err := <-hs:
			return fmt.Sprintf("FAIL: InitiateHandshake returned (%v) although the server has not answered", err)
		case <-time.After(5 * time.Millisecond):
		}
		switch spec.Fault {
		case "peer-fin", "peer-rst", "server-close":
			dropPeer(c)
		case "own-close":
			if err := within(T, "client connection Close", func() error { _ = cc.Close(); return nil }); err != nil {
				return "FAIL: " + err.Error()
			}
		default:
			cancel()
		}
		closers = append(closers, cc.Close, c.Close)
	}
	select {
	case err := <-hs:
		if err == nil {
			return fmt.Sprintf("FAIL: %s returned no error after %s in the middle of the handshake", what, spec.Fault)
		}
	case <-time.After(T):
		return fmt.Sprintf("FAIL: %s did not return within %v after %s in the middle of the handshake (progress %d, auth %v)", what, T, spec.Fault, spec.Progress, spec.Auth)
	}
	for _, cl := range closers {
		cl := cl
		if err := within(T, "Close after "+spec.Fault, func() error { _ = cl(); return nil }); err != nil {
			return "FAIL: " + err.Error()
		}
	}
	cancel()
	deadline := time.Now().Add(T)
	var left int
	var sample string
	for {
		left, sample = clientGoroutines()
		if left <= base || time.Now().After(deadline) {
			break
		}
		time.Sleep(10 * time.Millisecond)
	}
	if left > base {
		return fmt.Sprintf("FAIL: %d goroutine(s) of the client package still alive after %s in the middle of the handshake and Close, e.g.\n%s", left-base, spec.Fault, clipS400(sample))
	}
	return "OK"
}

func init() { workerHandlers["c16hs"] = c16hsSession }

func c16Handshake(rt *rapid.T) {
	if !everyNth("c16Handshake", 1, 4) {
		return
	}
	defer noteFailure()
	rec := stats.For("C16")
	spec := c16hsSpec{Version: int(rapid.SampledFrom(allVersions).Draw(rt, "version")), Side: rapid.SampledFrom([]string{"server", "client"}).Draw(rt, "side"),
		Auth: rapid.Bool().Draw(rt, "auth"), Progress: rapid.IntRange(0, 2).Draw(rt, "progress")}
	faults := []string{"peer-fin", "peer-rst", "own-close", "ctx-cancel"}
	if spec.Side == "server" {
		faults = append(faults, "server-close")
	}
	spec.Fault = rapid.SampledFrom(faults).Draw(rt, "fault")
	sj, _ := json.Marshal(spec)
	verdict := isolated("c16hs", []string{string(sj)}, nil)
	verdict = harnessTrouble(verdict)
	if strings.HasPrefix(verdict, "FAIL:") {
		rt.Fatalf("%s\nspec %s", verdict, sj)
	}
	if strings.HasPrefix(verdict, "SKIP:") {
		rec.Case(false, 0, nil, "skipped:handshake")
		return
	}
	rec.Case(true, stats.HashString("hs/"+string(sj)), func() string { return "mid-handshake fault: " + string(sj) }, "handshake-fault", "handshake-fault:"+spec.Side+"/"+spec.Fault)
}

func TestC16Handshake(t *testing.T) { rapid.Check(t, c16Handshake) }

// Two more moments "at which the server or a connection may be closed":
//   - PerformHandshake (the helper that runs both sides) returns as soon as ONE side fails - wrong credentials, or a fault
//     while it runs; the goroutine it started for the other side must not stay behind;
//   - a server is closed while an Accept is pending for a client it has not (or never will have) accepted.
type c16hs2Spec struct {
	Version  int
	Scenario string // "perform-wrong-credentials" | "perform-fault" | "accept-pending"
	Fault    string // perform-fault: "client-close" | "server-conn-close" | "ctx-cancel" | "server-close"
	DelayUs  int
}

func c16hs2Session(args []string, _ []byte) string {
	var spec c16hs2Spec
	if err := json.Unmarshal([]byte(args[0]), &spec); err != nil {
		return "FAIL: harness: " + err.Error()
	}
	v := primitive.ProtocolVersion(spec.Version)
	const T = 10 * time.Second
	base, _ := clientGoroutines()
	ctx, cancel := context.WithCancel(context.Background())
	defer cancel()
	srvCreds := &client.AuthCredentials{Username: "user1", Password: "pass1"}
	srv := client.NewCqlServer("127.0.0.1:0", srvCreds)
	if err := srv.Start(context.Background()); err != nil {
		return "FAIL: harness: server start: " + err.Error()
	}
	var closers []func() error
	switch spec.Scenario {
	case "handler-inflight":
		// a request handler (plain or raw) is still running when the connection goes away; the response it then produces
		// cannot be sent. Everything must still close.
		_ = srv.Close()
		started, release := make(chan struct{}, 4), make(chan struct{})
		hsrv := client.NewCqlServer("127.0.0.1:0", nil)
		plain := func(request *frame.Frame, conn *client.CqlServerConnection, _ client.RequestHandlerContext) *frame.Frame {
			if _, ok := request.Body.Message.(*message.Query); !ok {
				return nil
			}
			started <- struct{}{}
			<-release
			return frame.NewFrame(request.Header.Version, request.Header.StreamId, &message.VoidResult{})
		}
		if spec.Fault == "raw-handler" || spec.DelayUs%2 == 1 {
			hsrv.RequestRawHandlers = []client.RawRequestHandler{func(request *frame.Frame, conn *client.CqlServerConnection, ctx client.RequestHandlerContext) []byte {
				f := plain(request, conn, ctx)
				if f == nil {
					return nil
				}
				enc, _ := refEncode(f)
				return enc
			}}
		} else {
			hsrv.RequestHandlers = []client.RequestHandler{plain}
		}
		if err := hsrv.Start(context.Background()); err != nil {
			return "FAIL: harness: server start: " + err.Error()
		}
		cl := client.NewCqlClient(hsrv.VerifAddr().String(), nil)
		cl.ReadTimeout = 3 * T
		var cc *client.CqlClientConnection
		var sc *client.CqlServerConnection
		if err := within(T, "BindAndInit", func() (err error) { cc, sc, err = hsrv.BindAndInit(cl, ctx, v, client.ManagedStreamId); return }); err != nil {
			return "FAIL: harness: bind: " + err.Error()
		}
		if _, err := cc.Send(frame.NewFrame(v, client.ManagedStreamId, &message.Query{Query: "slow"})); err != nil {
			return "FAIL: harness: send: " + err.Error()
		}
		select {
		case <-started:
		case <-time.After(T):
			return "FAIL: harness: the request handler was not invoked"
		}
		closed := make(chan struct{})
		go func() {
			defer close(closed)
			switch spec.DelayUs % 3 {
			case 0:
				_ = sc.Close()
			case 1:
				_ = cc.Close()
				_ = sc.Close()
			default:
				_ = hsrv.Close()
			}
		}()
		time.Sleep(20 * time.Millisecond) // let the close get as far as it can while the handler is still running
		close(release)
		select {
		case <-closed:
		case <-time.After(T):
			return fmt.Sprintf("FAIL: Close did not return within %v with a request handler still running when it was called (variant %d)", T, spec.DelayUs%3)
		}
		closers = append(closers, cc.Close, sc.Close, hsrv.Close)
	case "accept-pending":
		// the client is connected to ANOTHER server; this one is asked to accept it and closed while that is pending
		other := client.NewCqlServer("127.0.0.1:0", nil)
		if err := other.Start(context.Background()); err != nil {
			return "FAIL: harness: server start: " + err.Error()
		}
		cl := client.NewCqlClient(other.VerifAddr().String(), nil)
		var cc *client.CqlClientConnection
		if err := within(T, "Connect", func() (err error) { cc, err = cl.Connect(ctx); return }); err != nil {
			return "FAIL: harness: connect: " + err.Error()
		}
		srv.AcceptTimeout = 300 * time.Millisecond
		acc := make(chan error, 1)
		go func() { _, err := srv.Accept(cc); acc <- err }()
		time.Sleep(time.Duration(spec.DelayUs) * time.Microsecond)
		if err := within(T, "server Close with an Accept pending", func() error { return srv.Close() }); err != nil {
			return "FAIL: " + err.Error()
		}
		select {
		case <-acc:
		case <-time.After(T):
			return "FAIL: Accept did not return after the server was closed"
		}
		closers = append(closers, cc.Close, other.Close)
	default:
		creds := srvCreds
		if spec.Scenario == "perform-wrong-credentials" {
			creds = &client.AuthCredentials{Username: "user1", Password: "wrong"}
		}
		cl := client.NewCqlClient(srv.VerifAddr().String(), creds)
		cl.ReadTimeout = 3 * T
		var cc *client.CqlClientConnection
		var sc *client.CqlServerConnection
		if err := within(T, "Bind", func() (err error) { cc, sc, err = srv.Bind(cl, ctx); return }); err != nil {
			return "FAIL: harness: bind: " + err.Error()
		}
		done := make(chan error, 1)
		go func() { done <- client.PerformHandshake(cc, sc, v, client.ManagedStreamId) }()
		if spec.Scenario == "perform-fault" {
			time.Sleep(time.Duration(spec.DelayUs) * time.Microsecond)
			switch spec.Fault {
			case "client-close":
				_ = cc.Close()
			case "server-conn-close":
				_ = sc.Close()
			case "server-close":
				_ = srv.Close()
			default:
				cancel()
			}
		}
		select {
		case err := <-done:
			if spec.Scenario == "perform-wrong-credentials" && err == nil {
				return "FAIL: PerformHandshake succeeded with a wrong password"
			}
		case <-time.After(T):
			return fmt.Sprintf("FAIL: PerformHandshake did not return within %v (%s %s)", T, spec.Scenario, spec.Fault)
		}
		closers = append(closers, cc.Close, sc.Close, srv.Close)
	}
	for _, cl := range closers {
		cl := cl
		if err := within(T, "Close", func() error { _ = cl(); return nil }); err != nil {
			return "FAIL: " + err.Error()
		}
	}
	cancel()
	deadline := time.Now().Add(T)
	var left int
	var sample string
	for {
		left, sample = clientGoroutines()
		if left <= base || time.Now().After(deadline) {
			break
		}
		time.Sleep(10 * time.Millisecond)
	}
	if left > base {
		return fmt.Sprintf("FAIL: %d goroutine(s) of the client package still alive after %s %s and Close of everything, e.g.\n%s", left-base, spec.Scenario, spec.Fault, clipS400(sample))
	}
	return "OK"
}

func init() { workerHandlers["c16hs2"] = c16hs2Session }

func c16Handshake2(rt *rapid.T) {
	if !everyNth("c16Handshake2", 1, 4) {
		return
	}
	defer noteFailure()
	rec := stats.For("C16")
	spec := c16hs2Spec{Version: int(rapid.SampledFrom(allVersions).Draw(rt, "version")),
		Scenario: rapid.SampledFrom([]string{"perform-wrong-credentials", "perform-fault", "perform-fault", "accept-pending", "handler-inflight", "handler-inflight"}).Draw(rt, "scenario"),
		DelayUs:  rapid.SampledFrom([]int{0, 50, 300, 1000, 3000, 20000}).Draw(rt, "delayUs")}
	if spec.Scenario == "perform-fault" {
		spec.Fault = rapid.SampledFrom([]string{"client-close", "server-conn-close", "ctx-cancel", "server-close"}).Draw(rt, "fault")
	}
	sj, _ := json.Marshal(spec)
	verdict := isolated("c16hs2", []string{string(sj)}, nil)
	verdict = harnessTrouble(verdict)
	if strings.HasPrefix(verdict, "FAIL:") {
		rt.Fatalf("%s\nspec %s", verdict, sj)
	}
	if strings.HasPrefix(verdict, "SKIP:") {
		rec.Case(false, 0, nil, "skipped:handshake2")
		return
	}
	rec.Case(true, stats.HashString("hs2/"+string(sj)), func() string { return "handshake helper / pending accept: " + string(sj) }, "handshake-helper", "handshake-helper:"+spec.Scenario)
}

func TestC16PerformHandshake(t *testing.T) { rapid.Check(t, c16Handshake2) }
