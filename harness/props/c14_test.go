package props

// C14: NULL is preserved and distinguishable in CQL value codecs.
// Enumerated: every scalar codec x every accepted nil-able Go source (untyped nil, nil pointer of every accepted pointer
// type, nil slice) for encode; every scalar codec x every accepted destination type pre-filled with a non-zero value for
// decoding a NULL. Generated (rapid): nested types with a null forced at some element/field position (round trip from
// v3, refusal in v2 collections), nil collection/map/struct-pointer sources, null into composite destinations.

import (
	"fmt"
	"math/big"
	"net"
	"reflect"
	"testing"
	"time"

	"github.com/datastax/go-cassandra-native-protocol/datacodec"
	"github.com/datastax/go-cassandra-native-protocol/datatype"
	"github.com/datastax/go-cassandra-native-protocol/primitive"
	"pgregory.net/rapid"

	"verifharness/gen"
	"verifharness/stats"
)

var c14Scalars = []datatype.DataType{datatype.Ascii, datatype.Bigint, datatype.Blob, datatype.Boolean, datatype.Counter, datatype.Decimal,
	datatype.Double, datatype.Float, datatype.Int, datatype.Timestamp, datatype.Uuid, datatype.Varchar, datatype.Varint, datatype.Timeuuid,
	datatype.Inet, datatype.Date, datatype.Time, datatype.Smallint, datatype.Tinyint, datatype.Duration, datatype.NewCustom("x.Y")}

// repKindType returns the Go base type for a scalar representation kind.
func repKindType(kind string) reflect.Type { return (&gen.Rep{Kind: kind, ArrLen: -1}).BaseType() }

// nonZero returns a non-zero value of type t to pre-fill a destination.
func nonZero(t reflect.Type) reflect.Value {
	v := reflect.New(t).Elem()
	switch t.Kind() {
	case reflect.Int, reflect.Int8, reflect.Int16, reflect.Int32, reflect.Int64:
		v.SetInt(7)
	case reflect.Uint, reflect.Uint8, reflect.Uint16, reflect.Uint32, reflect.Uint64:
		v.SetUint(7)
	case reflect.Float32, reflect.Float64:
		v.SetFloat(1.5)
	case reflect.Bool:
		v.SetBool(true)
	case reflect.String:
		v.SetString("prefilled")
	case reflect.Slice:
		s := reflect.MakeSlice(t, 2, 2)
		for i := 0; i < 2; i++ {
			s.Index(i).Set(nonZero(t.Elem()))
		}
		v.Set(s)
	case reflect.Array:
		for i := 0; i < t.Len(); i++ {
			v.Index(i).Set(nonZero(t.Elem()))
		}
	case reflect.Map:
		m := reflect.MakeMap(t)
		if t.Key().Comparable() && t.Key().Kind() != reflect.Interface {
			m.SetMapIndex(nonZero(t.Key()), nonZero(t.Elem()))
		}
		v.Set(m)
	case reflect.Ptr:
		p := reflect.New(t.Elem())
		p.Elem().Set(nonZero(t.Elem()))
		v.Set(p)
	case reflect.Interface:
		v.Set(reflect.ValueOf("prefilled"))
	case reflect.Struct:
		switch t {
		case reflect.TypeOf(time.Time{}):
			v.Set(reflect.ValueOf(time.Unix(1234567, 0).UTC()))
		case reflect.TypeOf(big.Int{}):
			v.Set(reflect.ValueOf(*big.NewInt(99)))
		case reflect.TypeOf(big.Float{}):
			v.Set(reflect.ValueOf(*big.NewFloat(9.5)))
		case reflect.TypeOf(datacodec.CqlDecimal{}):
			v.Set(reflect.ValueOf(datacodec.CqlDecimal{Unscaled: big.NewInt(5), Scale: 2}))
		default:
			for i := 0; i < t.NumField(); i++ {
				if v.Field(i).CanSet() {
					v.Field(i).Set(nonZero(t.Field(i).Type))
				}
			}
		}
	}
	return v
}

func isZeroValue(v reflect.Value) bool {
	switch x := v.Interface().(type) {
	case big.Int:
		return x.Sign() == 0
	case big.Float:
		return x.Sign() == 0
	}
	return reflect.DeepEqual(v.Interface(), reflect.Zero(v.Type()).Interface())
}

func TestC14Scalars(t *testing.T) {
	rec := stats.For("C14")
	if k, _ := shard(); k != 0 {
		return
	}
	var n int64
	fail := func(kind, msg string) {
		rec.Violation(kind, msg)
		t.Errorf("%s", msg)
	}
	for _, dt := range c14Scalars {
		codec, err := datacodec.NewCodec(dt)
		if err != nil {
			t.Fatalf("NewCodec(%s): %v", dt.AsCql(), err)
		}
		kinds := gen.ScalarRepKinds(dt.Code())
		for _, v := range []primitive.ProtocolVersion{2, 3, 4, 5, 65, 66} {
			// --- encode: untyped nil
			sources := []interface{}{nil}
			for _, k := range kinds {
				bt := repKindType(k)
				sources = append(sources, reflect.Zero(reflect.PtrTo(bt)).Interface()) // nil pointer of the accepted type
				if bt.Kind() == reflect.Slice {
					sources = append(sources, reflect.Zero(bt).Interface()) // nil slice of the accepted type
					pn := reflect.New(bt)                                   // pointer to a nil slice
					sources = append(sources, pn.Interface())
				}
			}
			for _, src := range sources {
				var enc []byte
				var eerr error
				if msg := recovered(func() { enc, eerr = codec.Encode(src, v) }); msg != "" {
					fail("encode-nil-panic", fmt.Sprintf("%s.Encode(%T nil) v%d %s", dt.AsCql(), src, v, msg))
					continue
				}
				if eerr != nil || enc != nil {
					fail("encode-nil", fmt.Sprintf("%s.Encode(nil %T) v%d = (%x, %v); a nil of an accepted type must encode to NULL (nil, nil)", dt.AsCql(), src, v, enc, eerr))
				}
				n++
			}
			// --- decode NULL into every accepted destination, pre-filled
			dests := []reflect.Type{reflect.TypeOf((*interface{})(nil)).Elem()}
			for _, k := range kinds {
				dests = append(dests, repKindType(k))
			}
			for _, dtp := range dests {
				if dtp == reflect.TypeOf([16]byte{}) && false {
					continue
				}
				dest := reflect.New(dtp)
				dest.Elem().Set(nonZero(dtp))
				var wasNull bool
				var derr error
				if msg := recovered(func() { wasNull, derr = codec.Decode(nil, dest.Interface(), v) }); msg != "" {
					fail("decode-null-panic", fmt.Sprintf("%s.Decode(NULL) into %v v%d %s", dt.AsCql(), dest.Type(), v, msg))
					continue
				}
				if derr != nil || !wasNull {
					fail("decode-null", fmt.Sprintf("%s.Decode(NULL) into %v v%d: wasNull=%v err=%v; want wasNull=true, no error", dt.AsCql(), dest.Type(), v, wasNull, derr))
				} else if !isZeroValue(dest.Elem()) {
					fail("decode-null-not-zeroed", fmt.Sprintf("%s.Decode(NULL) into pre-filled %v v%d left %v in the destination; want the zero value", dt.AsCql(), dest.Type(), v, dest.Elem().Interface()))
				}
				n++
			}
		}
	}
	rec.Bulk(n, n, "scalar-nil-enumeration")
	rec.Exhaustive("scalar codecs x accepted nil sources / destinations x versions", n)
	rec.AddSample("e.g. uuid.Encode([]byte(nil)) must be (nil,nil); bigint.Decode(NULL) into a pre-filled *big.Int must zero it and report wasNull")
}

// forceNull returns av with one element/field position (chosen by the drawn path) replaced by NULL, if a nillable
// position exists; ok tells whether one was placed.
func forceNull(rt *rapid.T, dt datatype.DataType, rep *gen.Rep, av gen.AV, label string) (gen.AV, bool) {
	if av.Null {
		return av, false
	}
	type child struct {
		dt  datatype.DataType
		rep *gen.Rep
		av  *gen.AV
	}
	var kids []child
	out := av
	out.Elems = append([]gen.AV{}, av.Elems...)
	out.Keys = append([]gen.AV{}, av.Keys...)
	fieldRep := func(i int) *gen.Rep {
		if rep.Fields != nil {
			return rep.Fields[i]
		}
		return rep.Elem
	}
	switch x := dt.(type) {
	case *datatype.List:
		for i := range out.Elems {
			kids = append(kids, child{x.ElementType, rep.Elem, &out.Elems[i]})
		}
	case *datatype.Set:
		for i := range out.Elems {
			kids = append(kids, child{x.ElementType, rep.Elem, &out.Elems[i]})
		}
	case *datatype.Map:
		for i := range out.Elems {
			kids = append(kids, child{x.ValueType, rep.Elem, &out.Elems[i]})
		}
	case *datatype.Tuple:
		for i := range out.Elems {
			kids = append(kids, child{x.FieldTypes[i], fieldRep(i), &out.Elems[i]})
		}
	case *datatype.UserDefined:
		for i := range out.Elems {
			kids = append(kids, child{x.FieldTypes[i], fieldRep(i), &out.Elems[i]})
		}
	}
	if len(kids) == 0 {
		return av, false
	}
	k := kids[rapid.IntRange(0, len(kids)-1).Draw(rt, label+"/pos")]
	if k.rep.Nillable() && (!isComposite(k.dt) || rapid.Bool().Draw(rt, label+"/here")) {
		*k.av = gen.NullAV()
		return out, true
	}
	sub, ok := forceNull(rt, k.dt, k.rep, *k.av, label+"/d")
	if ok {
		*k.av = sub
	}
	return out, ok
}

// nullInV2Collection: the value has a NULL directly inside a list/set/map (which v2 cannot express).
func nullInCollection(dt datatype.DataType, av gen.AV) bool {
	if av.Null {
		return false
	}
	switch x := dt.(type) {
	case *datatype.List:
		for _, e := range av.Elems {
			if e.Null || nullInCollection(x.ElementType, e) {
				return true
			}
		}
	case *datatype.Set:
		for _, e := range av.Elems {
			if e.Null || nullInCollection(x.ElementType, e) {
				return true
			}
		}
	case *datatype.Map:
		for i := range av.Keys {
			if av.Keys[i].Null || av.Elems[i].Null || nullInCollection(x.KeyType, av.Keys[i]) || nullInCollection(x.ValueType, av.Elems[i]) {
				return true
			}
		}
	}
	return false
}

func c14Nested(rt *rapid.T) {
	rec := stats.For("C14")
	v := gen.Version(rt)
	dt := gen.ValueType(rt, v, rapid.IntRange(1, valueDepth()).Draw(rt, "depth"), "type")
	rep := gen.DrawRep(rt, dt, false, "rep")
	rep.Iface = false
	codec, err := datacodec.NewCodec(dt)
	if err != nil {
		rt.Fatalf("NewCodec: %v", err)
	}
	c := valueCase{v: v, dt: dt, rep: rep}
	switch rapid.IntRange(0, 3).Draw(rt, "mode") {
	case 0: // nil source of the composite representation itself (nil pointer, nil slice, nil map) -> NULL
		var src interface{}
		decl := rep.DeclType()
		switch {
		case rep.Nillable():
			src = reflect.Zero(decl).Interface()
		default:
			src = reflect.Zero(reflect.PtrTo(decl)).Interface()
		}
		var enc []byte
		var eerr error
		if msg := recovered(func() { enc, eerr = codec.Encode(src, v) }); msg != "" {
			rt.Fatalf("Encode(nil %T) as %s %s", src, dt.AsCql(), msg)
		}
		if eerr != nil || enc != nil {
			rt.Fatalf("Encode(nil %T) as %s v%d = (%x, %v); want NULL (nil, nil)", src, dt.AsCql(), v, clipBytes(enc), eerr)
		}
		rec.Case(true, stats.HashString(fmt.Sprintf("nilsrc/%s/%T/%d", dt.AsCql(), src, v)), func() string {
			return fmt.Sprintf("Encode(nil %T) as %s v%d -> NULL", src, dt.AsCql(), v)
		}, "nested:nil-source", "type:"+typeClass(dt))
	case 1: // NULL into a pre-filled destination of the representation
		bt := topDestType(rep)
		dest := reflect.New(bt)
		dest.Elem().Set(nonZero(bt))
		var wasNull bool
		var derr error
		if msg := recovered(func() { wasNull, derr = codec.Decode(nil, dest.Interface(), v) }); msg != "" {
			rt.Fatalf("Decode(NULL) as %s into %v %s", dt.AsCql(), dest.Type(), msg)
		}
		if derr != nil || !wasNull {
			rt.Fatalf("Decode(NULL) as %s into %v: wasNull=%v err=%v", dt.AsCql(), dest.Type(), wasNull, derr)
		}
		if !isZeroValue(dest.Elem()) {
			rt.Fatalf("Decode(NULL) as %s into pre-filled %v left %v; want the zero value", dt.AsCql(), dest.Type(), dest.Elem().Interface())
		}
		var any interface{} = "prefilled"
		if wasNull, derr = codec.Decode(nil, &any, v); derr != nil || !wasNull || any != nil {
			rt.Fatalf("Decode(NULL) as %s into *interface{}: wasNull=%v err=%v value=%v; want nil", dt.AsCql(), wasNull, derr, any)
		}
		rec.Case(true, stats.HashString(fmt.Sprintf("nulldst/%s/%v/%d", dt.AsCql(), dest.Type(), v)), func() string {
			return fmt.Sprintf("Decode(NULL) as %s into pre-filled %v v%d", dt.AsCql(), dest.Type(), v)
		}, "nested:null-into-dest", "type:"+typeClass(dt))
	default: // a NULL at a chosen element / field position
		av := gen.DrawAV(rt, dt, rep, v, false, "value")
		// v2 generation never places nulls; force one regardless of version
		forced, ok := forceNull(rt, dt, rep, av, "null")
		if !ok {
			rec.Case(false, 0, nil, "nested:no-nillable-position")
			return
		}
		c.av = forced
		src := gen.ToGo(c.av, dt, rep).Interface()
		var enc []byte
		var eerr error
		if msg := recovered(func() { enc, eerr = codec.Encode(src, v) }); msg != "" {
			rt.Fatalf("Encode %s\n%s", msg, c)
		}
		if v == primitive.ProtocolVersion2 && nullInCollection(dt, c.av) {
			if eerr == nil {
				rt.Fatalf("protocol v2 cannot express null collection elements, yet Encode succeeded with %x\n%s", clipBytes(enc), c)
			}
			rec.Case(true, stats.HashString("v2/"+c.String()), c.String, "nested:v2-null-refused", "type:"+typeClass(dt))
			return
		}
		if eerr != nil {
			rt.Fatalf("Encode failed on a value with a null element in a nillable representation: %v\n%s", eerr, c)
		}
		dest := reflect.New(topDestType(rep))
		wasNull, fail := decodeInto(codec, enc, dest.Interface(), v)
		if fail != "" || wasNull {
			rt.Fatalf("%s wasNull=%v\n%s", fail, wasNull, c)
		}
		got, err := gen.FromGo(dest.Elem(), dt)
		if err != nil || !gen.EqualAV(dt, c.av, got) {
			rt.Fatalf("nested NULL did not survive the round trip: got %s (%v)\n%s", clip200(gen.RenderAV(dt, got)), err, c)
		}
		// into a destination pre-filled with non-null values: the NULL must overwrite the stale element
		if rep.Kind != "map" && rep.Kind != "ifacemap" {
			prev := gen.DrawAV(rt, dt, rep, v, false, "previous")
			old := gen.ToGo(prev, dt, rep)
			for old.Kind() == reflect.Ptr && old.Type() != reflect.PtrTo(topDestType(rep)) && !old.IsNil() {
				old = old.Elem()
			}
			dest2 := reflect.New(topDestType(rep))
			if old.Type() == dest2.Type() && !old.IsNil() {
				dest2 = old
			} else if old.Type() == dest2.Type().Elem() {
				dest2.Elem().Set(old)
			}
			if _, fail := decodeInto(codec, enc, dest2.Interface(), v); fail != "" {
				rt.Fatalf("%s (pre-filled destination)\n%s", fail, c)
			}
			got3, err := gen.FromGo(dest2.Elem(), dt)
			if err != nil || !gen.EqualAV(dt, c.av, got3) {
				rt.Fatalf("nested NULL decoded into a destination that already held %s yields %s (%v): the stale element shows through\n%s", clip200(gen.RenderAV(dt, prev)), clip200(gen.RenderAV(dt, got3)), err, c)
			}
		}
		if gen.UntypedDecodable(dt) {
			var any interface{}
			if _, fail := decodeInto(codec, enc, &any, v); fail != "" {
				rt.Fatalf("%s (untyped)\n%s", fail, c)
			}
			got2, err := gen.FromGo(reflect.ValueOf(any), dt)
			if err != nil || !gen.EqualAV(dt, c.av, got2) {
				rt.Fatalf("nested NULL did not survive the untyped round trip: got %s (%v)\n%s", clip200(gen.RenderAV(dt, got2)), err, c)
			}
		}
		rec.Case(true, stats.HashString(c.String()), c.String, "nested:null-element-roundtrip", "type:"+typeClass(dt), fmt.Sprintf("version:%d", v))
	}
}

func TestC14Nested(t *testing.T) { rapid.Check(t, c14Nested) }

var _ = net.IP{}
