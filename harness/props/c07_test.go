package props

// C07: corrupted segments are rejected, never delivered (fault enumeration).
// Faults: every bit-flip pattern of weight 1..w over the 48 (no compressor) / 64 (LZ4) bits of header+CRC-24
// (quick: w<=3 exhaustive + rapid-sampled weights 4..7; thorough: w<=7 exhaustive for 48 bits, w<=5 for 64 bits, sampled
// above) and, over payload+CRC-32, every single-bit flip, pairs (exhaustive for small payloads, sampled for large) and
// bursts of 1..32 bits at every offset (wire bit order, least-significant bit of each byte first).
// Oracle: DecodeSegment returns a non-nil error and a nil segment. Header faults are served with a lazily built tail that
// is VALID for whatever lengths the altered header declares, so that acceptance of a corrupt header cannot hide behind a
// later length / CRC-32 mismatch.

import (
	"bytes"
	"fmt"
	"hash/crc32"
	"io"
	"math/bits"
	"testing"

	"github.com/datastax/go-cassandra-native-protocol/segment"
	"pgregory.net/rapid"

	"verifharness/gen"
	"verifharness/ref"
	"verifharness/stats"
)

// lazyStream serves head, then (only if the decoder asks for more) a tail built on demand.
type lazyStream struct {
	head    []byte
	pos     int
	mkTail  func() []byte
	tail    []byte
	built   bool
	askedTl bool
}

func (l *lazyStream) Read(p []byte) (int, error) {
	if l.pos < len(l.head) {
		n := copy(p, l.head[l.pos:])
		l.pos += n
		return n, nil
	}
	if !l.built {
		l.built, l.askedTl = true, true
		l.tail = l.mkTail()
	}
	off := l.pos - len(l.head)
	if off >= len(l.tail) {
		return 0, io.EOF
	}
	n := copy(p, l.tail[off:])
	l.pos += n
	return n, nil
}

var ieee = crc32.MakeTable(crc32.IEEE)

func seededCRC32(b []byte) uint32 {
	return crc32.Update(crc32.Update(0, ieee, []byte{0xFA, 0x2D, 0x55, 0xCA}), ieee, b)
}

func le32(v uint32) []byte { return []byte{byte(v), byte(v >> 8), byte(v >> 16), byte(v >> 24)} }

// literalBlockOfSize returns a literal-only LZ4 block of exactly total bytes, or nil if no single-sequence block has
// that size.
func literalBlockOfSize(total int) []byte {
	if total == 0 {
		return []byte{}
	}
	// size(k) = k+1 for k<15; k+2+floor((k-15)/255) for k>=15
	for k := total - 1; k >= 0 && k >= total-600; k-- {
		var size int
		if k < 15 {
			size = k + 1
		} else {
			size = k + 2 + (k-15)/255
		}
		if size == total {
			return ref.LZ4EncodeLiteral(make([]byte, k))
		}
		if size < total-520 {
			break
		}
	}
	return nil
}

// consistentTail builds payload+CRC-32 valid for the lengths the (altered) header declares.
func consistentTail(hdr []byte, lz bool) []byte {
	var v uint64
	for i, b := range hdr {
		v |= uint64(b) << (8 * uint(i))
	}
	if !lz {
		plen := int(v & 0x1FFFF)
		payload := make([]byte, plen)
		return append(payload, le32(seededCRC32(payload))...)
	}
	clen := int(v & 0x1FFFF)
	ulen := int(v >> 17 & 0x1FFFF)
	var payload []byte
	if ulen == 0 {
		payload = make([]byte, clen)
	} else {
		payload = literalBlockOfSize(clen)
		if payload == nil {
			payload = make([]byte, clen) // not a valid block: a decoder that got this far fails on decompression
		}
	}
	return append(payload, le32(seededCRC32(payload))...)
}

type baseSeg struct {
	name   string
	lz     bool
	enc    []byte
	hdrLen int // header bytes incl. CRC-24
}

func mkBase(payload []byte, sc, lz bool) baseSeg {
	var buf bytes.Buffer
	seg := &segment.Segment{Header: &segment.Header{IsSelfContained: sc}, Payload: &segment.Payload{UncompressedData: payload}}
	if err := segCodec(lz).EncodeSegment(seg, &buf); err != nil {
		panic(err)
	}
	h := 6
	if lz {
		h = 8
	}
	return baseSeg{name: fmt.Sprintf("len=%d sc=%v lz4=%v", len(payload), sc, lz), lz: lz, enc: buf.Bytes(), hdrLen: h}
}

// rejected decodes and reports whether the altered bytes were rejected the way the property demands.
func rejectedSeg(codec segment.Codec, r io.Reader) (ok bool, why string) {
	var s *segment.Segment
	var err error
	if msg := recovered(func() { s, err = codec.DecodeSegment(r) }); msg != "" {
		return false, "DecodeSegment " + msg
	}
	if err == nil {
		return false, fmt.Sprintf("DecodeSegment accepted the altered segment (payload %d bytes delivered)", len(s.Payload.UncompressedData))
	}
	if s != nil {
		return false, "DecodeSegment returned an error AND a non-nil segment"
	}
	return true, ""
}

// acceptsIntact decodes the unaltered base with codec (a codec that has state would now hold it).
func acceptsIntact(codec segment.Codec, b baseSeg) bool {
	s, err := codec.DecodeSegment(bytes.NewReader(b.enc))
	return err == nil && s != nil
}

// headerFault applies pattern (bit i of pattern = bit i of header+CRC in wire order, LSB of byte 0 first).
func headerFault(b baseSeg, codec segment.Codec, pattern uint64, strict bool) (bool, string) {
	head := append([]byte{}, b.enc[:b.hdrLen]...)
	for i := 0; i < b.hdrLen; i++ {
		head[i] ^= byte(pattern >> (8 * uint(i)))
	}
	ls := &lazyStream{head: head}
	if strict {
		ls.mkTail = func() []byte { return b.enc[b.hdrLen:] }
	} else {
		ls.mkTail = func() []byte { return consistentTail(head[:b.hdrLen-3], b.lz) }
	}
	return rejectedSeg(codec, ls)
}

// forEachPattern enumerates all patterns of the given weight over nbits (lexicographic combinations), calling f for
// those whose ordinal falls in this shard. Returns the number of patterns this shard evaluated.
func forEachPattern(nbits, weight, shardK, shardN int, f func(p uint64) bool) int64 {
	if weight == 0 || weight > nbits {
		return 0
	}
	pos := make([]int, weight)
	for i := range pos {
		pos[i] = i
	}
	var cnt, idx int64
	for {
		if int(idx%int64(shardN)) == shardK {
			var p uint64
			for _, b := range pos {
				p |= 1 << uint(b)
			}
			cnt++
			if !f(p) {
				return cnt
			}
		}
		idx++
		// next combination
		i := weight - 1
		for i >= 0 && pos[i] == nbits-weight+i {
			i--
		}
		if i < 0 {
			return cnt
		}
		pos[i]++
		for j := i + 1; j < weight; j++ {
			pos[j] = pos[j-1] + 1
		}
	}
}

func c07Bases() []baseSeg {
	return []baseSeg{
		mkBase([]byte{}, true, false), mkBase([]byte{1}, false, false), mkBase(gen.Expand(3, 1, 255), true, false),
		mkBase(gen.Expand(3, 2, 131071), true, false), mkBase(gen.Expand(1, 3, 4096), false, false),
		mkBase([]byte{}, true, true), mkBase([]byte{7, 7}, false, true), mkBase(gen.Expand(0, 4, 4096), true, true),
		mkBase(gen.Expand(3, 5, 131071), false, true), mkBase(gen.Expand(2, 6, 60000), true, true),
	}
}

func TestC07HeaderExhaustive(t *testing.T) {
	rec := stats.For("C07")
	k, n := shard()
	bases := c07Bases()
	for bi, b := range bases {
		nbits := b.hdrLen * 8
		maxW := 3
		if thorough() {
			switch {
			case bi == 2: // one uncompressed base: everything the property states
				maxW = 7
			case bi == 7: // one LZ4 base
				maxW = 6
			default:
				maxW = 4
			}
		}
		codec := segCodec(b.lz)
		seen := 0
		for w := 1; w <= maxW; w++ {
			failed := false
			cnt := forEachPattern(nbits, w, k, n, func(p uint64) bool {
				// the codec under attack is one that has been (and keeps being) used on the intact segment
				if seen%257 == 0 {
					if !acceptsIntact(codec, b) {
						t.Errorf("base %s: the intact segment is refused", b.name)
						failed = true
						return false
					}
				}
				seen++
				if ok, why := headerFault(b, codec, p, false); !ok {
					rec.Violation("header-fault-accepted", map[string]interface{}{"base": b.name, "pattern": fmt.Sprintf("%#x", p), "weight": w, "shape": "consistent-tail", "why": why, "segment": fmt.Sprintf("%x", clipBytes(b.enc))})
					t.Errorf("base %s: header fault pattern %#x (weight %d) not rejected: %s", b.name, p, w, why)
					failed = true
					return false
				}
				if w <= 2 {
					if ok, why := headerFault(b, codec, p, true); !ok {
						rec.Violation("header-fault-accepted", map[string]interface{}{"base": b.name, "pattern": fmt.Sprintf("%#x", p), "weight": w, "shape": "strict", "why": why})
						t.Errorf("base %s: header fault pattern %#x (strict) not rejected: %s", b.name, p, why)
						failed = true
						return false
					}
				}
				return true
			})
			rec.Bulk(cnt, cnt, fmt.Sprintf("header:w%d:%dbit", w, nbits))
			if failed {
				return
			}
			rec.Exhaustive(fmt.Sprintf("header patterns weight %d over %d bits, base %q", w, nbits, b.name), cnt)
		}
	}
	rec.AddSample(fmt.Sprintf("header fault: base %q bytes %x, pattern = any set of <= w flipped bits among the %d header+CRC24 bits, tail rebuilt valid for the altered lengths", bases[2].name, bases[2].enc[:6], 48))
}

// sampled weights 4..7 (and all weights on random headers), drawn by rapid.
func c07HeaderSampled(rt *rapid.T) {
	rec := stats.For("C07")
	lz := rapid.Bool().Draw(rt, "lz4")
	plen := rapid.SampledFrom([]int{0, 1, 2, 16, 255, 4096, 131071}).Draw(rt, "plen")
	if rapid.Bool().Draw(rt, "anylen") {
		plen = rapid.IntRange(0, 131071).Draw(rt, "plen2")
	}
	b := mkBase(gen.Expand(rapid.IntRange(0, 3).Draw(rt, "class"), rapid.Uint64().Draw(rt, "seed"), plen), rapid.Bool().Draw(rt, "sc"), lz)
	nbits := b.hdrLen * 8
	w := rapid.IntRange(1, 7).Draw(rt, "weight")
	var p uint64
	for bits.OnesCount64(p) < w {
		p |= 1 << uint(rapid.IntRange(0, nbits-1).Draw(rt, "bit"))
	}
	strict := rapid.Bool().Draw(rt, "strict")
	codec := segCodec(lz)
	if rapid.Bool().Draw(rt, "usedCodec") && !acceptsIntact(codec, b) {
		if b.lz && len(b.enc) > 32768 {
			// the library's own LZ4 output for a large payload may be undecodable (open finding DEP-lz4-offset-wrap-65536,
			// judged by C06/C08): this base cannot serve as "intact"
			rec.Excluded("DEP-lz4-offset-wrap-65536")
			return
		}
		rt.Fatalf("base %s: the intact segment is refused", b.name)
	}
	if ok, why := headerFault(b, codec, p, strict); !ok {
		rt.Fatalf("base %s header %x: fault pattern %#x (weight %d, strict=%v) not rejected: %s", b.name, b.enc[:b.hdrLen], p, w, strict, why)
	}
	rec.Case(true, stats.HashString(fmt.Sprintf("%x/%x/%v", b.enc[:b.hdrLen], p, strict)), func() string {
		return fmt.Sprintf("header+crc %x ^ pattern %#x (weight %d, strict=%v, lz4=%v)", b.enc[:b.hdrLen], p, w, strict, lz)
	}, fmt.Sprintf("header-sampled:w%d", w))
}

func TestC07HeaderSampled(t *testing.T) { rapid.Check(t, c07HeaderSampled) }

// flipBit flips wire bit i (LSB of each byte first) of buf[from:].
func flipBit(buf []byte, from, i int) { buf[from+i/8] ^= 1 << uint(i%8) }

func TestC07Payload(t *testing.T) {
	rec := stats.For("C07")
	k, n := shard()
	sizes := []int{0, 1, 2, 16, 255}
	if thorough() {
		sizes = []int{0, 1, 2, 16, 255, 256, 1000, 4096}
	}
	for _, lz := range []bool{false, true} {
		codec := segCodec(lz)
		for _, size := range sizes {
			b := mkBase(gen.Expand(3, uint64(size)+1, size), size%2 == 0, lz)
			nb := (len(b.enc) - b.hdrLen) * 8
			work := make([]byte, len(b.enc))
			try := func(kind string, flips func(buf []byte), desc func() string) bool {
				copy(work, b.enc)
				flips(work)
				if ok, why := rejectedSeg(codec, bytes.NewReader(work)); !ok {
					rec.Violation("payload-fault-accepted", map[string]interface{}{"base": b.name, "fault": desc(), "why": why})
					t.Errorf("base %s: %s not rejected: %s", b.name, desc(), why)
					return false
				}
				return true
			}
			// single flips: all
			c := int64(0)
			for i := k; i < nb; i += n {
				i := i
				if !try("single", func(buf []byte) { flipBit(buf, b.hdrLen, i) }, func() string { return fmt.Sprintf("single flip of payload+crc32 bit %d", i) }) {
					return
				}
				c++
			}
			rec.Bulk(c, c, "payload:single")
			// pairs: exhaustive for payloads <= 256 bytes
			if size <= 256 {
				c = 0
				idx := 0
				for i := 0; i < nb; i++ {
					for j := i + 1; j < nb; j++ {
						idx++
						if idx%n != k {
							continue
						}
						i, j := i, j
						if !try("pair", func(buf []byte) { flipBit(buf, b.hdrLen, i); flipBit(buf, b.hdrLen, j) }, func() string { return fmt.Sprintf("flips of bits %d and %d", i, j) }) {
							return
						}
						c++
					}
				}
				rec.Bulk(c, c, "payload:pair")
				if c > 0 {
					rec.Exhaustive(fmt.Sprintf("bit pairs over payload+CRC32 of base %q (this shard's share)", b.name), c)
				}
			}
			// bursts: every start, every length 1..32, interior patterns: all-ones, ends-only, and two fixed mixes
			c = 0
			idx := 0
			for start := 0; start < nb; start++ {
				for l := 1; l <= 32 && start+l <= nb; l++ {
					idx++
					if idx%n != k {
						continue
					}
					for _, interior := range []uint32{0xFFFFFFFF, 0, 0xA5A5A5A5, 0x3C3C3C3C} {
						start, l, interior := start, l, interior
						if !try("burst", func(buf []byte) {
							for q := 0; q < l; q++ {
								if q == 0 || q == l-1 || interior>>uint(q)&1 == 1 {
									flipBit(buf, b.hdrLen, start+q)
								}
							}
						}, func() string { return fmt.Sprintf("burst start=%d len=%d interior=%#x", start, l, interior) }) {
							return
						}
						c++
					}
				}
			}
			rec.Bulk(c, c, "payload:burst")
		}
	}
	rec.AddSample("payload fault: single flips / pairs / bursts (first and last bit of the burst flipped, interior per mask) over payload+CRC32 of random payloads of 0,1,2,16,255(+256,1000,4096) bytes, with and without LZ4")
}

// sampled faults on large payloads (pairs and bursts), drawn by rapid.
func c07PayloadSampled(rt *rapid.T) {
	rec := stats.For("C07")
	lz := rapid.Bool().Draw(rt, "lz4")
	size := rapid.SampledFrom([]int{300, 4096, 65536, 131071}).Draw(rt, "size")
	b := mkBase(gen.Expand(rapid.SampledFrom([]int{1, 2, 3}).Draw(rt, "class"), rapid.Uint64().Draw(rt, "seed"), size), rapid.Bool().Draw(rt, "sc"), lz)
	nb := (len(b.enc) - b.hdrLen) * 8
	work := append([]byte{}, b.enc...)
	var desc string
	switch rapid.IntRange(0, 2).Draw(rt, "kind") {
	case 0:
		i := rapid.IntRange(0, nb-1).Draw(rt, "i")
		flipBit(work, b.hdrLen, i)
		desc = fmt.Sprintf("single flip %d", i)
	case 1:
		i := rapid.IntRange(0, nb-1).Draw(rt, "i")
		j := rapid.IntRange(0, nb-1).Draw(rt, "j")
		if i == j {
			j = (j + 1) % nb
		}
		flipBit(work, b.hdrLen, i)
		flipBit(work, b.hdrLen, j)
		desc = fmt.Sprintf("pair %d,%d", i, j)
	default:
		l := rapid.IntRange(1, 32).Draw(rt, "burstlen")
		start := rapid.IntRange(0, nb-l).Draw(rt, "start")
		mask := rapid.Uint32().Draw(rt, "interior")
		for q := 0; q < l; q++ {
			if q == 0 || q == l-1 || mask>>uint(q)&1 == 1 {
				flipBit(work, b.hdrLen, start+q)
			}
		}
		desc = fmt.Sprintf("burst start=%d len=%d interior=%#x", start, l, mask)
	}
	codec := segCodec(lz)
	if rapid.Bool().Draw(rt, "usedCodec") && !acceptsIntact(codec, b) {
		if b.lz && len(b.enc) > 32768 {
			// the library's own LZ4 output for a large payload may be undecodable (open finding DEP-lz4-offset-wrap-65536,
			// judged by C06/C08): this base cannot serve as "intact"
			rec.Excluded("DEP-lz4-offset-wrap-65536")
			return
		}
		rt.Fatalf("base %s: the intact segment is refused", b.name)
	}
	if ok, why := rejectedSeg(codec, bytes.NewReader(work)); !ok {
		rt.Fatalf("base %s: %s not rejected: %s", b.name, desc, why)
	}
	rec.Case(true, stats.Hash(work[:min(64, len(work))], []byte(desc)), func() string { return b.name + ": " + desc }, "payload-sampled")
}

func TestC07PayloadSampled(t *testing.T) { rapid.Check(t, c07PayloadSampled) }

// Structured faults: alterations that are not "random bits" but what a confused peer or a lenient decoder would
// produce - the bytes of a checksum in another order, two header bytes exchanged - kept to those inside the guaranteed
// detection range (header+CRC-24: 1..7 differing bits; payload trailer: any change within the 4 CRC-32 bytes is one
// burst of at most 32 bits). Over generated segments, so that many different header and checksum values are covered.
func permsOf(n int) [][]int {
	var out [][]int
	var rec func(cur []int, used []bool)
	rec = func(cur []int, used []bool) {
		if len(cur) == n {
			out = append(out, append([]int{}, cur...))
			return
		}
		for i := 0; i < n; i++ {
			if !used[i] {
				used[i] = true
				rec(append(cur, i), used)
				used[i] = false
			}
		}
	}
	rec(nil, make([]bool, n))
	return out
}

var perms3, perms4 = permsOf(3), permsOf(4)

func c07Structured(rt *rapid.T) {
	rec := stats.For("C07")
	lz := rapid.Bool().Draw(rt, "lz4")
	plen := rapid.SampledFrom([]int{0, 1, 2, 16, 35, 36, 56, 59, 255, 4096, 131071}).Draw(rt, "plen")
	if rapid.Bool().Draw(rt, "anylen") {
		plen = rapid.IntRange(0, 8192).Draw(rt, "plen2")
	}
	b := mkBase(gen.Expand(rapid.IntRange(0, 3).Draw(rt, "class"), rapid.Uint64().Draw(rt, "seed"), plen), rapid.Bool().Draw(rt, "sc"), lz)
	codec := segCodec(lz)
	if rapid.Bool().Draw(rt, "usedCodec") && !acceptsIntact(codec, b) {
		if b.lz && len(b.enc) > 32768 {
			// the library's own LZ4 output for a large payload may be undecodable (open finding DEP-lz4-offset-wrap-65536,
			// judged by C06/C08): this base cannot serve as "intact"
			rec.Excluded("DEP-lz4-offset-wrap-65536")
			return
		}
		rt.Fatalf("base %s: the intact segment is refused", b.name)
	}
	tried := 0
	// header: the three CRC-24 bytes in every other order; every exchange of two header+CRC bytes
	var alts [][]byte
	crcAt := b.hdrLen - 3
	for _, pm := range perms3 {
		h := append([]byte{}, b.enc[:b.hdrLen]...)
		for i, j := range pm {
			h[crcAt+i] = b.enc[crcAt+j]
		}
		alts = append(alts, h)
	}
	for i := 0; i < b.hdrLen; i++ {
		for j := i + 1; j < b.hdrLen; j++ {
			h := append([]byte{}, b.enc[:b.hdrLen]...)
			h[i], h[j] = h[j], h[i]
			alts = append(alts, h)
		}
	}
	// the CRC-24 zeroed or all ones ("not set"), alone and together with a flip of the self-contained flag
	for _, fill := range []byte{0x00, 0xff} {
		for _, flag := range []bool{false, true} {
			h := append([]byte{}, b.enc[:b.hdrLen]...)
			for i := crcAt; i < b.hdrLen; i++ {
				h[i] = fill
			}
			if flag {
				flagBit := 17 // uncompressed header: bit 17; compressed header: bit 34
				if b.lz {
					flagBit = 34
				}
				h[flagBit/8] ^= 1 << uint(flagBit%8)
			}
			alts = append(alts, h)
		}
	}
	for _, h := range alts {
		var pattern uint64
		for i := 0; i < b.hdrLen; i++ {
			pattern |= uint64(h[i]^b.enc[i]) << (8 * uint(i))
		}
		if w := bits.OnesCount64(pattern); w < 1 || w > 7 {
			continue
		}
		for _, strict := range []bool{false, true} {
			tried++
			if ok, why := headerFault(b, codec, pattern, strict); !ok {
				rt.Fatalf("base %s header %x: bytes rearranged to %x (%d bits differ, strict=%v) not rejected: %s", b.name, b.enc[:b.hdrLen], h, bits.OnesCount64(pattern), strict, why)
			}
		}
	}
	// payload trailer: the four CRC-32 bytes in every other order, complemented, zeroed
	tr := len(b.enc) - 4
	var trailers [][]byte
	for _, pm := range perms4 {
		t4 := make([]byte, 4)
		for i, j := range pm {
			t4[i] = b.enc[tr+j]
		}
		trailers = append(trailers, t4)
	}
	trailers = append(trailers, []byte{0, 0, 0, 0}, []byte{0xff, 0xff, 0xff, 0xff},
		[]byte{^b.enc[tr], ^b.enc[tr+1], ^b.enc[tr+2], ^b.enc[tr+3]})
	for _, t4 := range trailers {
		if bytes.Equal(t4, b.enc[tr:]) {
			continue
		}
		work := append(append([]byte{}, b.enc[:tr]...), t4...)
		tried++
		if ok, why := rejectedSeg(codec, bytes.NewReader(work)); !ok {
			rt.Fatalf("base %s: CRC-32 trailer %x replaced by %x (a burst within 32 bits) not rejected: %s", b.name, b.enc[tr:], t4, why)
		}
	}
	rec.Case(tried > 0, stats.Hash(b.enc[:min(64, len(b.enc))], b.enc[tr:]), func() string {
		return fmt.Sprintf("%s: %d structured alterations (checksum bytes reordered / complemented, header bytes exchanged) all rejected", b.name, tried)
	}, "structured")
	rec.Class("structured-alterations", int64(tried))
}

func TestC07Structured(t *testing.T) { rapid.Check(t, c07Structured) }
