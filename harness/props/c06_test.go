package props

// C06: segment round trip and v5 framing layout.
// Generated domain: payload length (boundaries + uniform; thorough: every length 0..131071) x content class x
// self-contained flag x {no compressor, LZ4}; oversize payloads for the refusal clause.
// Oracle: round trip (payload, flag, header lengths); bytes against an independent implementation of the header
// packing, CRC-24 and seeded CRC-32; LZ4: either the uncompressed fallback (uncompressed-length field 0, compressed-
// length field L, payload raw) or a block that an independent LZ4 decoder expands to exactly the payload.

import (
	"bytes"
	"fmt"
	"io"
	"testing"

	"github.com/datastax/go-cassandra-native-protocol/compression/lz4"
	"github.com/datastax/go-cassandra-native-protocol/segment"
	"pgregory.net/rapid"

	"verifharness/gen"
	"verifharness/kf"
	"verifharness/ref"
	"verifharness/stats"
)

var segBoundaryLens = []int{0, 1, 2, 3, 15, 16, 255, 256, 65535, 65536, 65537, 131070, 131071}

func segCodec(lz bool) segment.Codec {
	if lz {
		return segment.NewCodecWithCompression(lz4.Compressor{})
	}
	return segment.NewCodec()
}

// checkSegment returns "" or a failure description; excluded reports a known-finding exclusion.
func checkSegment(payload []byte, selfContained, lz bool) (fail string, excluded bool) {
	return checkSegmentFrom(payload, selfContained, lz, nil)
}

// checkSegmentFrom: chunks != nil makes the round-trip decode read through a short-read source.
func checkSegmentFrom(payload []byte, selfContained, lz bool, chunks []int) (fail string, excluded bool) {
	codec := segCodec(lz)
	// the payload is handed over as a slice of a larger buffer (a sub-slice of an envelope being cut into segments): the
	// encoder may read len(payload) bytes and must not write to the caller's memory, neither inside nor behind the slice
	backing := make([]byte, len(payload)+24)
	copy(backing, payload)
	for i := len(payload); i < len(backing); i++ {
		backing[i] = 0xee
	}
	given := backing[:len(payload)]
	seg := &segment.Segment{Header: &segment.Header{IsSelfContained: selfContained}, Payload: &segment.Payload{UncompressedData: given}}
	if junk := stats.Hash(payload); junk%3 != 0 {
		// the computed fields are documented as "not read when encoding": whatever they hold (a forwarded segment keeps the
		// values its decoder stored, a reused object those of its previous encoding) must not reach the wire
		seg.Header.UncompressedPayloadLength = int32(junk >> 8)
		seg.Header.CompressedPayloadLength = int32(junk >> 24)
		seg.Header.Crc24 = uint32(junk>>13) | 1
		seg.Payload.Crc32 = uint32(junk>>29) | 1
	}
	var buf bytes.Buffer
	if err := codec.EncodeSegment(seg, &buf); err != nil {
		return fmt.Sprintf("EncodeSegment failed for a %d-byte payload: %v", len(payload), err), false
	}
	enc := buf.Bytes()
	if !bytes.Equal(backing[:len(payload)], payload) {
		return "EncodeSegment modified the payload it was given", false
	}
	for i := len(payload); i < len(backing); i++ {
		if backing[i] != 0xee {
			return fmt.Sprintf("EncodeSegment wrote into the caller's memory behind the payload slice (offset +%d: %#x)", i-len(payload), backing[i]), false
		}
	}
	// --- layout against the independent implementation
	p, err := ref.ParseSegment(enc, lz)
	if err != nil {
		return fmt.Sprintf("emitted bytes are not a well-formed segment: %v", err), false
	}
	if p.Total != len(enc) {
		return fmt.Sprintf("emitted %d bytes but the header describes a %d-byte segment", len(enc), p.Total), false
	}
	if !p.HeaderCRCOK {
		return "header CRC-24 differs from the independent CRC-24 of the header bytes", false
	}
	if !p.PayloadCRCOK {
		return "payload CRC-32 differs from the independent CRC-32 of the transmitted payload bytes", false
	}
	if p.SelfContained != selfContained {
		return fmt.Sprintf("self-contained flag bit is %v, want %v", p.SelfContained, selfContained), false
	}
	if !lz {
		want := ref.Segment(false, 0, len(payload), selfContained, payload)
		if !bytes.Equal(enc, want) {
			return fmt.Sprintf("uncompressed segment bytes differ from the specification layout: got %x.. want %x..", clipBytes(enc)[:min(16, len(enc))], want[:min(16, len(want))]), false
		}
	} else {
		if p.UncompressedLen == 0 {
			// uncompressed fallback: payload transmitted raw, its length in the compressed-length field
			if p.CompressedLen != len(payload) || !bytes.Equal(p.Transmitted, payload) {
				return fmt.Sprintf("fallback signalled (uncompressed length 0) but compressed-length field %d / transmitted bytes do not equal the %d-byte payload", p.CompressedLen, len(payload)), false
			}
			if len(payload) > 0 {
				want := ref.Segment(true, len(payload), 0, selfContained, payload)
				if !bytes.Equal(enc, want) {
					return "fallback segment bytes differ from the specification layout", false
				}
			}
		} else {
			if p.UncompressedLen != len(payload) {
				return fmt.Sprintf("uncompressed-length field %d != payload length %d", p.UncompressedLen, len(payload)), false
			}
			out, err := ref.LZ4DecodeBlock(p.Transmitted, len(payload)+64)
			if err != nil || !bytes.Equal(out, payload) {
				if len(payload) > 65536 && kf.Open("DEP-lz4-offset-wrap-65536") && lz4OffsetWrap(p.Transmitted, payload) {
					return "", true
				}
				return fmt.Sprintf("transmitted LZ4 block does not expand to the payload per the independent decoder (err=%v, %d bytes)", err, len(out)), false
			}
			if p.CompressedLen > len(payload) {
				return fmt.Sprintf("compressed form (%d bytes) is longer than the payload (%d) yet was transmitted", p.CompressedLen, len(payload)), false
			}
		}
	}
	// --- round trip
	var src io.Reader = bytes.NewReader(append(append([]byte{}, enc...), 0xEE, 0xEE))
	if chunks != nil {
		src = &chunkReader{r: src, chunks: chunks}
	}
	dec, err := codec.DecodeSegment(src)
	if err == nil {
		if rest, _ := io.ReadAll(src); !bytes.Equal(rest, []byte{0xEE, 0xEE}) {
			return fmt.Sprintf("DecodeSegment did not consume exactly the segment: %d bytes left instead of the 2 sentinel bytes", len(rest)), false
		}
	}
	if err != nil {
		return fmt.Sprintf("DecodeSegment failed on the encoder's own output: %v", err), false
	}
	if !bytes.Equal(dec.Payload.UncompressedData, payload) {
		return fmt.Sprintf("round trip changed the payload (%d -> %d bytes)", len(payload), len(dec.Payload.UncompressedData)), false
	}
	if dec.Header.IsSelfContained != selfContained {
		return "round trip changed the self-contained flag", false
	}
	if int(dec.Header.UncompressedPayloadLength) != len(payload) {
		return fmt.Sprintf("decoded UncompressedPayloadLength=%d, payload has %d bytes", dec.Header.UncompressedPayloadLength, len(payload)), false
	}
	wantComp := 0
	if lz && p.UncompressedLen != 0 {
		wantComp = p.CompressedLen
	}
	if int(dec.Header.CompressedPayloadLength) != wantComp {
		return fmt.Sprintf("decoded CompressedPayloadLength=%d, want %d", dec.Header.CompressedPayloadLength, wantComp), false
	}
	if dec.Header.Crc24 != ref.CRC24(enc[:map[bool]int{false: 3, true: 5}[lz]]) || dec.Payload.Crc32 != ref.CRC32(p.Transmitted) {
		return "decoded Crc24/Crc32 fields differ from the independent checksums", false
	}
	// a foreign but conforming sender: the reference framing (uncompressed fallback and literal-only LZ4) must decode
	var foreign [][]byte
	if lz {
		foreign = append(foreign, ref.Segment(true, len(payload), 0, selfContained, payload))
		if len(payload) > 0 {
			blk := ref.LZ4EncodeRuns(payload)
			if len(blk) <= 131071 {
				foreign = append(foreign, ref.Segment(true, len(blk), len(payload), selfContained, blk))
			}
		}
	} else {
		foreign = append(foreign, ref.Segment(false, 0, len(payload), selfContained, payload))
	}
	for i, fb := range foreign {
		if lz && i == 0 && len(payload) == 0 {
			continue // both length fields 0: nothing to tell apart
		}
		d2, err := codec.DecodeSegment(bytes.NewReader(fb))
		if err != nil {
			return fmt.Sprintf("a conforming segment built by the reference encoder (variant %d, payload %d bytes) is rejected: %v", i, len(payload), err), false
		}
		if !bytes.Equal(d2.Payload.UncompressedData, payload) || d2.Header.IsSelfContained != selfContained {
			return fmt.Sprintf("a conforming segment built by the reference encoder (variant %d) decodes to a different payload/flag", i), false
		}
	}
	// second use of the same objects: the Segment just encoded gets another payload and is encoded again by the same codec,
	// and the segment just decoded is forwarded through the codec of the other kind (a proxy between a compressing and a
	// plain connection). Both must come out exactly like a fresh object with that payload.
	payload2 := append(append([]byte{}, payload...), 0x5a)
	if len(payload2) > 1 {
		payload2[0] ^= 0xff
	}
	if len(payload2) <= 131071 {
		fresh := func(c segment.Codec, pl []byte) ([]byte, error) {
			var b bytes.Buffer
			err := c.EncodeSegment(&segment.Segment{Header: &segment.Header{IsSelfContained: selfContained}, Payload: &segment.Payload{UncompressedData: pl}}, &b)
			return b.Bytes(), err
		}
		want, err1 := fresh(codec, payload2)
		seg.Payload.UncompressedData = payload2
		var again bytes.Buffer
		err2 := codec.EncodeSegment(seg, &again)
		if (err1 == nil) != (err2 == nil) || (err1 == nil && !bytes.Equal(want, again.Bytes())) {
			if !(lz && len(payload2) > 65536 && kf.Open("DEP-lz4-offset-wrap-65536")) {
				return fmt.Sprintf("a Segment object encoded a second time with another payload (%d bytes) gives other bytes than a fresh object with that payload (errors %v / %v): stale state of the first encoding reached the wire", len(payload2), err1, err2), false
			}
		}
	}
	other := segCodec(!lz)
	wantFwd, err1 := func() ([]byte, error) {
		var b bytes.Buffer
		err := other.EncodeSegment(&segment.Segment{Header: &segment.Header{IsSelfContained: selfContained}, Payload: &segment.Payload{UncompressedData: payload}}, &b)
		return b.Bytes(), err
	}()
	var fwd bytes.Buffer
	err2 := other.EncodeSegment(dec, &fwd)
	if (err1 == nil) != (err2 == nil) || (err1 == nil && !bytes.Equal(wantFwd, fwd.Bytes())) {
		if !(!lz && len(payload) > 65536 && kf.Open("DEP-lz4-offset-wrap-65536")) {
			return fmt.Sprintf("a decoded segment (%d-byte payload) forwarded through the %s codec gives other bytes than a fresh segment with the same payload (errors %v / %v): fields stored by the decoder reached the wire", len(payload), map[bool]string{true: "LZ4", false: "plain"}[!lz], err1, err2), false
		}
	}
	return "", false
}

func c06Property(rt *rapid.T) {
	rec := stats.For("C06")
	var n int
	switch rapid.IntRange(0, 3).Draw(rt, "lenmode") {
	case 0:
		n = rapid.SampledFrom(segBoundaryLens).Draw(rt, "len")
	case 1:
		n = rapid.IntRange(0, 300).Draw(rt, "len")
	default:
		n = rapid.IntRange(0, 131071).Draw(rt, "len")
	}
	class := rapid.IntRange(0, 5).Draw(rt, "class")
	seed := rapid.Uint64().Draw(rt, "seed")
	var payload []byte
	if class == 4 { // half repetitive, half random
		payload = append(gen.Expand(0, seed, n/2), gen.Expand(3, seed, n-n/2)...)
	} else if class == 5 { // incompressible, then a short compressible tail (the compressed form is about as long as the payload)
		tail := rapid.SampledFrom([]int{5, 12, 16, 32, 200, 1000}).Draw(rt, "tail")
		if tail > n {
			tail = n
		}
		payload = append(gen.Expand(3, seed, n-tail), gen.Expand(0, seed, tail)...)
	} else {
		payload = gen.Expand(class, seed, n)
	}
	sc := rapid.Bool().Draw(rt, "selfContained")
	lz := rapid.Bool().Draw(rt, "lz4")
	var chunks []int
	if rapid.IntRange(0, 2).Draw(rt, "shortReads") == 0 {
		chunks = drawChunks(rt)
	}
	fail, excluded := checkSegmentFrom(payload, sc, lz, chunks)
	if excluded {
		rec.Excluded("DEP-lz4-offset-wrap-65536")
		return
	}
	if fail != "" {
		rt.Fatalf("%s [len=%d class=%d seed=%#x selfContained=%v lz4=%v]", fail, n, class, seed, sc, lz)
	}
	rec.Case(n > 0, stats.HashString(fmt.Sprintf("%d/%d/%x/%v/%v", n, class, seed, sc, lz)), func() string {
		return fmt.Sprintf("segment payload len=%d class=%d seed=%#x selfContained=%v lz4=%v", n, class, seed, sc, lz)
	}, fmt.Sprintf("class:%d", class), fmt.Sprintf("lz4:%v", lz), sizeClass(n))
}

func TestC06(t *testing.T) { rapid.Check(t, c06Property) }

// refusal clause: payloads above 131071 bytes must be refused and nothing decodable emitted.
func TestC06Oversize(t *testing.T) {
	rec := stats.For("C06")
	if k, _ := shard(); k != 0 {
		return
	}
	n := int64(0)
	for _, size := range []int{131072, 131073, 200000, 262143, 262144, 1 << 20} {
		for _, lz := range []bool{false, true} {
			for _, class := range []int{0, 3} {
				payload := gen.Expand(class, 7, size)
				seg := &segment.Segment{Header: &segment.Header{IsSelfContained: true}, Payload: &segment.Payload{UncompressedData: payload}}
				var buf bytes.Buffer
				err := segCodec(lz).EncodeSegment(seg, &buf)
				if err == nil {
					rec.Violation("oversize-accepted", fmt.Sprintf("EncodeSegment accepted a %d-byte payload (lz4=%v class=%d) and emitted %d bytes", size, lz, class, buf.Len()))
					t.Errorf("oversize payload %d accepted", size)
				} else if buf.Len() > 0 {
					if d, derr := segCodec(lz).DecodeSegment(bytes.NewReader(buf.Bytes())); derr == nil {
						rec.Violation("oversize-emitted", fmt.Sprintf("EncodeSegment refused a %d-byte payload but emitted a decodable segment of %d payload bytes", size, len(d.Payload.UncompressedData)))
						t.Errorf("oversize payload %d: decodable bytes emitted", size)
					}
				}
				n++
			}
		}
	}
	rec.Bulk(n, n, "oversize")
}

// thorough tier: every payload length 0..131071 once per content class and configuration, split over the shards.
func TestC06AllLengths(t *testing.T) {
	if !thorough() {
		return
	}
	rec := stats.For("C06")
	k, n := shard()
	count := int64(0)
	for l := k; l <= 131071; l += n {
		for class := 0; class < 4; class++ {
			payload := gen.Expand(class, uint64(l)*2654435761+uint64(class), l)
			for _, lz := range []bool{false, true} {
				sc := (l+class)%2 == 0
				fail, excluded := checkSegment(payload, sc, lz)
				if excluded {
					rec.Excluded("DEP-lz4-offset-wrap-65536")
					continue
				}
				if fail != "" {
					rec.Violation("length-sweep", fmt.Sprintf("%s [len=%d class=%d selfContained=%v lz4=%v]", fail, l, class, sc, lz))
					t.Errorf("%s [len=%d class=%d lz4=%v]", fail, l, class, lz)
					return
				}
				count++
			}
		}
	}
	rec.Bulk(count, count, "all-lengths")
	rec.Exhaustive("payload lengths 0..131071 x 4 content classes x {none,lz4}", count)
}

// several segments back to back on one codec: each decodes to its own payload, the decoder consumes exactly one segment
// per call, and the results handed out earlier are still intact after the later calls.
func c06Stream(rt *rapid.T) {
	rec := stats.For("C06")
	lz := rapid.Bool().Draw(rt, "lz4")
	codec := segCodec(lz)
	n := rapid.IntRange(2, 6).Draw(rt, "nsegments")
	var stream bytes.Buffer
	var payloads [][]byte
	var flags []bool
	for i := 0; i < n; i++ {
		l := rapid.SampledFrom([]int{0, 1, 50, 400, 5000, 70000}).Draw(rt, fmt.Sprintf("len%d", i))
		class := rapid.IntRange(0, 3).Draw(rt, fmt.Sprintf("class%d", i))
		p := gen.Expand(class, rapid.Uint64().Draw(rt, fmt.Sprintf("seed%d", i)), l)
		sc := rapid.Bool().Draw(rt, fmt.Sprintf("sc%d", i))
		seg := &segment.Segment{Header: &segment.Header{IsSelfContained: sc}, Payload: &segment.Payload{UncompressedData: append([]byte{}, p...)}}
		var one bytes.Buffer
		if err := codec.EncodeSegment(seg, &one); err != nil {
			rt.Fatalf("EncodeSegment: %v", err)
		}
		if lz && l > 65536 && kf.Open("DEP-lz4-offset-wrap-65536") {
			if ps, err := ref.ParseSegment(one.Bytes(), true); err == nil && ps.UncompressedLen != 0 && lz4OffsetWrap(ps.Transmitted, p) {
				rec.Excluded("DEP-lz4-offset-wrap-65536")
				return
			}
		}
		stream.Write(one.Bytes())
		payloads = append(payloads, p)
		flags = append(flags, sc)
	}
	stream.Write([]byte{0xEE})
	var src io.Reader = bytes.NewReader(stream.Bytes())
	if rapid.Bool().Draw(rt, "shortReads") {
		src = &chunkReader{r: src, chunks: drawChunks(rt)}
	}
	var got []*segment.Segment
	for i := 0; i < n; i++ {
		s, err := codec.DecodeSegment(src)
		if err != nil {
			rt.Fatalf("segment %d of %d in the stream failed to decode: %v", i, n, err)
		}
		got = append(got, s)
	}
	if rest, _ := io.ReadAll(src); !bytes.Equal(rest, []byte{0xEE}) {
		rt.Fatalf("after %d segments %d bytes are left instead of the sentinel byte", n, len(rest))
	}
	for i, s := range got { // checked only now: earlier results must survive later calls
		if !bytes.Equal(s.Payload.UncompressedData, payloads[i]) || s.Header.IsSelfContained != flags[i] {
			rt.Fatalf("segment %d of %d: payload/flag differ once the whole stream has been decoded (lz4=%v, %d vs %d bytes)", i, n, lz, len(s.Payload.UncompressedData), len(payloads[i]))
		}
	}
	rec.Case(true, stats.Hash(stream.Bytes()), func() string { return fmt.Sprintf("stream of %d segments lz4=%v total %d bytes", n, lz, stream.Len()) }, "stream", fmt.Sprintf("lz4:%v", lz))
}

func TestC06Stream(t *testing.T) { rapid.Check(t, c06Stream) }
