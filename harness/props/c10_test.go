//go:build verif

package props

// C10: responses reach exactly the request with the same stream id.
// Shim level (pure histories on the in-flight handler): k outstanding requests answered in every order (all k! for k<=5,
// drawn permutations above), multi-page answers of 1..MaxPending pages interleaved across requests, spurious responses
// for unknown ids, consumers reading afterwards. Socket level (worker-isolated): a library client against a raw server
// peer that answers tagged requests in a generated order, interleaves EVENT envelopes (stream id -1, an unused id, or the
// id of a request still awaiting its response) and spurious
// responses, under every version incl. v5 segments, with concurrent senders.
// Oracle: per request, the frames read from Incoming() are exactly the tagged frames addressed to it, in arrival order,
// the channel is closed after the last one with Err()==nil; events appear on the event channel / handlers in order and
// on no request; unknown-id responses change nothing.

import (
	"context"
	"encoding/binary"
	"encoding/json"
	"fmt"
	"math"
	"net"
	"os"
	"strings"
	"sync"
	"testing"
	"time"

	"github.com/datastax/go-cassandra-native-protocol/client"
	"github.com/datastax/go-cassandra-native-protocol/frame"
	"github.com/datastax/go-cassandra-native-protocol/message"
	"github.com/datastax/go-cassandra-native-protocol/primitive"
	"pgregory.net/rapid"

	"verifharness/ref"
	"verifharness/stats"
)

func taggedFinal(v primitive.ProtocolVersion, id int16, tag string) *frame.Frame {
	return frame.NewFrame(v, id, &message.SetKeyspaceResult{Keyspace: tag})
}

func taggedPage(v primitive.ProtocolVersion, id int16, tag string, pageNo int32, last bool) *frame.Frame {
	return frame.NewFrame(v, id, &message.RowsResult{
		Metadata: &message.RowsMetadata{ColumnCount: 1, ContinuousPageNumber: pageNo, LastContinuousPage: last},
		Data:     message.RowSet{message.Row{[]byte(tag)}},
	})
}

// pageNumber: the <continuous_page_no> of the k-th page (k from 1) of request i. Every third request is deep into a long
// paging session whose 32-bit page counter wraps around: its pages are numbered MaxInt32, MinInt32, MinInt32+1, ...
func pageNumber(i, k int) int32 {
	if i%3 == 2 {
		return int32(int64(math.MaxInt32) + int64(k) - 1) // wraps
	}
	return int32(k)
}

func tagOf(f *frame.Frame) string {
	switch m := f.Body.Message.(type) {
	case *message.SetKeyspaceResult:
		return m.Keyspace
	case *message.RowsResult:
		if len(m.Data) == 1 && len(m.Data[0]) == 1 {
			return string(m.Data[0][0])
		}
	case *message.Ready:
		return "ready"
	}
	return fmt.Sprintf("?%T", f.Body.Message)
}

// a delivery plan: sequence of (request index, page number, last) + spurious entries (request index -1)
type c10Step struct {
	Req  int
	Last bool
}

func permutations(k int) [][]int {
	if k == 0 {
		return [][]int{{}}
	}
	var out [][]int
	for _, p := range permutations(k - 1) {
		for pos := 0; pos <= len(p); pos++ {
			q := append(append(append([]int{}, p[:pos]...), k-1), p[pos:]...)
			out = append(out, q)
		}
	}
	return out
}

// c10RunShim: k requests, the plan of deliveries; consumers read after everything was delivered.
func c10RunShim(k int, pagesPer []int, plan []c10Step, maxPending int) string {
	ctx, cancel := context.WithCancel(context.Background())
	defer cancel()
	h := client.NewVerifInFlight(ctx, k+2, maxPending, time.Hour)
	defer h.Close()
	v := primitive.ProtocolVersionDse2
	reqs := make([]client.InFlightRequest, k)
	ids := make([]int16, k)
	for i := range reqs {
		f := reqFrame(client.ManagedStreamId)
		r, err := h.Enqueue(f)
		if err != nil {
			return fmt.Sprintf("send %d of %d refused: %v", i, k, err)
		}
		reqs[i], ids[i] = r, f.Header.StreamId
	}
	want := make([][]string, k)
	sent := make([]int, k)
	for si, st := range plan {
		if st.Req < 0 {
			if err := h.Deliver(taggedFinal(v, 12345, "spurious")); err == nil {
				return fmt.Sprintf("step %d: response for an unknown stream id was accepted", si)
			}
			continue
		}
		i := st.Req
		sent[i]++
		tag := fmt.Sprintf("r%d.p%d", i, sent[i])
		var f *frame.Frame
		if pagesPer[i] == 1 {
			f = taggedFinal(v, ids[i], tag)
		} else {
			f = taggedPage(v, ids[i], tag, pageNumber(i, sent[i]), sent[i] == pagesPer[i])
		}
		if err := h.Deliver(f); err != nil {
			return fmt.Sprintf("step %d: response %s for in-flight stream id %d rejected: %v", si, tag, ids[i], err)
		}
		want[i] = append(want[i], tag)
	}
	for i, r := range reqs {
		var got []string
		complete := sent[i] == pagesPer[i]
		for len(got) < len(want[i]) {
			select {
			case f, ok := <-r.Incoming():
				if !ok {
					return fmt.Sprintf("request %d (stream %d): channel closed after %v, expected %v", i, ids[i], got, want[i])
				}
				got = append(got, tagOf(f))
			case <-time.After(5 * time.Second):
				return fmt.Sprintf("request %d (stream %d): received %v, expected %v", i, ids[i], got, want[i])
			}
		}
		if strings.Join(got, ",") != strings.Join(want[i], ",") {
			return fmt.Sprintf("request %d (stream %d): received %v, expected %v", i, ids[i], got, want[i])
		}
		if complete {
			select {
			case f, ok := <-r.Incoming():
				if ok {
					return fmt.Sprintf("request %d: extra frame %s after its last page", i, tagOf(f))
				}
			case <-time.After(5 * time.Second):
				return fmt.Sprintf("request %d: channel not closed after the last page", i)
			}
			if !r.IsDone() || r.Err() != nil {
				return fmt.Sprintf("request %d completed normally but IsDone=%v Err=%v", i, r.IsDone(), r.Err())
			}
		} else {
			select {
			case f, ok := <-r.Incoming():
				if ok {
					return fmt.Sprintf("request %d: extra frame %s", i, tagOf(f))
				}
				return fmt.Sprintf("request %d: channel closed before its last page (Err=%v)", i, r.Err())
			default:
			}
			if r.IsDone() {
				return fmt.Sprintf("request %d: IsDone before its last page", i)
			}
		}
	}
	return ""
}

func TestC10Permutations(t *testing.T) {
	rec := stats.For("C10")
	sh, nsh := shard()
	var n int64
	idx := 0
	for k := 1; k <= 5; k++ {
		pagesPer := make([]int, k)
		for i := range pagesPer {
			pagesPer[i] = 1
		}
		for _, perm := range permutations(k) {
			idx++
			if idx%nsh != sh {
				continue
			}
			plan := make([]c10Step, 0, k+1)
			for j, i := range perm {
				if j == k/2 {
					plan = append(plan, c10Step{Req: -1})
				}
				plan = append(plan, c10Step{Req: i, Last: true})
			}
			if fail := c10RunShim(k, pagesPer, plan, 10); fail != "" {
				rec.Violation("permutation", map[string]interface{}{"k": k, "order": perm, "fail": fail})
				t.Errorf("k=%d order %v: %s", k, perm, fail)
				return
			}
			n++
		}
	}
	rec.Bulk(n, n, "all-answer-orders-k<=5")
	rec.Exhaustive("answer orders for k=1..5 outstanding requests (this shard's share)", n)
	rec.AddSample("k=4 requests answered in order [2 0 3 1] with a spurious response for stream 12345 in the middle")
}

func c10Shim(rt *rapid.T) {
	rec := stats.For("C10")
	k := rapid.IntRange(1, 12).Draw(rt, "k")
	maxPending := rapid.IntRange(1, 10).Draw(rt, "maxPending")
	pagesPer := make([]int, k)
	var pool []int
	for i := range pagesPer {
		pagesPer[i] = 1
		if rapid.IntRange(0, 2).Draw(rt, fmt.Sprintf("multi%d", i)) == 0 {
			pagesPer[i] = rapid.IntRange(1, maxPending).Draw(rt, fmt.Sprintf("pages%d", i))
		}
		deliver := pagesPer[i]
		if rapid.IntRange(0, 5).Draw(rt, fmt.Sprintf("partial%d", i)) == 0 {
			deliver = rapid.IntRange(0, pagesPer[i]).Draw(rt, fmt.Sprintf("deliver%d", i))
		}
		for p := 0; p < deliver; p++ {
			pool = append(pool, i)
		}
	}
	for s := rapid.IntRange(0, 2).Draw(rt, "spurious"); s > 0; s-- {
		pool = append(pool, -1)
	}
	// a generated interleaving of the pool (order within one request is page order by construction)
	order := rapid.Permutation(pool).Draw(rt, "order")
	plan := make([]c10Step, len(order))
	for i, r := range order {
		plan[i] = c10Step{Req: r}
	}
	if fail := c10RunShim(k, pagesPer, plan, maxPending); fail != "" {
		rt.Fatalf("k=%d pages=%v order=%v maxPending=%d: %s", k, pagesPer, order, maxPending, fail)
	}
	multi := false
	for _, p := range pagesPer {
		if p > 1 {
			multi = true
		}
	}
	rec.Case(k >= 2 || multi, stats.HashString(fmt.Sprintf("%d/%v/%v", k, pagesPer, order)), func() string {
		return fmt.Sprintf("shim: k=%d pages per request=%v delivery order=%v maxPending=%d", k, pagesPer, order, maxPending)
	}, "shim", fmt.Sprintf("multipage:%v", multi))
}

func TestC10Shim(t *testing.T) { rapid.Check(t, c10Shim) }

// ---------------------------------------------------------------------------------------------------------------
// socket level

type c10Spec struct {
	Version     int
	Compression string
	K           int
	Senders     int   // concurrent sender goroutines
	Order       []int // answer order (indices of requests); -1 = EVENT (stream id -1), -2 = spurious response, -3 = EVENT carrying the stream id of a request still awaiting a response, -4 = EVENT with an unused stream id
	PagesPer    []int // pages per request (DSE versions only may be > 1)
	Batch       bool  // v5: all responses in as few segments as possible
	MaxPending  int
	Ready       []bool // request i is answered by a READY (an envelope that is nothing but a header) instead of a tagged result
}

func c10Session(args []string, _ []byte) string {
	var spec c10Spec
	if err := json.Unmarshal([]byte(args[0]), &spec); err != nil {
		return "FAIL: harness: " + err.Error()
	}
	v := primitive.ProtocolVersion(spec.Version)
	const T = 10 * time.Second
	ln, err := net.Listen("tcp", "127.0.0.1:0")
	if err != nil {
		return "FAIL: harness: " + err.Error()
	}
	defer ln.Close()
	nEvents := 0
	for _, o := range spec.Order {
		if o == -1 || o == -3 || o == -4 {
			nEvents++
		}
	}
	peer := make(chan string, 1)
	written := make(chan struct{}) // closed once the raw peer has written everything it was going to write
	go func() {
		c, err := ln.Accept()
		if err != nil {
			peer <- "harness: accept: " + err.Error()
			return
		}
		defer c.Close()
		l := newRawLink(c)
		l.setDeadline(3 * T)
		if _, err := l.serverHandshake(false); err != nil {
			peer <- "raw server: " + err.Error()
			return
		}
		streamOf := map[int]int16{}
		for len(streamOf) < spec.K {
			e, err := l.readEnvelope()
			if err != nil {
				peer <- fmt.Sprintf("raw server: after %d requests: %v", len(streamOf), err)
				return
			}
			// QUERY body: [long string] "q<i>"
			if e.OpCode != 0x07 || len(e.Body) < 5 {
				peer <- fmt.Sprintf("raw server: unexpected envelope opcode %#x", e.OpCode)
				return
			}
			n := int(binary.BigEndian.Uint32(e.Body[:4]))
			var i int
			if _, err := fmt.Sscanf(string(e.Body[4:4+n]), "q%d", &i); err != nil {
				peer <- "raw server: cannot read the request tag"
				return
			}
			if _, dup := streamOf[i]; dup {
				peer <- fmt.Sprintf("raw server: request %d arrived twice", i)
				return
			}
			for j, s := range streamOf {
				if s == e.Stream {
					peer <- fmt.Sprintf("requests %d and %d are in flight with the same stream id %d", j, i, s)
					return
				}
			}
			streamOf[i] = e.Stream
		}
		sent := make([]int, spec.K)
		evNo := 0
		var out [][]byte
		flush := func() bool {
			if len(out) == 0 {
				return true
			}
			if err := l.writeEnvelopes(out, spec.Compression != "", nil, true); err != nil {
				peer <- "raw server: write: " + err.Error()
				return false
			}
			out = nil
			return true
		}
		for _, o := range spec.Order {
			var f *frame.Frame
			switch {
			case o == -1 || o == -3 || o == -4:
				// an EVENT is recognised by its opcode; whatever stream id it carries it belongs on the event channel
				evNo++
				id := int16(-1)
				if o == -4 {
					id = -2
				} else if o == -3 {
					id = 99
					for j := 0; j < spec.K; j++ {
						if sent[j] < spec.PagesPer[j] {
							id = streamOf[j]
							break
						}
					}
				}
				f = frame.NewFrame(v, id, &message.StatusChangeEvent{ChangeType: primitive.StatusChangeTypeUp, Address: &primitive.Inet{Addr: net.IPv4(10, 0, 0, byte(evNo)), Port: int32(evNo)}})
			case o == -2:
				unused := int16(30000)
				f = taggedFinal(v, unused, "spurious")
			default:
				sent[o]++
				tag := fmt.Sprintf("r%d.p%d", o, sent[o])
				if spec.PagesPer[o] == 1 && o < len(spec.Ready) && spec.Ready[o] {
					f = frame.NewFrame(v, streamOf[o], &message.Ready{})
				} else if spec.PagesPer[o] == 1 {
					f = taggedFinal(v, streamOf[o], tag)
				} else {
					f = taggedPage(v, streamOf[o], tag, pageNumber(o, sent[o]), sent[o] == spec.PagesPer[o])
				}
			}
			enc, err := ref.EncodeFrame(f)
			if err != nil {
				peer <- "harness: " + err.Error()
				return
			}
			out = append(out, enc.Flat(nil))
			if !spec.Batch && !flush() {
				return
			}
		}
		if !flush() {
			return
		}
		close(written)
		// keep the connection open until the client is done
		time.Sleep(50 * time.Millisecond)
		_, _ = l.readEnvelope()
		peer <- ""
	}()

	var handlerMu sync.Mutex
	var handled []string
	cl := client.NewCqlClient(ln.Addr().String(), nil)
	cl.Compression = compressionOf(spec.Compression)
	cl.ReadTimeout = T
	cl.MaxPending = spec.MaxPending
	cl.EventHandlers = []client.EventHandler{func(ev *frame.Frame, _ *client.CqlClientConnection) {
		handlerMu.Lock()
		defer handlerMu.Unlock()
		if m, ok := ev.Body.Message.(*message.StatusChangeEvent); ok {
			handled = append(handled, fmt.Sprint(m.Address.Port))
		} else {
			handled = append(handled, fmt.Sprintf("%T", ev.Body.Message))
		}
	}}
	ctx, cancel := context.WithCancel(context.Background())
	defer cancel()
	var cc *client.CqlClientConnection
	if err := within(T, "ConnectAndInit", func() (err error) { cc, err = cl.ConnectAndInit(ctx, v, client.ManagedStreamId); return }); err != nil {
		return "FAIL: handshake with the raw server failed: " + err.Error()
	}
	defer cc.Close()
	reqs := make([]client.InFlightRequest, spec.K)
	var wg sync.WaitGroup
	errs := make(chan string, spec.K)
	for g := 0; g < spec.Senders; g++ {
		wg.Add(1)
		go func(g int) {
			defer wg.Done()
			for i := g; i < spec.K; i += spec.Senders {
				r, err := cc.Send(frame.NewFrame(v, client.ManagedStreamId, &message.Query{Query: fmt.Sprintf("q%d", i)}))
				if err != nil {
					errs <- fmt.Sprintf("Send %d failed: %v", i, err)
					return
				}
				reqs[i] = r
			}
		}(g)
	}
	wg.Wait()
	select {
	case e := <-errs:
		return "FAIL: " + e
	default:
	}
	expected := make([][]string, spec.K)
	cnt := make([]int, spec.K)
	for _, o := range spec.Order {
		if o >= 0 {
			cnt[o]++
			if spec.PagesPer[o] == 1 && o < len(spec.Ready) && spec.Ready[o] {
				expected[o] = append(expected[o], "ready")
			} else {
				expected[o] = append(expected[o], fmt.Sprintf("r%d.p%d", o, cnt[o]))
			}
		}
	}
	for i, r := range reqs {
		var got []string
		for {
			var f *frame.Frame
			var rerr error
			if err := within(T+time.Second, "Receive", func() error { f, rerr = cc.Receive(r); return nil }); err != nil {
				return fmt.Sprintf("FAIL: request %d (stream %d): Receive blocked; got %v, expected %v", i, r.StreamId(), got, expected[i])
			}
			if rerr != nil {
				if cnt[i] < spec.PagesPer[i] {
					break // incomplete by construction: it ends with the read timeout, fine
				}
				return fmt.Sprintf("FAIL: request %d (stream %d): %v; got %v, expected %v", i, r.StreamId(), rerr, got, expected[i])
			}
			if f == nil {
				break
			}
			got = append(got, tagOf(f))
			if f.Header.StreamId != r.StreamId() {
				return fmt.Sprintf("FAIL: request %d with stream id %d was handed a frame with stream id %d", i, r.StreamId(), f.Header.StreamId)
			}
			if len(got) == len(expected[i]) && cnt[i] < spec.PagesPer[i] {
				break
			}
		}
		if strings.Join(got, ",") != strings.Join(expected[i], ",") {
			return fmt.Sprintf("FAIL: request %d (stream %d) received %v, expected %v (answer order %v)", i, r.StreamId(), got, expected[i], spec.Order)
		}
		if cnt[i] == spec.PagesPer[i] && (!r.IsDone() || r.Err() != nil) {
			return fmt.Sprintf("FAIL: request %d completed but IsDone=%v Err=%v", i, r.IsDone(), r.Err())
		}
	}
	// events: on the channel, in order, and through the handler
	var evs []string
	for len(evs) < nEvents {
		select {
		case ev, ok := <-cc.EventChannel():
			if !ok {
				return fmt.Sprintf("FAIL: event channel closed after %d of %d events", len(evs), nEvents)
			}
			if ev.Header.OpCode != primitive.OpCodeEvent {
				return fmt.Sprintf("FAIL: a non-event frame (opcode %v, %s) was delivered on the event channel", ev.Header.OpCode, tagOf(ev))
			}
			evs = append(evs, fmt.Sprint(ev.Body.Message.(*message.StatusChangeEvent).Address.Port))
		case <-time.After(T):
			return fmt.Sprintf("FAIL: only %d of %d events arrived on the event channel", len(evs), nEvents)
		}
	}
	select {
	case ev := <-cc.EventChannel():
		if ev != nil {
			return "FAIL: an extra frame appeared on the event channel: " + tagOf(ev)
		}
	default:
	}
	for i, e := range evs {
		if e != fmt.Sprint(i+1) {
			return fmt.Sprintf("FAIL: events arrived out of order: %v", evs)
		}
	}
	handlerMu.Lock()
	hs := strings.Join(handled, ",")
	handlerMu.Unlock()
	if hs != strings.Join(evs, ",") {
		return fmt.Sprintf("FAIL: event handlers saw [%s], the event channel delivered %v", hs, evs)
	}
	// the client has seen everything it expects; trailing frames it does not wait for (spurious responses) may still be
	// on their way: let the peer finish writing before the connection is closed under it
	select {
	case <-written:
	case p := <-peer:
		if p != "" {
			return "FAIL: " + p
		}
	case <-time.After(T):
		return "FAIL: harness: raw server did not finish writing"
	}
	_ = cc.Close()
	select {
	case p := <-peer:
		if p != "" {
			return "FAIL: " + p
		}
	case <-time.After(T):
	}
	return "OK"
}

func init() { workerHandlers["c10session"] = c10Session }

func c10Socket(rt *rapid.T) {
	rec := stats.For("C10")
	v := rapid.SampledFrom(allVersions).Draw(rt, "version")
	comps := []string{"", "LZ4", "SNAPPY"}
	if v == primitive.ProtocolVersion5 {
		comps = []string{"", "LZ4"}
	}
	spec := c10Spec{Version: int(v), Compression: rapid.SampledFrom(comps).Draw(rt, "compression"), K: rapid.IntRange(1, 10).Draw(rt, "k"),
		Batch: rapid.Bool().Draw(rt, "batch"), MaxPending: rapid.IntRange(1, 8).Draw(rt, "maxPending")}
	if v == primitive.ProtocolVersion2 && spec.K > 100 {
		spec.K = 100
	}
	spec.Senders = rapid.IntRange(1, min(4, spec.K)).Draw(rt, "senders")
	var pool []int
	spec.PagesPer = make([]int, spec.K)
	for i := range spec.PagesPer {
		spec.PagesPer[i] = 1
		if (v == primitive.ProtocolVersionDse1 || v == primitive.ProtocolVersionDse2) && rapid.IntRange(0, 2).Draw(rt, fmt.Sprintf("multi%d", i)) == 0 {
			spec.PagesPer[i] = rapid.IntRange(2, max(2, spec.MaxPending)).Draw(rt, fmt.Sprintf("pages%d", i))
			if spec.PagesPer[i] > spec.MaxPending {
				spec.PagesPer[i] = spec.MaxPending
			}
			if spec.PagesPer[i] < 1 {
				spec.PagesPer[i] = 1
			}
		}
		for p := 0; p < spec.PagesPer[i]; p++ {
			pool = append(pool, i)
		}
	}
	spec.Ready = make([]bool, spec.K)
	for i := range spec.Ready {
		spec.Ready[i] = spec.PagesPer[i] == 1 && rapid.IntRange(0, 4).Draw(rt, fmt.Sprintf("ready%d", i)) == 0
	}
	for e := rapid.IntRange(0, 3).Draw(rt, "events"); e > 0; e-- {
		pool = append(pool, rapid.SampledFrom([]int{-1, -1, -3, -4}).Draw(rt, "eventStreamId"))
	}
	for s := rapid.IntRange(0, 2).Draw(rt, "spurious"); s > 0; s-- {
		pool = append(pool, -2)
	}
	spec.Order = rapid.Permutation(pool).Draw(rt, "order")
	sj, _ := json.Marshal(spec)
	if os.Getenv("VERIF_TRACE") != "" {
		fmt.Fprintf(os.Stderr, "TRACE %s c10session %s\n", time.Now().Format("15:04:05"), sj)
	}
	verdict := isolated("c10session", []string{string(sj)}, nil)
	verdict = harnessTrouble(verdict)
	if strings.HasPrefix(verdict, "FAIL:") {
		rt.Fatalf("%s\nspec %s", verdict, sj)
	}
	if strings.HasPrefix(verdict, "SKIP:") {
		rec.Case(false, 0, nil, "skipped")
		return
	}
	rec.Case(spec.K >= 2 || len(pool) > spec.K, stats.HashString(string(sj)), func() string { return "socket: " + string(sj) }, "socket", fmt.Sprintf("version:%d", v), fmt.Sprintf("batch:%v", spec.Batch))
}

func TestC10Socket(t *testing.T) { rapid.Check(t, c10Socket) }
