package props

// Worker subprocesses (DESIGN.md 2.3): calls that can exhaust memory, overflow the stack or hang are executed in a
// child process (this same test binary with VERIF_WORKER=1) under an address-space limit. The parent relays the
// generated input; the oracle runs in the child and returns a verdict string. If the child dies the parent classifies
// the death from its stderr: out-of-memory => resource exhaustion (counted, not a violation: the properties do not
// bound memory use), any other fatal signature => violation; no answer within the time limit => hang (violation only
// if the single case hangs again in a fresh worker).

import (
	"bufio"
	"bytes"
	"encoding/binary"
	"encoding/json"
	"fmt"
	"io"
	"os"
	"os/exec"
	"strings"
	"sync"
	"syscall"
	"time"
)

const workerMemLimit = 3 << 30 // bytes of address space per worker

type workerReq struct {
	Op   string   `json:"op"`
	Args []string `json:"args"`
	Data []byte   `json:"data"`
}

// handlers run in the worker. Return "" for pass, "FAIL: ..." for a violation, "SKIP: ..." for not judged.
var workerHandlers = map[string]func(args []string, data []byte) string{}

func workerMain() {
	lim := syscall.Rlimit{Cur: workerMemLimit, Max: workerMemLimit}
	_ = syscall.Setrlimit(syscall.RLIMIT_AS, &lim)
	in := bufio.NewReaderSize(os.Stdin, 1<<20)
	out := bufio.NewWriter(os.Stdout)
	for {
		var l [4]byte
		if _, err := io.ReadFull(in, l[:]); err != nil {
			return
		}
		buf := make([]byte, binary.BigEndian.Uint32(l[:]))
		if _, err := io.ReadFull(in, buf); err != nil {
			return
		}
		var req workerReq
		if err := json.Unmarshal(buf, &req); err != nil {
			return
		}
		h := workerHandlers[req.Op]
		resp := "FAIL: unknown worker op " + req.Op
		if h != nil {
			resp = h(req.Args, req.Data)
		}
		binary.BigEndian.PutUint32(l[:], uint32(len(resp)))
		out.Write(l[:])
		out.WriteString(resp)
		out.Flush()
	}
}

type worker struct {
	cmd    *exec.Cmd
	stdin  io.WriteCloser
	stdout *bufio.Reader
	stderr *bytes.Buffer
	mu     sync.Mutex
}

func startWorker() (*worker, error) {
	cmd := exec.Command(os.Args[0], "-test.run", "^TestNothing$")
	cmd.Env = append(os.Environ(), "VERIF_WORKER=1", "GOMAXPROCS=2", "GOTRACEBACK=single")
	w := &worker{cmd: cmd, stderr: &bytes.Buffer{}}
	var err error
	if w.stdin, err = cmd.StdinPipe(); err != nil {
		return nil, err
	}
	so, err := cmd.StdoutPipe()
	if err != nil {
		return nil, err
	}
	w.stdout = bufio.NewReaderSize(so, 1<<20)
	cmd.Stderr = w.stderr
	if err := cmd.Start(); err != nil {
		return nil, err
	}
	return w, nil
}

func (w *worker) kill() {
	if w != nil && w.cmd != nil && w.cmd.Process != nil {
		_ = w.cmd.Process.Kill()
		_, _ = w.cmd.Process.Wait()
	}
}

type callStatus int

const (
	callOK callStatus = iota
	callResource
	callCrash
	callHang
)

// pool of one worker per test process (rapid runs properties sequentially).
var (
	theWorker   *worker
	workerMu    sync.Mutex
	workerCalls int
)

func shutdownWorker() {
	workerMu.Lock()
	defer workerMu.Unlock()
	if theWorker != nil {
		theWorker.stdin.Close()
		theWorker.kill()
		theWorker = nil
	}
}

// callWorker runs op in the worker. On death or hang it returns the classification and the stderr text.
func callWorker(op string, args []string, data []byte, timeout time.Duration) (resp string, st callStatus, detail string) {
	workerMu.Lock()
	defer workerMu.Unlock()
	if theWorker == nil {
		w, err := startWorker()
		if err != nil {
			return "", callCrash, "cannot start worker: " + err.Error()
		}
		theWorker = w
	}
	w := theWorker
	workerCalls++
	req, _ := json.Marshal(workerReq{Op: op, Args: args, Data: data})
	type result struct {
		resp string
		err  error
	}
	ch := make(chan result, 1)
	go func() {
		var l [4]byte
		binary.BigEndian.PutUint32(l[:], uint32(len(req)))
		if _, err := w.stdin.Write(append(l[:], req...)); err != nil {
			ch <- result{"", err}
			return
		}
		if _, err := io.ReadFull(w.stdout, l[:]); err != nil {
			ch <- result{"", err}
			return
		}
		buf := make([]byte, binary.BigEndian.Uint32(l[:]))
		if _, err := io.ReadFull(w.stdout, buf); err != nil {
			ch <- result{"", err}
			return
		}
		ch <- result{string(buf), nil}
	}()
	select {
	case r := <-ch:
		if r.err == nil {
			return r.resp, callOK, ""
		}
		// worker died
		_ = w.cmd.Wait()
		text := w.stderr.String()
		theWorker = nil
		if strings.Contains(text, "out of memory") || strings.Contains(text, "cannot allocate memory") || strings.Contains(text, "failed to reserve") || strings.Contains(text, "errno=12") {
			return "", callResource, lastLines(text, 12)
		}
		return "", callCrash, lastLines(text, 60)
	case <-time.After(timeout):
		// take a goroutine dump, then kill
		_ = w.cmd.Process.Signal(syscall.SIGQUIT)
		time.Sleep(300 * time.Millisecond)
		w.kill()
		text := w.stderr.String()
		theWorker = nil
		return "", callHang, lastLines(text, 80)
	}
}

func lastLines(s string, n int) string {
	lines := strings.Split(strings.TrimRight(s, "\n"), "\n")
	if len(lines) > n {
		// keep the head (fatal error line) and the tail
		head := lines[:n/2]
		tail := lines[len(lines)-n/2:]
		return strings.Join(head, "\n") + "\n...\n" + strings.Join(tail, "\n")
	}
	return strings.Join(lines, "\n")
}

// isolated runs op in the worker and interprets the outcome for a property: returns the verdict ("" pass,
// "FAIL: ..", "SKIP: ..") - worker death by memory exhaustion is "SKIP: resource", a crash or a reproducible hang is a
// failure carrying the stderr signature.
func isolated(op string, args []string, data []byte) string {
	resp, st, detail := callWorker(op, args, data, 60*time.Second)
	switch st {
	case callOK:
		return resp
	case callResource:
		return "SKIP: resource exhaustion in worker (not a stated failure mode): " + firstLine(detail)
	case callCrash:
		return fmt.Sprintf("FAIL: worker process died (not an out-of-memory death) while running %s %s:\n%s", op, clipS(fmt.Sprint(args)), detail)
	default:
		// confirm the hang on a fresh worker before believing it
		_, st2, detail2 := callWorker(op, args, data, 60*time.Second)
		if st2 == callHang {
			return fmt.Sprintf("FAIL: %s %s did not return within 60 s, twice (goroutine dump):\n%s", op, clipS(fmt.Sprint(args)), detail2)
		}
		return "SKIP: one slow run, not reproduced"
	}
}

func firstLine(s string) string {
	if i := strings.IndexByte(s, '\n'); i >= 0 {
		return s[:i]
	}
	return s
}
