package props

// Worker subprocesses (DESIGN.md 2.3): calls that can exhaust memory, overflow the stack or hang are executed in a
// child process (this same test binary with VERIF_WORKER=1) under an address-space limit. The parent relays the
// generated input; the oracle runs in the child and returns a verdict string. If the child dies the parent classifies
// the death from its stderr: out-of-memory => resource exhaustion (counted, not a violation: the properties do not
// bound memory use), any other fatal signature => violation; no answer within the time limit => hang (violation only
// if the single case hangs again in a fresh worker).

import (
	"bufio"
	"bytes"
	"encoding/binary"
	"encoding/json"
	"fmt"
	"io"
	"os"
	"os/exec"
	"strconv"
	"strings"
	"sync"
	"syscall"
	"testing"
	"time"
)

const workerMemLimit = 3 << 30 // bytes of address space per worker

type workerReq struct {
	Op   string   `json:"op"`
	Args []string `json:"args"`
	Data []byte   `json:"data"`
}

// handlers run in the worker. Return "" for pass, "FAIL: ..." for a violation, "SKIP: ..." for not judged.
var workerHandlers = map[string]func(args []string, data []byte) string{}

func workerMain() {
	lim := syscall.Rlimit{Cur: workerMemLimit, Max: workerMemLimit}
	_ = syscall.Setrlimit(syscall.RLIMIT_AS, &lim)
	in := bufio.NewReaderSize(os.Stdin, 1<<20)
	out := bufio.NewWriter(os.Stdout)
	for {
		var l [4]byte
		if _, err := io.ReadFull(in, l[:]); err != nil {
			return
		}
		buf := make([]byte, binary.BigEndian.Uint32(l[:]))
		if _, err := io.ReadFull(in, buf); err != nil {
			return
		}
		var req workerReq
		if err := json.Unmarshal(buf, &req); err != nil {
			return
		}
		h := workerHandlers[req.Op]
		resp := "FAIL: unknown worker op " + req.Op
		if h != nil {
			resp = h(req.Args, req.Data)
		}
		binary.BigEndian.PutUint32(l[:], uint32(len(resp)))
		out.Write(l[:])
		out.WriteString(resp)
		out.Flush()
	}
}

type worker struct {
	cmd    *exec.Cmd
	stdin  io.WriteCloser
	stdout *bufio.Reader
	stderr *bytes.Buffer
	mu     sync.Mutex
}

func startWorker() (*worker, error) {
	cmd := exec.Command(os.Args[0], "-test.run", "^TestNothing$")
	cmd.Env = append(os.Environ(), "VERIF_WORKER=1", "GOMAXPROCS=2", "GOTRACEBACK=single")
	w := &worker{cmd: cmd, stderr: &bytes.Buffer{}}
	var err error
	if w.stdin, err = cmd.StdinPipe(); err != nil {
		return nil, err
	}
	so, err := cmd.StdoutPipe()
	if err != nil {
		return nil, err
	}
	w.stdout = bufio.NewReaderSize(so, 1<<20)
	cmd.Stderr = w.stderr
	if err := cmd.Start(); err != nil {
		return nil, err
	}
	return w, nil
}

func (w *worker) kill() {
	if w != nil && w.cmd != nil && w.cmd.Process != nil {
		_ = w.cmd.Process.Kill()
		_, _ = w.cmd.Process.Wait()
	}
}

type callStatus int

const (
	callOK callStatus = iota
	callResource
	callCrash
	callHang
	callSlow
)

// pool of one worker per test process (rapid runs properties sequentially).
var (
	theWorker   *worker
	workerMu    sync.Mutex
	workerCalls int
)

func shutdownWorker() {
	workerMu.Lock()
	defer workerMu.Unlock()
	if theWorker != nil {
		theWorker.stdin.Close()
		theWorker.kill()
		theWorker = nil
	}
}

// callWorker runs op in the worker. On death or hang it returns the classification and the stderr text.
func callWorker(op string, args []string, data []byte, timeout time.Duration) (resp string, st callStatus, detail string) {
	workerMu.Lock()
	defer workerMu.Unlock()
	if theWorker == nil {
		w, err := startWorker()
		if err != nil {
			return "", callCrash, "cannot start worker: " + err.Error()
		}
		theWorker = w
	}
	w := theWorker
	workerCalls++
	req, _ := json.Marshal(workerReq{Op: op, Args: args, Data: data})
	type result struct {
		resp string
		err  error
	}
	ch := make(chan result, 1)
	go func() {
		var l [4]byte
		binary.BigEndian.PutUint32(l[:], uint32(len(req)))
		if _, err := w.stdin.Write(append(l[:], req...)); err != nil {
			ch <- result{"", err}
			return
		}
		if _, err := io.ReadFull(w.stdout, l[:]); err != nil {
			ch <- result{"", err}
			return
		}
		buf := make([]byte, binary.BigEndian.Uint32(l[:]))
		if _, err := io.ReadFull(w.stdout, buf); err != nil {
			ch <- result{"", err}
			return
		}
		ch <- result{string(buf), nil}
	}()
	// Non-termination is judged on the worker's own CPU time, not on wall time alone (the machine may be busy): the call
	// is declared hung when it has BURNED `timeout` of CPU (a loop that does not end), or when `timeout` of wall time has
	// passed and it used less than a second of CPU during the last half of it (blocked for good). A call that is merely
	// slow under load keeps going, up to 10x timeout of wall time, after which it is given up as "slow" (not judged).
	start := time.Now()
	cpu0 := procCPU(w.cmd.Process.Pid)
	type sample struct {
		at  time.Time
		cpu time.Duration
	}
	var samples []sample
	tick := time.NewTicker(time.Second)
	defer tick.Stop()
	for {
		select {
		case r := <-ch:
			if r.err == nil {
				return r.resp, callOK, ""
			}
			// worker died
			_ = w.cmd.Wait()
			text := w.stderr.String()
			theWorker = nil
			if strings.Contains(text, "out of memory") || strings.Contains(text, "cannot allocate memory") || strings.Contains(text, "failed to reserve") || strings.Contains(text, "errno=12") {
				return "", callResource, lastLines(text, 12)
			}
			return "", callCrash, lastLines(text, 60)
		case now := <-tick.C:
			used := procCPU(w.cmd.Process.Pid) - cpu0
			samples = append(samples, sample{now, used})
			wall := now.Sub(start)
			verdict := callOK
			switch {
			case used >= timeout:
				verdict = callHang
			case wall >= timeout:
				// CPU used during the last timeout/2 of wall time
				recent := used
				for _, sm := range samples {
					if now.Sub(sm.at) <= timeout/2 {
						recent = used - sm.cpu
						break
					}
				}
				if recent < time.Second {
					verdict = callHang
				} else if wall >= 10*timeout {
					verdict = callSlow
				}
			}
			if verdict == callOK {
				continue
			}
			// take a goroutine dump, then kill
			_ = w.cmd.Process.Signal(syscall.SIGQUIT)
			time.Sleep(300 * time.Millisecond)
			w.kill()
			text := w.stderr.String()
			theWorker = nil
			return "", verdict, fmt.Sprintf("(wall %v, worker CPU %v)\n%s", wall.Round(time.Second), used.Round(time.Millisecond), lastLines(text, 80))
		}
	}
}

// procCPU: user+system CPU time consumed so far by process pid (0 if it cannot be read).
func procCPU(pid int) time.Duration {
	b, err := os.ReadFile(fmt.Sprintf("/proc/%d/stat", pid))
	if err != nil {
		return 0
	}
	s := string(b)
	i := strings.LastIndexByte(s, ')') // the command name may contain spaces
	if i < 0 {
		return 0
	}
	f := strings.Fields(s[i+1:])
	if len(f) < 13 {
		return 0
	}
	ut, _ := strconv.ParseInt(f[11], 10, 64) // fields 14 and 15 of the line
	st, _ := strconv.ParseInt(f[12], 10, 64)
	return time.Duration(ut+st) * time.Second / 100 // USER_HZ is 100 on Linux
}

func lastLines(s string, n int) string {
	lines := strings.Split(strings.TrimRight(s, "\n"), "\n")
	if len(lines) > n {
		// keep the head (fatal error line) and the tail
		head := lines[:n/2]
		tail := lines[len(lines)-n/2:]
		return strings.Join(head, "\n") + "\n...\n" + strings.Join(tail, "\n")
	}
	return strings.Join(lines, "\n")
}

// isolated runs op in the worker and interprets the outcome for a property: returns the verdict ("" pass,
// "FAIL: ..", "SKIP: ..") - worker death by memory exhaustion is "SKIP: resource", a crash or a reproducible hang is a
// failure carrying the stderr signature.
func isolated(op string, args []string, data []byte) string {
	return isolatedWithin(60*time.Second, op, args, data)
}

// isolatedWithin: as isolated, with another budget for "does not return" (a batched call legitimately burns more CPU than
// a single decode).
func isolatedWithin(budget time.Duration, op string, args []string, data []byte) string {
	resp, st, detail := callWorker(op, args, data, budget)
	switch st {
	case callOK:
		return resp
	case callResource:
		return "SKIP: resource exhaustion in worker (not a stated failure mode): " + firstLine(detail)
	case callCrash:
		return fmt.Sprintf("FAIL: worker process died (not an out-of-memory death) while running %s %s:\n%s", op, clipS(fmt.Sprint(args)), detail)
	case callSlow:
		return "SKIP: slow run on a busy machine, given up after 10 minutes without a verdict: " + firstLine(detail)
	default:
		// confirm the hang on a fresh worker before believing it
		_, st2, detail2 := callWorker(op, args, data, budget)
		if st2 == callHang {
			return fmt.Sprintf("FAIL: %s %s did not return (%v of CPU burned, or %v elapsed with the worker idle), twice (goroutine dump):\n%s", op, clipS(fmt.Sprint(args)), budget, budget, detail2)
		}
		return "SKIP: one slow run, not reproduced"
	}
}

func firstLine(s string) string {
	if i := strings.IndexByte(s, '\n'); i >= 0 {
		return s[:i]
	}
	return s
}

// self-test of the non-termination rule (run with VERIF_SELFTEST=1): a busy loop and a blocked call must both be reported,
// a call that finishes must not.
func init() {
	workerHandlers["selfhang"] = func(args []string, _ []byte) string {
		switch args[0] {
		case "busy":
			for x := 0; ; x++ {
				if x < 0 {
					return "impossible"
				}
			}
		case "blocked":
			select {}
		}
		return "OK"
	}
}

func TestWorkerHangRule(t *testing.T) {
	if os.Getenv("VERIF_SELFTEST") == "" {
		t.Skip("self-test only")
	}
	for _, mode := range []string{"finishes", "busy", "blocked"} {
		t0 := time.Now()
		v := isolated("selfhang", []string{mode}, nil)
		t.Logf("%s: %v -> %s", mode, time.Since(t0).Round(time.Second), firstLine(v))
		if (mode == "finishes") != (v == "OK") || (mode != "finishes" && !strings.HasPrefix(v, "FAIL:")) {
			t.Errorf("%s: unexpected verdict %s", mode, firstLine(v))
		}
	}
}

// runFreshWorker runs one call in a process of its own (nothing has been initialised in it yet) and returns the response,
// what the process wrote to stderr (race reports, fatal errors) and how it exited.
func runFreshWorker(op string, args []string, data []byte, gomaxprocs int, timeout time.Duration) (resp, stderr string, err error) {
	cmd := exec.Command(os.Args[0], "-test.run", "^TestNothing$")
	cmd.Env = append(os.Environ(), "VERIF_WORKER=1", fmt.Sprintf("GOMAXPROCS=%d", gomaxprocs), "GOTRACEBACK=single")
	req, _ := json.Marshal(workerReq{Op: op, Args: args, Data: data})
	var l [4]byte
	binary.BigEndian.PutUint32(l[:], uint32(len(req)))
	cmd.Stdin = bytes.NewReader(append(l[:], req...))
	var so, se bytes.Buffer
	cmd.Stdout, cmd.Stderr = &so, &se
	if err := cmd.Start(); err != nil {
		return "", "", err
	}
	done := make(chan error, 1)
	go func() { done <- cmd.Wait() }()
	select {
	case err = <-done:
	case <-time.After(timeout):
		_ = cmd.Process.Kill()
		<-done
		return "", se.String(), fmt.Errorf("fresh worker did not finish within %v", timeout)
	}
	out := so.Bytes()
	if len(out) >= 4 {
		n := int(binary.BigEndian.Uint32(out[:4]))
		if 4+n <= len(out) {
			resp = string(out[4 : 4+n])
		}
	}
	return resp, se.String(), err
}
