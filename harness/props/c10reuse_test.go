package props

// C10, a stream id used again: request after request on the SAME stream id (caller-chosen, or managed with a limit of one),
// each answered by 0..3 non-final pages and a final response, every frame tagged with its round. Each round's frames must
// reach that round's request and nobody else's - whatever the handler remembers about the previous owner of the id. At the
// end pages that were handed over but not yet read when the connection closes must still be readable, in order.

import (
	"context"
	"fmt"
	"testing"
	"time"

	"github.com/datastax/go-cassandra-native-protocol/client"
	"github.com/datastax/go-cassandra-native-protocol/frame"
	"github.com/datastax/go-cassandra-native-protocol/message"
	"github.com/datastax/go-cassandra-native-protocol/primitive"
	"pgregory.net/rapid"

	"verifharness/stats"
)

func c10Reuse(rt *rapid.T) {
	rec := stats.For("C10")
	v := rapid.SampledFrom([]primitive.ProtocolVersion{primitive.ProtocolVersionDse1, primitive.ProtocolVersionDse2}).Draw(rt, "version")
	explicit := rapid.Bool().Draw(rt, "explicitId")
	limit := 1
	if explicit {
		limit = rapid.IntRange(1, 3).Draw(rt, "limit")
	}
	ctx, cancel := context.WithCancel(context.Background())
	defer cancel()
	h := client.NewVerifInFlight(ctx, limit, 8, time.Hour)
	defer h.Close()
	id := int16(client.ManagedStreamId)
	if explicit {
		id = rapid.SampledFrom([]int16{1, 2, 77, -5, 32767}).Draw(rt, "id")
	}
	rounds := rapid.IntRange(2, 4).Draw(rt, "rounds")
	read := func(r client.InFlightRequest, want string, round int) {
		select {
		case f, ok := <-r.Incoming():
			if !ok {
				rt.Fatalf("round %d on stream id %d: the request was closed (Err=%v) before it received %q", round, r.StreamId(), r.Err(), want)
			}
			if got := tagOf(f); got != want {
				rt.Fatalf("round %d on stream id %d: the request received %q, want %q (a frame of another round)", round, r.StreamId(), got, want)
			}
		case <-time.After(5 * time.Second):
			rt.Fatalf("round %d on stream id %d: %q was not delivered to the request of this round", round, r.StreamId(), want)
		}
	}
	pagesTotal := 0
	for round := 1; round <= rounds; round++ {
		f := frame.NewFrame(v, id, &message.Query{Query: fmt.Sprintf("round %d", round)})
		req, err := h.Enqueue(f)
		if err != nil {
			rt.Fatalf("round %d: the stream id of a completely answered request was refused: %v", round, err)
		}
		sid := f.Header.StreamId
		pages := rapid.IntRange(0, 3).Draw(rt, fmt.Sprintf("pages%d", round))
		readLate := rapid.Bool().Draw(rt, fmt.Sprintf("readLate%d", round))
		for p := 1; p <= pages; p++ {
			tag := fmt.Sprintf("r%d-p%d", round, p)
			if err := h.Deliver(taggedPage(v, sid, tag, int32(p), false)); err != nil {
				rt.Fatalf("round %d: page %d of the request on stream id %d was refused: %v", round, p, sid, err)
			}
			if !readLate {
				read(req, tag, round)
			}
		}
		pagesTotal += pages
		var last *frame.Frame
		lastTag := fmt.Sprintf("r%d-final", round)
		if pages > 0 || rapid.Bool().Draw(rt, fmt.Sprintf("pagedFinal%d", round)) {
			last = taggedPage(v, sid, lastTag, int32(pages+1), true)
		} else {
			last = taggedFinal(v, sid, lastTag)
		}
		if err := h.Deliver(last); err != nil {
			rt.Fatalf("round %d: the final response of the request on stream id %d was refused: %v", round, sid, err)
		}
		if readLate {
			for p := 1; p <= pages; p++ {
				read(req, fmt.Sprintf("r%d-p%d", round, p), round)
			}
		}
		read(req, lastTag, round)
		select {
		case _, ok := <-req.Incoming():
			if ok {
				rt.Fatalf("round %d: a frame beyond the final response was delivered", round)
			}
		case <-time.After(5 * time.Second):
			rt.Fatalf("round %d: the request was not completed by its final response", round)
		}
		if !req.IsDone() || req.Err() != nil {
			rt.Fatalf("round %d: after the final response IsDone=%v Err=%v", round, req.IsDone(), req.Err())
		}
	}
	// pages handed over but not read yet when the connection goes away
	f := frame.NewFrame(v, id, &message.Query{Query: "last round"})
	req, err := h.Enqueue(f)
	if err != nil {
		rt.Fatalf("last round: refused: %v", err)
	}
	unread := rapid.IntRange(0, 4).Draw(rt, "unreadPages")
	for p := 1; p <= unread; p++ {
		if err := h.Deliver(taggedPage(v, f.Header.StreamId, fmt.Sprintf("u-p%d", p), int32(p), false)); err != nil {
			rt.Fatalf("last round: page %d refused: %v", p, err)
		}
	}
	cancel()
	h.Close()
	for p := 1; p <= unread; p++ {
		read(req, fmt.Sprintf("u-p%d", p), rounds+1)
	}
	select {
	case _, ok := <-req.Incoming():
		if ok {
			rt.Fatalf("last round: an extra frame after the %d pages", unread)
		}
	case <-time.After(5 * time.Second):
		rt.Fatalf("last round: the request was not completed when the connection closed")
	}
	if !req.IsDone() || req.Err() == nil {
		rt.Fatalf("last round: closed connection, IsDone=%v Err=%v (want done with an error)", req.IsDone(), req.Err())
	}
	rec.Case(true, stats.HashString(fmt.Sprintf("reuse/%d/%v/%d/%d/%d/%d", v, explicit, id, rounds, pagesTotal, unread)), func() string {
		return fmt.Sprintf("stream id %d used for %d requests in turn (explicit=%v, %d pages in all), then %d unread pages at close", id, rounds+1, explicit, pagesTotal, unread)
	}, "stream-id-reused", fmt.Sprintf("stream-id-reused:explicit=%v", explicit))
}

func TestC10Reuse(t *testing.T) { rapid.Check(t, c10Reuse) }
