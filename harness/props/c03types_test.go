package props

// C03, second use of a data type object: a type that appears in the column metadata of a frame is changed in place after
// the frame was encoded (ALTER TYPE ... ADD on a cached schema object, a list whose element type is replaced) and the frame
// is encoded again. Lengths must follow the object as it is now: LengthOfDataType equals the bytes WriteDataType writes,
// the header declares what was emitted, and the stream is consumed exactly.

import (
	"bytes"
	"encoding/binary"
	"fmt"
	"testing"

	"github.com/datastax/go-cassandra-native-protocol/datatype"
	"github.com/datastax/go-cassandra-native-protocol/frame"
	"github.com/datastax/go-cassandra-native-protocol/message"
	"github.com/datastax/go-cassandra-native-protocol/primitive"
	"pgregory.net/rapid"

	"verifharness/gen"
	"verifharness/stats"
)

func c03MutatedTypes(rt *rapid.T) {
	rec := stats.For("C03")
	v := rapid.SampledFrom([]primitive.ProtocolVersion{primitive.ProtocolVersion3, primitive.ProtocolVersion4, primitive.ProtocolVersion5, primitive.ProtocolVersionDse1, primitive.ProtocolVersionDse2}).Draw(rt, "version")
	nf := rapid.IntRange(1, 3).Draw(rt, "fields")
	names, types := []string{}, []datatype.DataType{}
	for i := 0; i < nf; i++ {
		names = append(names, fmt.Sprintf("f%d", i))
		types = append(types, gen.DataType(rt, v, 1, fmt.Sprintf("ft%d", i)))
	}
	udt, err := datatype.NewUserDefined("ks", rapid.StringMatching("[a-z_]{1,12}").Draw(rt, "udtName"), names, types)
	if err != nil {
		rt.Fatalf("harness defect: %v", err)
	}
	tuple := datatype.NewTuple(gen.DataType(rt, v, 1, "tf0"))
	list := datatype.NewList(datatype.Int)
	mp := datatype.NewMap(datatype.Varchar, datatype.Int)
	custom := datatype.NewCustom("org.example.First")
	var inner datatype.DataType
	which := rapid.SampledFrom([]string{"udt", "udt", "tuple", "list", "map", "custom"}).Draw(rt, "mutated")
	switch which {
	case "udt":
		inner = udt
	case "tuple":
		inner = tuple
	case "list":
		inner = list
	case "map":
		inner = mp
	default:
		inner = custom
	}
	var colType datatype.DataType = inner
	switch rapid.IntRange(0, 4).Draw(rt, "nesting") {
	case 1:
		colType = datatype.NewList(inner)
	case 2:
		colType = datatype.NewMap(datatype.Int, inner)
	case 3:
		colType = datatype.NewTuple(datatype.Int, inner)
	case 4:
		colType = datatype.NewSet(datatype.NewList(inner))
	}
	prepared := rapid.Bool().Draw(rt, "prepared")
	col := &message.ColumnMetadata{Keyspace: "ks", Table: "tb", Name: "c", Type: colType}
	var msg message.Message
	if prepared {
		msg = &message.PreparedResult{PreparedQueryId: []byte{1, 2}, VariablesMetadata: &message.VariablesMetadata{Columns: []*message.ColumnMetadata{col}},
			ResultMetadata: &message.RowsMetadata{ColumnCount: 1, Columns: []*message.ColumnMetadata{col}}}
		if v == primitive.ProtocolVersion5 || v == primitive.ProtocolVersionDse2 {
			msg.(*message.PreparedResult).ResultMetadataId = []byte{9}
		}
	} else {
		msg = &message.RowsResult{Metadata: &message.RowsMetadata{ColumnCount: 1, Columns: []*message.ColumnMetadata{col}}, Data: message.RowSet{}}
	}
	f := frame.NewFrame(v, 1, msg)
	codec := newRawCodec(compNone)
	h := hdrLen(v)
	check := func(phase string) {
		var tb bytes.Buffer
		if err := datatype.WriteDataType(colType, &tb, v); err != nil {
			rt.Fatalf("%s: WriteDataType: %v", phase, err)
		}
		if l, err := datatype.LengthOfDataType(colType, v); err != nil || l != tb.Len() {
			rt.Fatalf("%s: LengthOfDataType=%d (%v) but WriteDataType wrote %d bytes for %s", phase, l, err, tb.Len(), colType.AsCql())
		}
		enc, err := encodeFrame(codec, f)
		if err != nil {
			rt.Fatalf("%s: EncodeFrame: %v", phase, err)
		}
		if wire := int(int32(binary.BigEndian.Uint32(enc[h-4 : h]))); wire != len(enc)-h {
			rt.Fatalf("%s: the header declares a body of %d bytes but %d were emitted (column type %s, prepared=%v, v%d)", phase, wire, len(enc)-h, colType.AsCql(), prepared, v)
		}
		src := bytes.NewReader(append(append([]byte{}, enc...), 0xEE))
		if _, err := codec.DecodeRawFrame(src); err != nil || src.Len() != 1 {
			rt.Fatalf("%s: DecodeRawFrame on the frame followed by one more byte: err=%v, %d bytes left", phase, err, src.Len())
		}
		dec, err := codec.DecodeFrame(bytes.NewReader(enc))
		if err != nil {
			rt.Fatalf("%s: DecodeFrame: %v", phase, err)
		}
		if d := diffFrames(f, dec); d != "" {
			rt.Fatalf("%s: the frame does not round-trip: %s", phase, d)
		}
	}
	check("first encoding")
	switch which {
	case "udt":
		udt.FieldNames = append(udt.FieldNames, "added")
		udt.FieldTypes = append(udt.FieldTypes, gen.DataType(rt, v, 1, "addedType"))
	case "tuple":
		tuple.FieldTypes = append(tuple.FieldTypes, datatype.NewList(datatype.Varchar))
	case "list":
		list.ElementType = datatype.NewMap(datatype.Int, datatype.NewCustom("org.example.Element"))
	case "map":
		mp.ValueType = datatype.NewTuple(datatype.Int, datatype.Int, datatype.Int)
	default:
		custom.ClassName = "org.example.SecondAndMuchLongerClassName"
	}
	check("second encoding, after the " + which + " type was changed in place")
	rec.Case(true, stats.HashString(fmt.Sprintf("mutatedType/%s/%d/%v/%s", which, v, prepared, colType.AsCql())), func() string {
		return fmt.Sprintf("type changed in place between two encodings: %s now %s (v%d, prepared=%v)", which, colType.AsCql(), v, prepared)
	}, "type-mutated-in-place:"+which)
}

func TestC03MutatedTypes(t *testing.T) { rapid.Check(t, c03MutatedTypes) }
