package props

// C16, the server closed at the moment a new TCP connection is being accepted: the accept loop has created the connection
// object and is about to register it (hook point connections.accepted.beforeLock) when Close runs. Close must return, the
// half-accepted connection must go away, no goroutine may survive.

import (
	"context"
	"encoding/json"
	"fmt"
	"net"
	"strings"
	"sync"
	"testing"
	"time"

	"github.com/datastax/go-cassandra-native-protocol/client"
	"pgregory.net/rapid"

	"verifharness/stats"
)

type c16AcceptSpec struct {
	Conns   int  // TCP connections dialled; the first one is held at the hook point
	Pending bool // an Accept/AcceptAny call is waiting when the server closes
	DelayMs int  // how long Close is given before the held accept continues
}

func c16AcceptSession(args []string, _ []byte) string {
	var spec c16AcceptSpec
	if err := json.Unmarshal([]byte(args[0]), &spec); err != nil {
		return "FAIL: harness: " + err.Error()
	}
	const T = 10 * time.Second
	base, _ := clientGoroutines()
	srv := client.NewCqlServer("127.0.0.1:0", nil)
	if err := srv.Start(context.Background()); err != nil {
		return "FAIL: harness: server start: " + err.Error()
	}
	parked, release := make(chan struct{}), make(chan struct{})
	var once sync.Once
	client.SetVerifPoint(func(name string) {
		if name != "connections.accepted.beforeLock" {
			return
		}
		first := false
		once.Do(func() { first = true })
		if !first {
			return
		}
		close(parked)
		select { // bounded: a timeout only releases, it never decides a verdict
		case <-release:
		case <-time.After(3 * time.Second):
		}
	})
	defer client.SetVerifPoint(nil)
	var conns []net.Conn
	defer func() {
		for _, c := range conns {
			_ = c.Close()
		}
	}()
	for i := 0; i < spec.Conns; i++ {
		c, err := net.Dial("tcp", srv.VerifAddr().String())
		if err != nil {
			return "FAIL: harness: dial: " + err.Error()
		}
		conns = append(conns, c)
	}
	didPark := false
	select {
	case <-parked:
		didPark = true
	case <-time.After(time.Second): // this tree has no such hook point: plain order
	}
	if spec.Pending {
		go func() { _, _ = srv.AcceptAny() }()
		time.Sleep(2 * time.Millisecond)
	}
	closed := make(chan struct{})
	go func() { defer close(closed); _ = srv.Close() }()
	time.Sleep(time.Duration(spec.DelayMs) * time.Millisecond)
	close(release)
	select {
	case <-closed:
	case <-time.After(T):
		return fmt.Sprintf("FAIL: CqlServer.Close did not return within %v when it was called while a new TCP connection was being accepted (accept loop held before it registers the connection: %v, %d connections, AcceptAny pending: %v)", T, didPark, spec.Conns, spec.Pending)
	}
	for _, c := range conns {
		_ = c.Close()
	}
	deadline := time.Now().Add(T)
	for {
		left, sample := clientGoroutines()
		if left <= base {
			break
		}
		if time.Now().After(deadline) {
			return fmt.Sprintf("FAIL: %d goroutine(s) of the client package survive a server closed while it was accepting a connection, e.g.\n%s", left-base, clipS400(sample))
		}
		time.Sleep(10 * time.Millisecond)
	}
	if didPark {
		return "OK parked"
	}
	return "OK plain"
}

func init() { workerHandlers["c16accept"] = c16AcceptSession }

func c16CloseWhileAccepting(rt *rapid.T) {
	if !everyNth("c16CloseWhileAccepting", 2, 4) {
		return
	}
	defer noteFailure()
	rec := stats.For("C16")
	spec := c16AcceptSpec{Conns: rapid.IntRange(1, 3).Draw(rt, "connections"), Pending: rapid.Bool().Draw(rt, "acceptPending"), DelayMs: rapid.SampledFrom([]int{0, 1, 20, 60}).Draw(rt, "delayMs")}
	sj, _ := json.Marshal(spec)
	verdict := harnessTrouble(isolated("c16accept", []string{string(sj)}, nil))
	if strings.HasPrefix(verdict, "FAIL:") {
		rt.Fatalf("%s\nspec %s", verdict, sj)
	}
	if strings.HasPrefix(verdict, "SKIP:") {
		rec.Case(false, 0, nil, "skipped:close-while-accepting")
		return
	}
	rec.Case(strings.HasSuffix(verdict, "parked"), stats.HashString("accepting/"+string(sj)), func() string { return "server closed while accepting a connection: " + string(sj) + " -> " + verdict }, "close-while-accepting", "close-while-accepting:"+strings.TrimPrefix(verdict, "OK "))
}

func TestC16CloseWhileAccepting(t *testing.T) { rapid.Check(t, c16CloseWhileAccepting) }
