// Package ref holds reference implementations written from the specifications and format descriptions, sharing
// no code with the library under test or its dependencies (DESIGN.md 3.3, 3.6, 3.7).
package ref

import (
	"errors"
)

// ErrLZ4ZeroOffset: a match with offset 0, which the format forbids.
var ErrLZ4ZeroOffset = errors.New("lz4 ref: match offset 0 is invalid")

// LZ4DecodeBlock decodes one LZ4 block (https://github.com/lz4/lz4/blob/dev/doc/lz4_Block_format.md):
// sequences of token (hi nibble literal length, lo nibble match length - 4), optional 255-run length extensions,
// literals, 2-byte little-endian offset, optional match length extension. The last sequence has literals only.
// maxOut bounds the output (guards against hostile input).
func LZ4DecodeBlock(src []byte, maxOut int) ([]byte, error) {
	var out []byte
	i := 0
	for i < len(src) {
		token := src[i]
		i++
		lit := int(token >> 4)
		if lit == 15 {
			for {
				if i >= len(src) {
					return nil, errors.New("lz4 ref: truncated literal length")
				}
				b := src[i]
				i++
				lit += int(b)
				if b != 255 {
					break
				}
			}
		}
		if i+lit > len(src) {
			return nil, errors.New("lz4 ref: literals overrun input")
		}
		if len(out)+lit > maxOut {
			return nil, errors.New("lz4 ref: output exceeds bound")
		}
		out = append(out, src[i:i+lit]...)
		i += lit
		if i == len(src) {
			return out, nil // last sequence: literals only
		}
		if i+2 > len(src) {
			return nil, errors.New("lz4 ref: truncated offset")
		}
		off := int(src[i]) | int(src[i+1])<<8
		i += 2
		if off == 0 {
			return nil, ErrLZ4ZeroOffset
		}
		if off > len(out) {
			return nil, errors.New("lz4 ref: offset beyond start of output")
		}
		ml := int(token & 15)
		if ml == 15 {
			for {
				if i >= len(src) {
					return nil, errors.New("lz4 ref: truncated match length")
				}
				b := src[i]
				i++
				ml += int(b)
				if b != 255 {
					break
				}
			}
		}
		ml += 4
		if len(out)+ml > maxOut {
			return nil, errors.New("lz4 ref: output exceeds bound")
		}
		start := len(out) - off
		for k := 0; k < ml; k++ { // byte by byte: matches may overlap their own output
			out = append(out, out[start+k])
		}
	}
	if len(src) == 0 {
		return []byte{}, nil
	}
	return nil, errors.New("lz4 ref: block does not end with a literal-only sequence")
}

// LZ4EncodeLiteral produces a valid block holding src as one literal-only sequence.
func LZ4EncodeLiteral(src []byte) []byte {
	var out []byte
	n := len(src)
	if n < 15 {
		out = append(out, byte(n<<4))
	} else {
		out = append(out, 0xF0)
		r := n - 15
		for r >= 255 {
			out = append(out, 255)
			r -= 255
		}
		out = append(out, byte(r))
	}
	return append(out, src...)
}

// LZ4EncodeRuns produces a valid block that encodes runs of equal bytes as overlapping matches (offset 1), so that
// long runs reach ratios around 250:1. Per the format's end conditions the last 5 bytes are always literals and the
// last match starts at least 12 bytes before the end.
func LZ4EncodeRuns(src []byte) []byte {
	var out []byte
	n := len(src)
	emit := func(lits []byte, matchLen int) { // matchLen 0: final literal-only sequence
		ll := len(lits)
		tok := byte(0)
		if ll >= 15 {
			tok = 0xF0
		} else {
			tok = byte(ll << 4)
		}
		ml := matchLen - 4
		if matchLen > 0 {
			if ml >= 15 {
				tok |= 15
			} else {
				tok |= byte(ml)
			}
		}
		out = append(out, tok)
		if ll >= 15 {
			r := ll - 15
			for r >= 255 {
				out = append(out, 255)
				r -= 255
			}
			out = append(out, byte(r))
		}
		out = append(out, lits...)
		if matchLen > 0 {
			out = append(out, 1, 0) // offset 1
			if ml >= 15 {
				r := ml - 15
				for r >= 255 {
					out = append(out, 255)
					r -= 255
				}
				out = append(out, byte(r))
			}
		}
	}
	litStart := 0
	i := 1
	for i < n {
		// run of bytes equal to src[i-1] starting at i
		j := i
		for j < n && src[j] == src[i-1] {
			j++
		}
		run := j - i
		// keep the last 12 bytes out of matches
		if j > n-12 {
			run = n - 12 - i
		}
		if run >= 4 {
			emit(src[litStart:i], run)
			i += run
			litStart = i
		} else {
			if j > i {
				i = j
			} else {
				i++
			}
		}
	}
	emit(src[litStart:], 0)
	return out
}

// SnappyDecodeBlock decodes the Snappy block format (format_description.txt): a little-endian base-128 varint with the
// uncompressed length, then elements tagged by the low two bits of their first byte: 00 literal (length-1 in the upper
// six bits, or 60..63 meaning 1..4 following little-endian length bytes), 01 copy with 11-bit offset and length 4..11,
// 10 copy with 2-byte offset, 11 copy with 4-byte offset (lengths 1..64).
func SnappyDecodeBlock(src []byte, maxOut int) ([]byte, error) {
	var n uint64
	i, shift := 0, uint(0)
	for {
		if i >= len(src) || shift > 35 {
			return nil, errors.New("snappy ref: bad length preamble")
		}
		b := src[i]
		i++
		n |= uint64(b&0x7f) << shift
		if b&0x80 == 0 {
			break
		}
		shift += 7
	}
	if n > uint64(maxOut) {
		return nil, errors.New("snappy ref: declared length exceeds bound")
	}
	out := make([]byte, 0, n)
	for i < len(src) {
		tag := src[i]
		i++
		switch tag & 3 {
		case 0:
			l := int(tag >> 2)
			if l >= 60 {
				nb := l - 59
				if i+nb > len(src) {
					return nil, errors.New("snappy ref: truncated literal length")
				}
				l = 0
				for k := 0; k < nb; k++ {
					l |= int(src[i+k]) << (8 * uint(k))
				}
				i += nb
			}
			l++
			if i+l > len(src) {
				return nil, errors.New("snappy ref: literal overruns input")
			}
			out = append(out, src[i:i+l]...)
			i += l
		default:
			var l, off int
			switch tag & 3 {
			case 1:
				if i >= len(src) {
					return nil, errors.New("snappy ref: truncated copy")
				}
				l = 4 + int(tag>>2)&7
				off = int(tag>>5)<<8 | int(src[i])
				i++
			case 2:
				if i+2 > len(src) {
					return nil, errors.New("snappy ref: truncated copy")
				}
				l = 1 + int(tag>>2)
				off = int(src[i]) | int(src[i+1])<<8
				i += 2
			default:
				if i+4 > len(src) {
					return nil, errors.New("snappy ref: truncated copy")
				}
				l = 1 + int(tag>>2)
				off = int(src[i]) | int(src[i+1])<<8 | int(src[i+2])<<16 | int(src[i+3])<<24
				i += 4
			}
			if off == 0 || off > len(out) {
				return nil, errors.New("snappy ref: invalid copy offset")
			}
			start := len(out) - off
			for k := 0; k < l; k++ {
				out = append(out, out[start+k])
			}
		}
		if len(out) > maxOut {
			return nil, errors.New("snappy ref: output exceeds bound")
		}
	}
	if uint64(len(out)) != n {
		return nil, errors.New("snappy ref: decoded length differs from the preamble")
	}
	return out, nil
}

// SnappyEncodeLiteral produces a valid Snappy block holding src as literals.
func SnappyEncodeLiteral(src []byte) []byte {
	var out []byte
	n := uint64(len(src))
	for n >= 0x80 {
		out = append(out, byte(n)|0x80)
		n >>= 7
	}
	out = append(out, byte(n))
	for len(src) > 0 {
		l := len(src)
		if l > 65536 {
			l = 65536
		}
		switch {
		case l <= 60:
			out = append(out, byte((l-1)<<2))
		case l <= 256:
			out = append(out, 60<<2, byte(l-1))
		default:
			out = append(out, 61<<2, byte(l-1), byte((l-1)>>8))
		}
		out = append(out, src[:l]...)
		src = src[l:]
	}
	return out
}
