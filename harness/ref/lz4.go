// Package ref holds reference implementations written from the specifications and format descriptions, sharing
// no code with the library under test or its dependencies (DESIGN.md 3.3, 3.6, 3.7).
package ref

import (
	"errors"
)

// ErrLZ4ZeroOffset: a match with offset 0, which the format forbids.
var ErrLZ4ZeroOffset = errors.New("lz4 ref: match offset 0 is invalid")

// LZ4DecodeBlock decodes one LZ4 block (https://github.com/lz4/lz4/blob/dev/doc/lz4_Block_format.md):
// sequences of token (hi nibble literal length, lo nibble match length - 4), optional 255-run length extensions,
// literals, 2-byte little-endian offset, optional match length extension. The last sequence has literals only.
// maxOut bounds the output (guards against hostile input).
func LZ4DecodeBlock(src []byte, maxOut int) ([]byte, error) {
	var out []byte
	i := 0
	for i < len(src) {
		token := src[i]
		i++
		lit := int(token >> 4)
		if lit == 15 {
			for {
				if i >= len(src) {
					return nil, errors.New("lz4 ref: truncated literal length")
				}
				b := src[i]
				i++
				lit += int(b)
				if b != 255 {
					break
				}
			}
		}
		if i+lit > len(src) {
			return nil, errors.New("lz4 ref: literals overrun input")
		}
		if len(out)+lit > maxOut {
			return nil, errors.New("lz4 ref: output exceeds bound")
		}
		out = append(out, src[i:i+lit]...)
		i += lit
		if i == len(src) {
			return out, nil // last sequence: literals only
		}
		if i+2 > len(src) {
			return nil, errors.New("lz4 ref: truncated offset")
		}
		off := int(src[i]) | int(src[i+1])<<8
		i += 2
		if off == 0 {
			return nil, ErrLZ4ZeroOffset
		}
		if off > len(out) {
			return nil, errors.New("lz4 ref: offset beyond start of output")
		}
		ml := int(token & 15)
		if ml == 15 {
			for {
				if i >= len(src) {
					return nil, errors.New("lz4 ref: truncated match length")
				}
				b := src[i]
				i++
				ml += int(b)
				if b != 255 {
					break
				}
			}
		}
		ml += 4
		if len(out)+ml > maxOut {
			return nil, errors.New("lz4 ref: output exceeds bound")
		}
		start := len(out) - off
		for k := 0; k < ml; k++ { // byte by byte: matches may overlap their own output
			out = append(out, out[start+k])
		}
	}
	if len(src) == 0 {
		return []byte{}, nil
	}
	return nil, errors.New("lz4 ref: block does not end with a literal-only sequence")
}

// LZ4EncodeLiteral produces a valid block holding src as one literal-only sequence.
func LZ4EncodeLiteral(src []byte) []byte {
	var out []byte
	n := len(src)
	if n < 15 {
		out = append(out, byte(n<<4))
	} else {
		out = append(out, 0xF0)
		r := n - 15
		for r >= 255 {
			out = append(out, 255)
			r -= 255
		}
		out = append(out, byte(r))
	}
	return append(out, src...)
}

// LZ4EncodeRuns produces a valid block that encodes runs of equal bytes as overlapping matches (offset 1), so that
// long runs reach ratios around 250:1. Per the format's end conditions the last 5 bytes are always literals and the
// last match starts at least 12 bytes before the end.
func LZ4EncodeRuns(src []byte) []byte {
	var out []byte
	n := len(src)
	emit := func(lits []byte, matchLen int) { // matchLen 0: final literal-only sequence
		ll := len(lits)
		tok := byte(0)
		if ll >= 15 {
			tok = 0xF0
		} else {
			tok = byte(ll << 4)
		}
		ml := matchLen - 4
		if matchLen > 0 {
			if ml >= 15 {
				tok |= 15
			} else {
				tok |= byte(ml)
			}
		}
		out = append(out, tok)
		if ll >= 15 {
			r := ll - 15
			for r >= 255 {
				out = append(out, 255)
				r -= 255
			}
			out = append(out, byte(r))
		}
		out = append(out, lits...)
		if matchLen > 0 {
			out = append(out, 1, 0) // offset 1
			if ml >= 15 {
				r := ml - 15
				for r >= 255 {
					out = append(out, 255)
					r -= 255
				}
				out = append(out, byte(r))
			}
		}
	}
	litStart := 0
	i := 1
	for i < n {
		// run of bytes equal to src[i-1] starting at i
		j := i
		for j < n && src[j] == src[i-1] {
			j++
		}
		run := j - i
		// keep the last 12 bytes out of matches
		if j > n-12 {
			run = n - 12 - i
		}
		if run >= 4 {
			emit(src[litStart:i], run)
			i += run
			litStart = i
		} else {
			if j > i {
				i = j
			} else {
				i++
			}
		}
	}
	emit(src[litStart:], 0)
	return out
}
