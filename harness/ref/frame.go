package ref

// Reference frame encoder written from specs/native_protocol_v2..v5.spec and specs/dse_protocol_v1..v2.spec.
// It reads the library's structs as plain data (field access only) and computes every flag, count and length itself.
// It never calls the library's Flags(), IsValid(), EncodedLength(), Encode() or version predicates.

import (
	"fmt"

	"github.com/datastax/go-cassandra-native-protocol/datatype"
	"github.com/datastax/go-cassandra-native-protocol/frame"
	"github.com/datastax/go-cassandra-native-protocol/message"
	"github.com/datastax/go-cassandra-native-protocol/primitive"
)

type ver = primitive.ProtocolVersion

func isDse(v ver) bool { return v == 65 || v == 66 }

// feature tables (DESIGN.md Appendix A)
func streamId16(v ver) bool          { return v != 2 }
func intQueryFlags(v ver) bool       { return v == 5 || isDse(v) }
func batchHasFlags(v ver) bool       { return v != 2 }
func hasKeyspaceFlag(v ver) bool     { return v == 5 || v == 66 }
func hasPrepareFlags(v ver) bool     { return v == 5 || v == 66 }
func hasResultMetadataId(v ver) bool { return v == 5 || v == 66 }
func hasNowInSeconds(v ver) bool     { return v == 5 }
func hasReasonMap(v ver) bool        { return v == 5 || isDse(v) }
func hasContentions(v ver) bool      { return v == 5 }
func hasPkIndices(v ver) bool        { return v >= 4 }
func schemaChangeV3(v ver) bool      { return v != 2 }

// header flag masks (section 2.2)
const (
	flagCompressed    = 0x01
	flagTracing       = 0x02
	flagCustomPayload = 0x04
	flagWarning       = 0x08
)

// EncodeBody returns the reference encoding of the (uncompressed) frame body: prefix parts in the order the
// specifications give - tracing id first, warnings directly after it, custom payload after both - then the message.
func EncodeBody(h *frame.Header, b *frame.Body) (*Encoding, error) {
	w := &W{}
	if err := encodeBodyInto(w, h, b); err != nil {
		return nil, err
	}
	return w.Done(), nil
}

func encodeBodyInto(w *W, h *frame.Header, b *frame.Body) error {
	v := h.Version
	flags := byte(h.Flags)
	if h.IsResponse && flags&flagTracing != 0 {
		if b.TracingId == nil {
			return fmt.Errorf("ref: tracing flag without tracing id")
		}
		w.Raw(b.TracingId[:])
	}
	if h.IsResponse && flags&flagWarning != 0 {
		w.StringList(b.Warnings)
	}
	if flags&flagCustomPayload != 0 {
		w.Short(uint16(len(b.CustomPayload)), "count")
		w.BeginGroup()
		for k, val := range b.CustomPayload {
			w.String(k)
			w.Bytes(val)
			w.EndEntry()
		}
		w.EndGroup()
	}
	return encodeMessage(w, b.Message, v)
}

// EncodeFrame returns the reference encoding of an uncompressed frame (header + body).
func EncodeFrame(f *frame.Frame) (*Encoding, error) {
	body, err := EncodeBody(f.Header, f.Body)
	if err != nil {
		return nil, err
	}
	bodyLen := len(body.Flat(nil))
	w := &W{}
	encodeHeader(w, f.Header, int32(bodyLen))
	if err := encodeBodyInto(w, f.Header, f.Body); err != nil {
		return nil, err
	}
	return w.Done(), nil
}

// EncodeHeaderBytes: section 2 of every spec: version byte (0x80 direction bit for responses), flags byte, stream id
// ([byte] in v2, [short] from v3), opcode byte, [int] body length.
func EncodeHeaderBytes(h *frame.Header, bodyLen int32) []byte {
	w := &W{}
	encodeHeader(w, h, bodyLen)
	return w.Done().Flat(nil)
}

func encodeHeader(w *W, h *frame.Header, bodyLen int32) {
	vb := byte(h.Version)
	if h.IsResponse {
		vb |= 0x80
	}
	w.Byte(vb, "code")
	w.Byte(byte(h.Flags), "flags")
	if streamId16(h.Version) {
		w.Short(uint16(h.StreamId), "int")
	} else {
		w.Byte(byte(int8(h.StreamId)), "int")
	}
	w.Byte(byte(h.OpCode), "code")
	w.Int(bodyLen, "length")
}

// EncodeMessage returns the reference encoding of a message body.
func EncodeMessage(m message.Message, v ver) (*Encoding, error) {
	w := &W{}
	if err := encodeMessage(w, m, v); err != nil {
		return nil, err
	}
	return w.Done(), nil
}

// Variants selects specification-legal encodings that differ from the library's own choices (decode direction only).
type Variants struct {
	PerColumnTableSpec bool // never use the global table spec, even when all columns share a table
	V2TextCode         bool // protocol v2: write varchar columns with type option 0x000A (Text) instead of 0x000D
	TrueByte           byte // byte written for a true <data_present> (0 = the usual 1); any non-zero value denotes true
}

// Variant is consulted by the encoder; tests set it under their own lock and reset it afterwards.
var Variant Variants

func boolByte(b bool) byte {
	if b {
		if Variant.TrueByte != 0 {
			return Variant.TrueByte
		}
		return 1
	}
	return 0
}

func encodeMessage(w *W, m message.Message, v ver) error {
	switch x := m.(type) {
	case *message.Startup: // 4.1.1: [string map]
		w.Short(uint16(len(x.Options)), "count")
		w.BeginGroup()
		for k, val := range x.Options {
			w.String(k)
			w.String(val)
			w.EndEntry()
		}
		w.EndGroup()
	case *message.Options, *message.Ready: // empty bodies
	case *message.AuthResponse:
		w.Bytes(x.Token)
	case *message.AuthChallenge:
		w.Bytes(x.Token)
	case *message.AuthSuccess:
		w.Bytes(x.Token)
	case *message.Authenticate:
		w.String(x.Authenticator)
	case *message.Supported: // [string multimap]
		w.Short(uint16(len(x.Options)), "count")
		w.BeginGroup()
		for k, l := range x.Options {
			w.String(k)
			w.StringList(l)
			w.EndEntry()
		}
		w.EndGroup()
	case *message.Register:
		w.Short(uint16(len(x.EventTypes)), "count")
		for _, e := range x.EventTypes {
			w.String(string(e))
		}
	case *message.Query: // <query><query_parameters>
		w.LongString(x.Query)
		return queryParameters(w, x.Options, v)
	case *message.Prepare: // <query>[<flags>[<keyspace>]]
		w.LongString(x.Query)
		if hasPrepareFlags(v) {
			if x.Keyspace != "" {
				w.Int(0x01, "flags")
				w.String(x.Keyspace)
			} else {
				w.Int(0, "flags")
			}
		}
	case *message.Execute: // <id>[<result_metadata_id>]<query_parameters>
		w.ShortBytes(x.QueryId)
		if hasResultMetadataId(v) {
			w.ShortBytes(x.ResultMetadataId)
		}
		return queryParameters(w, x.Options, v)
	case *message.Batch:
		return batch(w, x, v)
	case *message.Revise:
		if !isDse(v) {
			return fmt.Errorf("ref: REVISE is not defined for version %d", v)
		}
		w.Int(int32(x.RevisionType), "code")
		w.Int(x.TargetStreamId, "int")
		if x.RevisionType == 2 {
			w.Int(x.NextPages, "int")
		}
	case message.Error:
		return errorMessage(w, x, v)
	case *message.VoidResult:
		w.Int(0x0001, "code")
	case *message.RowsResult:
		w.Int(0x0002, "code")
		if err := rowsMetadata(w, x.Metadata, v); err != nil {
			return err
		}
		w.Int(int32(len(x.Data)), "count")
		for _, row := range x.Data {
			for _, cell := range row {
				w.Bytes(cell)
			}
		}
	case *message.SetKeyspaceResult:
		w.Int(0x0003, "code")
		w.String(x.Keyspace)
	case *message.PreparedResult:
		w.Int(0x0004, "code")
		w.ShortBytes(x.PreparedQueryId)
		if hasResultMetadataId(v) {
			w.ShortBytes(x.ResultMetadataId)
		}
		if err := variablesMetadata(w, x.VariablesMetadata, v); err != nil {
			return err
		}
		return rowsMetadata(w, x.ResultMetadata, v)
	case *message.SchemaChangeResult:
		w.Int(0x0005, "code")
		return schemaChange(w, string(x.ChangeType), string(x.Target), x.Keyspace, x.Object, x.Arguments, v)
	case *message.SchemaChangeEvent:
		w.String("SCHEMA_CHANGE")
		return schemaChange(w, string(x.ChangeType), string(x.Target), x.Keyspace, x.Object, x.Arguments, v)
	case *message.StatusChangeEvent:
		w.String("STATUS_CHANGE")
		w.String(string(x.ChangeType))
		return w.Inet(x.Address.Addr, x.Address.Port)
	case *message.TopologyChangeEvent:
		w.String("TOPOLOGY_CHANGE")
		w.String(string(x.ChangeType))
		return w.Inet(x.Address.Addr, x.Address.Port)
	default:
		return fmt.Errorf("ref: unknown message type %T", m)
	}
	return nil
}

// <consistency><flags>[<n>[name_1]<value_1>...][<result_page_size>][<paging_state>][<serial_consistency>][<timestamp>]
// [<keyspace>][<now_in_seconds>][continuous_paging_options]
func queryParameters(w *W, o *message.QueryOptions, v ver) error {
	if o == nil {
		o = &message.QueryOptions{}
	}
	w.Short(uint16(o.Consistency), "code")
	var flags uint32
	named := false
	if o.PositionalValues != nil {
		flags |= 0x01
	} else if o.NamedValues != nil {
		flags |= 0x01 | 0x40
		named = true
	}
	if o.SkipMetadata {
		flags |= 0x02
	}
	if o.PageSize != 0 || o.PageSizeInBytes { // the struct carries a page size (or the qualifier of one)
		flags |= 0x04
		if o.PageSizeInBytes {
			flags |= 0x40000000
		}
	}
	if o.PagingState != nil {
		flags |= 0x08
	}
	if o.SerialConsistency != nil {
		flags |= 0x10
	}
	if o.DefaultTimestamp != nil {
		flags |= 0x20
	}
	if o.Keyspace != "" {
		flags |= 0x80
	}
	if o.NowInSeconds != nil {
		flags |= 0x100
	}
	if o.ContinuousPagingOptions != nil {
		flags |= 0x80000000
	}
	// features must be defined for the version
	if flags&0x60 != 0 && v == 2 || flags&0x80 != 0 && !hasKeyspaceFlag(v) || flags&0x100 != 0 && !hasNowInSeconds(v) || flags&0xC0000000 != 0 && !isDse(v) {
		return fmt.Errorf("ref: query flags %#x use features version %d does not define", flags, v)
	}
	if intQueryFlags(v) {
		w.Int(int32(flags), "flags")
	} else {
		w.Byte(byte(flags), "flags")
	}
	if flags&0x01 != 0 {
		if named {
			w.Short(uint16(len(o.NamedValues)), "count")
			w.BeginGroup()
			for k, val := range o.NamedValues {
				w.String(k)
				if err := value(w, val, v); err != nil {
					return err
				}
				w.EndEntry()
			}
			w.EndGroup()
		} else {
			w.Short(uint16(len(o.PositionalValues)), "count")
			for _, val := range o.PositionalValues {
				if err := value(w, val, v); err != nil {
					return err
				}
			}
		}
	}
	if flags&0x04 != 0 {
		w.Int(o.PageSize, "int")
	}
	if flags&0x08 != 0 {
		w.Bytes(o.PagingState)
	}
	if flags&0x10 != 0 {
		w.Short(uint16(*o.SerialConsistency), "code")
	}
	if flags&0x20 != 0 {
		w.Long(*o.DefaultTimestamp)
	}
	if flags&0x80 != 0 {
		w.String(o.Keyspace)
	}
	if flags&0x100 != 0 {
		w.Int(*o.NowInSeconds, "int")
	}
	if flags&0x80000000 != 0 {
		c := o.ContinuousPagingOptions
		w.Int(c.MaxPages, "int")
		w.Int(c.PagesPerSecond, "int")
		if v == 66 {
			w.Int(c.NextPages, "int")
		}
	}
	return nil
}

// [value]: [int] n + n bytes; n = -1 null; n = -2 not set (v4+).
func value(w *W, val *primitive.Value, v ver) error {
	if val == nil {
		return fmt.Errorf("ref: nil value")
	}
	switch val.Type {
	case -1:
		w.Int(-1, "length")
	case -2:
		if v < 4 {
			return fmt.Errorf("ref: unset value in version %d", v)
		}
		w.Int(-2, "length")
	default:
		if val.Contents == nil {
			w.Int(-1, "length")
		} else {
			w.Bytes(val.Contents)
		}
	}
	return nil
}

// <type><n><query_1>...<query_n><consistency>[<flags>[<serial_consistency>][<timestamp>][<keyspace>][<now_in_seconds>]]
func batch(w *W, b *message.Batch, v ver) error {
	w.Byte(byte(b.Type), "code")
	w.Short(uint16(len(b.Children)), "count")
	for _, c := range b.Children {
		if c.Query != "" {
			w.Byte(0, "code")
			w.LongString(c.Query)
		} else {
			w.Byte(1, "code")
			w.ShortBytes(c.Id)
		}
		w.Short(uint16(len(c.Values)), "count")
		for _, val := range c.Values {
			if err := value(w, val, v); err != nil {
				return err
			}
		}
	}
	w.Short(uint16(b.Consistency), "code")
	if !batchHasFlags(v) {
		if b.SerialConsistency != nil || b.DefaultTimestamp != nil {
			return fmt.Errorf("ref: v2 BATCH has no flags")
		}
		return nil
	}
	var flags uint32
	if b.SerialConsistency != nil {
		flags |= 0x10
	}
	if b.DefaultTimestamp != nil {
		flags |= 0x20
	}
	if b.Keyspace != "" {
		flags |= 0x80
	}
	if b.NowInSeconds != nil {
		flags |= 0x100
	}
	if flags&0x80 != 0 && !hasKeyspaceFlag(v) || flags&0x100 != 0 && !hasNowInSeconds(v) {
		return fmt.Errorf("ref: batch flags %#x use features version %d does not define", flags, v)
	}
	if intQueryFlags(v) {
		w.Int(int32(flags), "flags")
	} else {
		w.Byte(byte(flags), "flags")
	}
	if flags&0x10 != 0 {
		w.Short(uint16(*b.SerialConsistency), "code")
	}
	if flags&0x20 != 0 {
		w.Long(*b.DefaultTimestamp)
	}
	if flags&0x80 != 0 {
		w.String(b.Keyspace)
	}
	if flags&0x100 != 0 {
		w.Int(*b.NowInSeconds, "int")
	}
	return nil
}

func reasonMap(w *W, rm []*primitive.FailureReason) error {
	w.Int(int32(len(rm)), "count")
	for _, r := range rm {
		if err := w.InetAddr(r.Endpoint); err != nil {
			return err
		}
		w.Short(uint16(r.Code), "code")
	}
	return nil
}

// section 9: <code [int]><message [string]> then per-code content.
func errorMessage(w *W, e message.Error, v ver) error {
	switch x := e.(type) {
	case *message.ServerError:
		w.Int(0x0000, "code")
		w.String(x.ErrorMessage)
	case *message.ProtocolError:
		w.Int(0x000A, "code")
		w.String(x.ErrorMessage)
	case *message.AuthenticationError:
		w.Int(0x0100, "code")
		w.String(x.ErrorMessage)
	case *message.Unavailable:
		w.Int(0x1000, "code")
		w.String(x.ErrorMessage)
		w.Short(uint16(x.Consistency), "code")
		w.Int(x.Required, "int")
		w.Int(x.Alive, "int")
	case *message.Overloaded:
		w.Int(0x1001, "code")
		w.String(x.ErrorMessage)
	case *message.IsBootstrapping:
		w.Int(0x1002, "code")
		w.String(x.ErrorMessage)
	case *message.TruncateError:
		w.Int(0x1003, "code")
		w.String(x.ErrorMessage)
	case *message.WriteTimeout:
		w.Int(0x1100, "code")
		w.String(x.ErrorMessage)
		w.Short(uint16(x.Consistency), "code")
		w.Int(x.Received, "int")
		w.Int(x.BlockFor, "int")
		w.String(string(x.WriteType))
		if hasContentions(v) && x.WriteType == "CAS" {
			w.Short(x.Contentions, "int")
		}
	case *message.ReadTimeout:
		w.Int(0x1200, "code")
		w.String(x.ErrorMessage)
		w.Short(uint16(x.Consistency), "code")
		w.Int(x.Received, "int")
		w.Int(x.BlockFor, "int")
		w.Byte(boolByte(x.DataPresent), "code")
	case *message.ReadFailure:
		if v < 4 {
			return fmt.Errorf("ref: READ_FAILURE is not defined for version %d", v)
		}
		w.Int(0x1300, "code")
		w.String(x.ErrorMessage)
		w.Short(uint16(x.Consistency), "code")
		w.Int(x.Received, "int")
		w.Int(x.BlockFor, "int")
		if hasReasonMap(v) {
			if err := reasonMap(w, x.FailureReasons); err != nil {
				return err
			}
		} else {
			w.Int(x.NumFailures, "int")
		}
		w.Byte(boolByte(x.DataPresent), "code")
	case *message.FunctionFailure:
		if v < 4 {
			return fmt.Errorf("ref: FUNCTION_FAILURE is not defined for version %d", v)
		}
		w.Int(0x1400, "code")
		w.String(x.ErrorMessage)
		w.String(x.Keyspace)
		w.String(x.Function)
		w.StringList(x.Arguments)
	case *message.WriteFailure:
		if v < 4 {
			return fmt.Errorf("ref: WRITE_FAILURE is not defined for version %d", v)
		}
		w.Int(0x1500, "code")
		w.String(x.ErrorMessage)
		w.Short(uint16(x.Consistency), "code")
		w.Int(x.Received, "int")
		w.Int(x.BlockFor, "int")
		if hasReasonMap(v) {
			if err := reasonMap(w, x.FailureReasons); err != nil {
				return err
			}
		} else {
			w.Int(x.NumFailures, "int")
		}
		w.String(string(x.WriteType))
	case *message.SyntaxError:
		w.Int(0x2000, "code")
		w.String(x.ErrorMessage)
	case *message.Unauthorized:
		w.Int(0x2100, "code")
		w.String(x.ErrorMessage)
	case *message.Invalid:
		w.Int(0x2200, "code")
		w.String(x.ErrorMessage)
	case *message.ConfigError:
		w.Int(0x2300, "code")
		w.String(x.ErrorMessage)
	case *message.AlreadyExists:
		w.Int(0x2400, "code")
		w.String(x.ErrorMessage)
		w.String(x.Keyspace)
		w.String(x.Table)
	case *message.Unprepared:
		w.Int(0x2500, "code")
		w.String(x.ErrorMessage)
		w.ShortBytes(x.Id)
	default:
		return fmt.Errorf("ref: unknown error type %T", e)
	}
	return nil
}

func sameTable(cols []*message.ColumnMetadata) bool {
	for _, c := range cols {
		if c.Keyspace != cols[0].Keyspace || c.Table != cols[0].Table {
			return false
		}
	}
	return len(cols) > 0
}

func colSpecs(w *W, cols []*message.ColumnMetadata, global bool, v ver) error {
	if global {
		w.String(cols[0].Keyspace)
		w.String(cols[0].Table)
	}
	for _, c := range cols {
		if !global {
			w.String(c.Keyspace)
			w.String(c.Table)
		}
		w.String(c.Name)
		if err := option(w, c.Type, v); err != nil {
			return err
		}
	}
	return nil
}

// Rows metadata (4.2.5.2): <flags><columns_count>[<paging_state>][<new_metadata_id>][<continuous_page_no>]
// [<global_table_spec>?<col_spec_1>...<col_spec_n>]. The encoder is free to use the global table spec when all columns
// share a table; the reference mirrors the library's choice (always, when possible).
func rowsMetadata(w *W, m *message.RowsMetadata, v ver) error {
	if m == nil {
		m = &message.RowsMetadata{}
	}
	var flags uint32
	global := false
	if len(m.Columns) == 0 {
		flags |= 0x04
	} else if sameTable(m.Columns) && !Variant.PerColumnTableSpec {
		flags |= 0x01
		global = true
	}
	if m.PagingState != nil {
		flags |= 0x02
	}
	if m.NewResultMetadataId != nil {
		if !hasResultMetadataId(v) {
			return fmt.Errorf("ref: new_metadata_id is not defined for version %d", v)
		}
		flags |= 0x08
	}
	if m.ContinuousPageNumber != 0 || m.LastContinuousPage { // the struct denotes a page of a continuous-paging session
		if !isDse(v) {
			return fmt.Errorf("ref: continuous paging is not defined for version %d", v)
		}
		flags |= 0x40000000
		if m.LastContinuousPage {
			flags |= 0x80000000
		}
	}
	w.Int(int32(flags), "flags")
	w.Int(m.ColumnCount, "count")
	if flags&0x02 != 0 {
		w.Bytes(m.PagingState)
	}
	if flags&0x08 != 0 {
		w.ShortBytes(m.NewResultMetadataId)
	}
	if flags&0x40000000 != 0 {
		w.Int(m.ContinuousPageNumber, "int")
	}
	if flags&0x04 == 0 {
		if int(m.ColumnCount) != len(m.Columns) {
			return fmt.Errorf("ref: column count %d != %d column specs", m.ColumnCount, len(m.Columns))
		}
		return colSpecs(w, m.Columns, global, v)
	}
	return nil
}

// Prepared metadata (4.2.5.4): <flags><columns_count>[<pk_count><pk_index_1>...<pk_index_n>][<global_table_spec>?<col_spec_1>...]
// with the pk fields from v4.
func variablesMetadata(w *W, m *message.VariablesMetadata, v ver) error {
	if m == nil {
		m = &message.VariablesMetadata{}
	}
	var flags uint32
	global := sameTable(m.Columns) && !Variant.PerColumnTableSpec
	if global {
		flags |= 0x01
	}
	w.Int(int32(flags), "flags")
	w.Int(int32(len(m.Columns)), "count")
	if hasPkIndices(v) {
		w.Int(int32(len(m.PkIndices)), "count")
		for _, i := range m.PkIndices {
			w.Short(i, "int")
		}
	} else if len(m.PkIndices) > 0 {
		return fmt.Errorf("ref: pk indices are not defined for version %d", v)
	}
	if len(m.Columns) > 0 {
		return colSpecs(w, m.Columns, global, v)
	}
	return nil
}

// v2: <change><keyspace><table>; v3+: <change_type><target><options>.
func schemaChange(w *W, change, target, ks, obj string, args []string, v ver) error {
	w.String(change)
	if !schemaChangeV3(v) {
		w.String(ks)
		switch target {
		case "KEYSPACE":
			w.String("")
		case "TABLE":
			w.String(obj)
		default:
			return fmt.Errorf("ref: schema change target %s is not defined for version %d", target, v)
		}
		return nil
	}
	w.String(target)
	w.String(ks)
	switch target {
	case "KEYSPACE":
	case "TABLE", "TYPE":
		w.String(obj)
	case "FUNCTION", "AGGREGATE":
		if v < 4 {
			return fmt.Errorf("ref: schema change target %s is not defined for version %d", target, v)
		}
		w.String(obj)
		w.StringList(args)
	default:
		return fmt.Errorf("ref: unknown schema change target %q", target)
	}
	return nil
}

// [option] for column types (4.2.5.2): [short] id + value.
func option(w *W, t datatype.DataType, v ver) error {
	if t == nil {
		return fmt.Errorf("ref: nil data type")
	}
	switch x := t.(type) {
	case *datatype.PrimitiveType:
		code := uint16(x.Code())
		switch {
		case code >= 0x0011 && code <= 0x0014 && v < 4:
			return fmt.Errorf("ref: type %#x is not defined for version %d", code, v)
		case code == 0x0015 && !(v == 5 || isDse(v)):
			return fmt.Errorf("ref: duration is not defined for version %d", v)
		}
		if code == 0x000D && v == 2 && Variant.V2TextCode {
			code = 0x000A
		}
		w.Short(code, "code")
	case *datatype.Custom:
		w.Short(0x0000, "code")
		w.String(x.ClassName)
	case *datatype.List:
		w.Short(0x0020, "code")
		return option(w, x.ElementType, v)
	case *datatype.Set:
		w.Short(0x0022, "code")
		return option(w, x.ElementType, v)
	case *datatype.Map:
		w.Short(0x0021, "code")
		if err := option(w, x.KeyType, v); err != nil {
			return err
		}
		return option(w, x.ValueType, v)
	case *datatype.UserDefined:
		if v == 2 {
			return fmt.Errorf("ref: UDT is not defined for version 2")
		}
		w.Short(0x0030, "code")
		w.String(x.Keyspace)
		w.String(x.Name)
		w.Short(uint16(len(x.FieldTypes)), "count")
		for i, ft := range x.FieldTypes {
			w.String(x.FieldNames[i])
			if err := option(w, ft, v); err != nil {
				return err
			}
		}
	case *datatype.Tuple:
		if v == 2 {
			return fmt.Errorf("ref: tuple is not defined for version 2")
		}
		w.Short(0x0031, "code")
		w.Short(uint16(len(x.FieldTypes)), "count")
		for _, ft := range x.FieldTypes {
			if err := option(w, ft, v); err != nil {
				return err
			}
		}
	default:
		return fmt.Errorf("ref: unknown data type %T", t)
	}
	return nil
}

// EncodeOption is the reference encoding of a type descriptor.
func EncodeOption(t datatype.DataType, v ver) ([]byte, error) {
	w := &W{}
	if err := option(w, t, v); err != nil {
		return nil, err
	}
	return w.Done().Flat(nil), nil
}
