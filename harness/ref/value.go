package ref

// Reference serializer / deserializer for CQL values, written from section 5/6 of specs/native_protocol_v5.spec (and
// the v2 collection format of native_protocol_v2.spec section 6): fixed-width big-endian two's complement integers,
// varint = minimal two's complement, decimal = [int] scale + varint, duration = three zig-zag vints, date = days + 2^31 as
// unsigned 32-bit, time = 64-bit nanos, timestamp = 64-bit millis, inet 4/16 bytes, uuid 16 bytes, collections =
// count + elements ([int] n + [bytes] elements from v3, [short] n + [short bytes] elements in v2), null element = length
// -1, tuples and UDTs = successive [bytes].

import (
	"encoding/binary"
	"errors"
	"fmt"
	"math/big"

	"github.com/datastax/go-cassandra-native-protocol/datatype"
)

// AV is an abstract CQL value; which fields are meaningful depends on the CQL type it belongs to.
type AV struct {
	Null  bool
	Int   *big.Int // tinyint..bigint, counter, varint, boolean (0/1), date (days), time (nanos), timestamp (millis), decimal unscaled, duration nanos
	Bits  uint64   // float (low 32 bits) / double IEEE bits
	Bytes []byte   // ascii/varchar (UTF-8), blob, custom, uuid (16), inet (4 or 16)
	Scale int32    // decimal
	M, D  int64    // duration months, days
	Elems []AV     // list, set, tuple, UDT fields; map values
	Keys  []AV     // map keys
}

// TwosComplement returns x in exactly width bytes (big-endian); ok=false if it does not fit.
func TwosComplement(x *big.Int, width int) ([]byte, bool) {
	lim := new(big.Int).Lsh(big.NewInt(1), uint(8*width-1))
	if x.Cmp(lim) >= 0 || x.Cmp(new(big.Int).Neg(lim)) < 0 {
		return nil, false
	}
	y := new(big.Int).Set(x)
	if y.Sign() < 0 {
		y.Add(y, new(big.Int).Lsh(big.NewInt(1), uint(8*width)))
	}
	b := y.Bytes()
	out := make([]byte, width)
	copy(out[width-len(b):], b)
	return out, true
}

// FromTwosComplement reads a big-endian two's complement integer of any width >= 1.
func FromTwosComplement(b []byte) *big.Int {
	x := new(big.Int).SetBytes(b)
	if len(b) > 0 && b[0]&0x80 != 0 {
		x.Sub(x, new(big.Int).Lsh(big.NewInt(1), uint(8*len(b))))
	}
	return x
}

// Varint: the shortest two's complement representation (spec 5.24 table: 0 -> 00, 127 -> 7F, 128 -> 0080, -1 -> FF,
// -128 -> 80, -129 -> FF7F).
func Varint(x *big.Int) []byte {
	for w := 1; ; w++ {
		if b, ok := TwosComplement(x, w); ok {
			return b
		}
	}
}

func zigzag(n int64) uint64 { return uint64(n<<1) ^ uint64(n>>63) }

// UnsignedVint: most significant byte first; the number of leading 1 bits of the first byte is the number of extra bytes.
func UnsignedVint(v uint64) []byte {
	if v < 0x80 {
		return []byte{byte(v)}
	}
	// find the smallest n (total bytes, 2..9) such that v fits in 7*n bits (n<=8) or n==9
	for n := 2; n <= 8; n++ {
		if v < uint64(1)<<uint(7*n) {
			out := make([]byte, n)
			for i := n - 1; i >= 0; i-- {
				out[i] = byte(v)
				v >>= 8
			}
			out[0] |= ^byte(0xff >> uint(n-1))
			return out
		}
	}
	out := make([]byte, 9)
	out[0] = 0xff
	binary.BigEndian.PutUint64(out[1:], v)
	return out
}

// ReadUnsignedVint decodes one unsigned vint and returns the remaining bytes.
func ReadUnsignedVint(b []byte) (uint64, []byte, error) {
	if len(b) == 0 {
		return 0, nil, errors.New("value ref: empty vint")
	}
	first := b[0]
	extra := 0
	for m := byte(0x80); m != 0 && first&m != 0; m >>= 1 {
		extra++
	}
	if len(b) < 1+extra {
		return 0, nil, errors.New("value ref: truncated vint")
	}
	var v uint64
	if extra < 8 {
		v = uint64(first & (0xff >> uint(extra)))
	}
	for i := 1; i <= extra; i++ {
		v = v<<8 | uint64(b[i])
	}
	return v, b[1+extra:], nil
}

func unzigzag(u uint64) int64 { return int64(u>>1) ^ -int64(u&1) }

// scalar code constants (section 4.2.5.2 type option ids)
const (
	cCustom, cAscii, cBigint, cBlob, cBoolean, cCounter, cDecimal, cDouble, cFloat, cInt                 = 0x00, 0x01, 0x02, 0x03, 0x04, 0x05, 0x06, 0x07, 0x08, 0x09
	cTimestamp, cUuid, cVarchar, cVarint, cTimeuuid, cInet, cDate, cTime, cSmallint, cTinyint, cDuration = 0x0B, 0x0C, 0x0D, 0x0E, 0x0F, 0x10, 0x11, 0x12, 0x13, 0x14, 0x15
)

func fixedWidth(code uint16) int {
	switch code {
	case cBigint, cCounter, cTimestamp, cTime:
		return 8
	case cInt:
		return 4
	case cSmallint:
		return 2
	case cTinyint:
		return 1
	}
	return 0
}

// elem writes one collection element / tuple field.
func elem(out []byte, b []byte, short bool) ([]byte, error) {
	if short {
		if b == nil {
			return nil, errors.New("value ref: protocol v2 collections cannot carry null elements")
		}
		if len(b) > 65535 {
			return nil, errors.New("value ref: element too long for v2")
		}
		out = append(out, byte(len(b)>>8), byte(len(b)))
		return append(out, b...), nil
	}
	if b == nil {
		return append(out, 0xff, 0xff, 0xff, 0xff), nil
	}
	out = binary.BigEndian.AppendUint32(out, uint32(len(b)))
	return append(out, b...), nil
}

// SerializeValue returns the specification's serialization of av (nil for NULL). Map entries are written in AV order.
func SerializeValue(dt datatype.DataType, av AV, v ver) ([]byte, error) {
	if av.Null {
		return nil, nil
	}
	short := v == 2
	count := func(n int) []byte {
		if short {
			return []byte{byte(n >> 8), byte(n)}
		}
		return binary.BigEndian.AppendUint32(nil, uint32(n))
	}
	seq := func(et datatype.DataType, es []AV) ([]byte, error) {
		out := count(len(es))
		for _, e := range es {
			b, err := SerializeValue(et, e, v)
			if err != nil {
				return nil, err
			}
			if out, err = elem(out, b, short); err != nil {
				return nil, err
			}
		}
		return out, nil
	}
	fields := func(fts []datatype.DataType) ([]byte, error) {
		out := []byte{}
		for i, ft := range fts {
			b, err := SerializeValue(ft, av.Elems[i], v)
			if err != nil {
				return nil, err
			}
			out, _ = elem(out, b, false)
		}
		return out, nil
	}
	switch x := dt.(type) {
	case *datatype.List:
		return seq(x.ElementType, av.Elems)
	case *datatype.Set:
		return seq(x.ElementType, av.Elems)
	case *datatype.Map:
		out := count(len(av.Keys))
		for i := range av.Keys {
			kb, err := SerializeValue(x.KeyType, av.Keys[i], v)
			if err != nil {
				return nil, err
			}
			vb, err := SerializeValue(x.ValueType, av.Elems[i], v)
			if err != nil {
				return nil, err
			}
			if out, err = elem(out, kb, short); err != nil {
				return nil, err
			}
			if out, err = elem(out, vb, short); err != nil {
				return nil, err
			}
		}
		return out, nil
	case *datatype.Tuple:
		return fields(x.FieldTypes)
	case *datatype.UserDefined:
		return fields(x.FieldTypes)
	}
	code := uint16(dt.Code())
	if w := fixedWidth(code); w > 0 {
		b, ok := TwosComplement(av.Int, w)
		if !ok {
			return nil, fmt.Errorf("value ref: %v does not fit %d bytes", av.Int, w)
		}
		return b, nil
	}
	switch code {
	case cBoolean:
		if av.Int.Sign() != 0 {
			return []byte{1}, nil
		}
		return []byte{0}, nil
	case cDate: // unsigned 32-bit, epoch at 2^31
		x := new(big.Int).Add(av.Int, new(big.Int).Lsh(big.NewInt(1), 31))
		if x.Sign() < 0 || x.BitLen() > 32 {
			return nil, fmt.Errorf("value ref: date %v out of range", av.Int)
		}
		return binary.BigEndian.AppendUint32(nil, uint32(x.Uint64())), nil
	case cVarint:
		return Varint(av.Int), nil
	case cDecimal:
		return append(binary.BigEndian.AppendUint32(nil, uint32(av.Scale)), Varint(av.Int)...), nil
	case cFloat:
		return binary.BigEndian.AppendUint32(nil, uint32(av.Bits)), nil
	case cDouble:
		return binary.BigEndian.AppendUint64(nil, av.Bits), nil
	case cDuration:
		out := UnsignedVint(zigzag(av.M))
		out = append(out, UnsignedVint(zigzag(av.D))...)
		return append(out, UnsignedVint(zigzag(av.Int.Int64()))...), nil
	case cAscii, cVarchar, cBlob, cCustom, cInet, cUuid, cTimeuuid:
		return append([]byte{}, av.Bytes...), nil
	}
	return nil, fmt.Errorf("value ref: unknown type code %#x", code)
}

// DeserializeValue reads specification-formatted bytes (nil = NULL) into an abstract value; strict about lengths.
func DeserializeValue(dt datatype.DataType, b []byte, v ver) (AV, error) {
	if b == nil {
		return AV{Null: true}, nil
	}
	short := v == 2
	rd := b
	readCount := func() (int, error) {
		if short {
			if len(rd) < 2 {
				return 0, errors.New("value ref: truncated count")
			}
			n := int(rd[0])<<8 | int(rd[1])
			rd = rd[2:]
			return n, nil
		}
		if len(rd) < 4 {
			return 0, errors.New("value ref: truncated count")
		}
		n := int(int32(binary.BigEndian.Uint32(rd)))
		rd = rd[4:]
		if n < 0 {
			return 0, errors.New("value ref: negative count")
		}
		return n, nil
	}
	readElem := func(forceInt bool) ([]byte, error) {
		if short && !forceInt {
			if len(rd) < 2 {
				return nil, errors.New("value ref: truncated element length")
			}
			n := int(rd[0])<<8 | int(rd[1])
			rd = rd[2:]
			if len(rd) < n {
				return nil, errors.New("value ref: truncated element")
			}
			e := rd[:n:n]
			rd = rd[n:]
			return e, nil
		}
		if len(rd) < 4 {
			return nil, errors.New("value ref: truncated element length")
		}
		n := int(int32(binary.BigEndian.Uint32(rd)))
		rd = rd[4:]
		if n < 0 {
			return nil, nil
		}
		if len(rd) < n {
			return nil, errors.New("value ref: truncated element")
		}
		e := rd[:n:n]
		if e == nil {
			e = []byte{}
		}
		rd = rd[n:]
		return e, nil
	}
	done := func(av AV) (AV, error) {
		if len(rd) != 0 {
			return AV{}, fmt.Errorf("value ref: %d trailing bytes", len(rd))
		}
		return av, nil
	}
	seq := func(et datatype.DataType) (AV, error) {
		n, err := readCount()
		if err != nil {
			return AV{}, err
		}
		av := AV{Elems: []AV{}}
		for i := 0; i < n; i++ {
			eb, err := readElem(false)
			if err != nil {
				return AV{}, err
			}
			e, err := DeserializeValue(et, eb, v)
			if err != nil {
				return AV{}, err
			}
			av.Elems = append(av.Elems, e)
		}
		return done(av)
	}
	fields := func(fts []datatype.DataType) (AV, error) {
		av := AV{Elems: make([]AV, len(fts))}
		for i, ft := range fts {
			if len(rd) == 0 { // "it is allowed to have less values than the type has fields": missing ones are null
				av.Elems[i] = AV{Null: true}
				continue
			}
			eb, err := readElem(true)
			if err != nil {
				return AV{}, err
			}
			e, err := DeserializeValue(ft, eb, v)
			if err != nil {
				return AV{}, err
			}
			av.Elems[i] = e
		}
		return done(av)
	}
	switch x := dt.(type) {
	case *datatype.List:
		return seq(x.ElementType)
	case *datatype.Set:
		return seq(x.ElementType)
	case *datatype.Map:
		n, err := readCount()
		if err != nil {
			return AV{}, err
		}
		av := AV{Keys: []AV{}, Elems: []AV{}}
		for i := 0; i < n; i++ {
			kb, err := readElem(false)
			if err != nil {
				return AV{}, err
			}
			vb, err := readElem(false)
			if err != nil {
				return AV{}, err
			}
			k, err := DeserializeValue(x.KeyType, kb, v)
			if err != nil {
				return AV{}, err
			}
			e, err := DeserializeValue(x.ValueType, vb, v)
			if err != nil {
				return AV{}, err
			}
			av.Keys = append(av.Keys, k)
			av.Elems = append(av.Elems, e)
		}
		return done(av)
	case *datatype.Tuple:
		return fields(x.FieldTypes)
	case *datatype.UserDefined:
		return fields(x.FieldTypes)
	}
	code := uint16(dt.Code())
	if w := fixedWidth(code); w > 0 {
		if len(b) != w {
			return AV{}, fmt.Errorf("value ref: expected %d bytes, got %d", w, len(b))
		}
		return AV{Int: FromTwosComplement(b)}, nil
	}
	switch code {
	case cBoolean:
		if len(b) != 1 {
			return AV{}, errors.New("value ref: boolean must be one byte")
		}
		if b[0] != 0 {
			return AV{Int: big.NewInt(1)}, nil
		}
		return AV{Int: big.NewInt(0)}, nil
	case cDate:
		if len(b) != 4 {
			return AV{}, errors.New("value ref: date must be 4 bytes")
		}
		x := new(big.Int).SetUint64(uint64(binary.BigEndian.Uint32(b)))
		return AV{Int: x.Sub(x, new(big.Int).Lsh(big.NewInt(1), 31))}, nil
	case cVarint:
		if len(b) == 0 {
			return AV{}, errors.New("value ref: empty varint")
		}
		return AV{Int: FromTwosComplement(b)}, nil
	case cDecimal:
		if len(b) < 5 {
			return AV{}, errors.New("value ref: decimal too short")
		}
		return AV{Scale: int32(binary.BigEndian.Uint32(b)), Int: FromTwosComplement(b[4:])}, nil
	case cFloat:
		if len(b) != 4 {
			return AV{}, errors.New("value ref: float must be 4 bytes")
		}
		return AV{Bits: uint64(binary.BigEndian.Uint32(b))}, nil
	case cDouble:
		if len(b) != 8 {
			return AV{}, errors.New("value ref: double must be 8 bytes")
		}
		return AV{Bits: binary.BigEndian.Uint64(b)}, nil
	case cDuration:
		m, r1, err := ReadUnsignedVint(b)
		if err != nil {
			return AV{}, err
		}
		d, r2, err := ReadUnsignedVint(r1)
		if err != nil {
			return AV{}, err
		}
		n, r3, err := ReadUnsignedVint(r2)
		if err != nil {
			return AV{}, err
		}
		if len(r3) != 0 {
			return AV{}, errors.New("value ref: trailing bytes after duration")
		}
		return AV{M: unzigzag(m), D: unzigzag(d), Int: big.NewInt(unzigzag(n))}, nil
	case cInet:
		if len(b) != 4 && len(b) != 16 {
			return AV{}, errors.New("value ref: inet must be 4 or 16 bytes")
		}
		return AV{Bytes: append([]byte{}, b...)}, nil
	case cUuid, cTimeuuid:
		if len(b) != 16 {
			return AV{}, errors.New("value ref: uuid must be 16 bytes")
		}
		return AV{Bytes: append([]byte{}, b...)}, nil
	case cAscii, cVarchar, cBlob, cCustom:
		return AV{Bytes: append([]byte{}, b...)}, nil
	}
	return AV{}, fmt.Errorf("value ref: unknown type code %#x", code)
}

// ValueAnnots walks a VALID serialization of a value of type dt and returns the offsets of its structural fields
// (collection counts, element/field length prefixes), for structure-aware mutation.
func ValueAnnots(dt datatype.DataType, b []byte, v ver) []Annot {
	var out []Annot
	var walk func(dt datatype.DataType, b []byte, base int)
	short := v == 2
	walk = func(dt datatype.DataType, b []byte, base int) {
		pos := 0
		readLen := func(forceInt bool) (int, bool) {
			if short && !forceInt {
				if pos+2 > len(b) {
					return 0, false
				}
				out = append(out, Annot{Off: base + pos, Width: 2, Kind: "length"})
				n := int(b[pos])<<8 | int(b[pos+1])
				pos += 2
				return n, true
			}
			if pos+4 > len(b) {
				return 0, false
			}
			out = append(out, Annot{Off: base + pos, Width: 4, Kind: "length"})
			n := int(int32(binary.BigEndian.Uint32(b[pos:])))
			pos += 4
			return n, true
		}
		elem := func(et datatype.DataType, forceInt bool) bool {
			n, ok := readLen(forceInt)
			if !ok {
				return false
			}
			if n < 0 {
				return true
			}
			if pos+n > len(b) {
				return false
			}
			walk(et, b[pos:pos+n], base+pos)
			pos += n
			return true
		}
		count := func() (int, bool) {
			n, ok := readLen(false)
			if ok {
				out[len(out)-1].Kind = "count"
			}
			return n, ok
		}
		switch x := dt.(type) {
		case *datatype.List:
			n, ok := count()
			for i := 0; ok && i < n; i++ {
				ok = elem(x.ElementType, false)
			}
		case *datatype.Set:
			n, ok := count()
			for i := 0; ok && i < n; i++ {
				ok = elem(x.ElementType, false)
			}
		case *datatype.Map:
			n, ok := count()
			for i := 0; ok && i < n; i++ {
				ok = elem(x.KeyType, false) && elem(x.ValueType, false)
			}
		case *datatype.Tuple:
			for _, ft := range x.FieldTypes {
				if !elem(ft, true) {
					return
				}
			}
		case *datatype.UserDefined:
			for _, ft := range x.FieldTypes {
				if !elem(ft, true) {
					return
				}
			}
		default:
			if len(b) > 0 {
				out = append(out, Annot{Off: base, Width: len(b), Kind: "bytes"})
			}
		}
	}
	walk(dt, b, 0)
	return out
}
