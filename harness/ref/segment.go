package ref

import "errors"

// CRC24 is Cassandra's header checksum (specs/native_protocol_v5.spec section 2; Crc.java): a non-reflected CRC with
// generator 0x1974F0B (x^24 + ... , top bit implicit below), initial value 0x875060, fed with the header bytes in wire
// order, each byte most-significant bit first. Implemented bit by bit.
func CRC24(wire []byte) uint32 {
	crc := uint32(0x875060)
	for _, b := range wire {
		for bit := 7; bit >= 0; bit-- {
			in := uint32(b>>uint(bit)) & 1
			top := (crc >> 23) & 1
			crc = (crc << 1) & 0xFFFFFF
			if top^in == 1 {
				crc ^= 0x974F0B
			}
		}
	}
	return crc
}

// CRC32 is the standard reflected CRC-32 (IEEE 802.3, polynomial 0xEDB88320 reflected, initial value and final xor
// 0xFFFFFFFF) computed over the four bytes FA 2D 55 CA followed by the data. Implemented bit by bit, no tables.
func CRC32(data []byte) uint32 {
	crc := ^uint32(0)
	feed := func(b byte) {
		crc ^= uint32(b)
		for i := 0; i < 8; i++ {
			if crc&1 == 1 {
				crc = crc>>1 ^ 0xEDB88320
			} else {
				crc >>= 1
			}
		}
	}
	for _, b := range []byte{0xFA, 0x2D, 0x55, 0xCA} {
		feed(b)
	}
	for _, b := range data {
		feed(b)
	}
	return ^crc
}

// SegmentHeader builds the header bytes (3 or 5) plus the 3 CRC-24 bytes, all little-endian.
// Uncompressed format: bits 0..16 payload length, bit 17 self-contained flag.
// LZ4 format: bits 0..16 compressed length, bits 17..33 uncompressed length, bit 34 self-contained flag.
func SegmentHeader(compressedFormat bool, compressedLen, uncompressedLen int, selfContained bool) []byte {
	var v uint64
	n := 3
	if compressedFormat {
		n = 5
		v = uint64(compressedLen) | uint64(uncompressedLen)<<17
		if selfContained {
			v |= 1 << 34
		}
	} else {
		v = uint64(uncompressedLen)
		if selfContained {
			v |= 1 << 17
		}
	}
	out := make([]byte, 0, n+3)
	for i := 0; i < n; i++ {
		out = append(out, byte(v>>(8*uint(i))))
	}
	c := CRC24(out)
	return append(out, byte(c), byte(c>>8), byte(c>>16))
}

// Segment builds a whole segment around the payload as transmitted.
func Segment(compressedFormat bool, compressedLen, uncompressedLen int, selfContained bool, transmitted []byte) []byte {
	out := SegmentHeader(compressedFormat, compressedLen, uncompressedLen, selfContained)
	out = append(out, transmitted...)
	c := CRC32(transmitted)
	return append(out, byte(c), byte(c>>8), byte(c>>16), byte(c>>24))
}

// ParsedSegment is what an independent receiver reads from segment bytes.
type ParsedSegment struct {
	CompressedLen, UncompressedLen int // header fields as transmitted (uncompressed format: only UncompressedLen)
	SelfContained                  bool
	HeaderCRCOK, PayloadCRCOK      bool
	Transmitted                    []byte
	Total                          int // bytes consumed
}

// ParseSegment reads one segment the way the specification describes it.
func ParseSegment(b []byte, compressedFormat bool) (*ParsedSegment, error) {
	n := 3
	if compressedFormat {
		n = 5
	}
	if len(b) < n+3 {
		return nil, errors.New("segment ref: short header")
	}
	var v uint64
	for i := 0; i < n; i++ {
		v |= uint64(b[i]) << (8 * uint(i))
	}
	p := &ParsedSegment{}
	got := uint32(b[n]) | uint32(b[n+1])<<8 | uint32(b[n+2])<<16
	p.HeaderCRCOK = got == CRC24(b[:n])
	var plen int
	if compressedFormat {
		p.CompressedLen = int(v & 0x1FFFF)
		p.UncompressedLen = int(v >> 17 & 0x1FFFF)
		p.SelfContained = v>>34&1 == 1
		plen = p.CompressedLen
	} else {
		p.UncompressedLen = int(v & 0x1FFFF)
		p.SelfContained = v>>17&1 == 1
		plen = p.UncompressedLen
	}
	if len(b) < n+3+plen+4 {
		return nil, errors.New("segment ref: short payload")
	}
	p.Transmitted = b[n+3 : n+3+plen]
	t := b[n+3+plen:]
	gotc := uint32(t[0]) | uint32(t[1])<<8 | uint32(t[2])<<16 | uint32(t[3])<<24
	p.PayloadCRCOK = gotc == CRC32(p.Transmitted)
	p.Total = n + 3 + plen + 4
	return p, nil
}
