package ref

import (
	"bytes"
	"encoding/binary"
	"fmt"
	"net"
)

// Annot marks a field of an encoding so that structure-aware mutators (C04) can aim at it.
type Annot struct {
	Off, Width int
	Kind       string // "length" | "count" | "code" | "flags" | "int" | "string" | "bytes"
}

// Part is either a fixed byte run or an unordered group of entries (one per wire map: the specification gives map
// entries no order, so any permutation of the entries is a conforming encoding).
type Part struct {
	Fixed   []byte
	Entries [][]byte // non-nil for a group
	IsGroup bool
}

// Encoding is the reference encoding of a frame or message.
type Encoding struct {
	Parts  []Part
	annots []Annot // offsets relative to Flat()
}

// W builds an Encoding.
type W struct {
	enc     Encoding
	cur     bytes.Buffer // current fixed run or current entry
	inGroup bool
	entries [][]byte
	flatOff int // bytes already flushed
}

func (w *W) off() int { return w.flatOff + w.cur.Len() }

func (w *W) annot(width int, kind string) {
	w.enc.annots = append(w.enc.annots, Annot{Off: w.off(), Width: width, Kind: kind})
}

func (w *W) flushFixed() {
	if w.cur.Len() > 0 {
		b := append([]byte{}, w.cur.Bytes()...)
		w.enc.Parts = append(w.enc.Parts, Part{Fixed: b})
		w.flatOff += len(b)
		w.cur.Reset()
	}
}

// BeginGroup starts an unordered group; every entry is written between BeginEntry/EndEntry.
func (w *W) BeginGroup() {
	w.flushFixed()
	w.inGroup = true
	w.entries = [][]byte{}
}

func (w *W) EndEntry() {
	b := append([]byte{}, w.cur.Bytes()...)
	w.entries = append(w.entries, b)
	w.flatOff += len(b)
	w.cur.Reset()
}

func (w *W) EndGroup() {
	w.enc.Parts = append(w.enc.Parts, Part{Entries: w.entries, IsGroup: true})
	w.inGroup = false
	w.entries = nil
}

func (w *W) Done() *Encoding {
	w.flushFixed()
	e := w.enc
	return &e
}

func (w *W) Raw(b []byte) { w.cur.Write(b) }

func (w *W) Byte(b byte, kind string) {
	w.annot(1, kind)
	w.cur.WriteByte(b)
}

func (w *W) Short(v uint16, kind string) {
	w.annot(2, kind)
	var b [2]byte
	binary.BigEndian.PutUint16(b[:], v)
	w.cur.Write(b[:])
}

func (w *W) Int(v int32, kind string) {
	w.annot(4, kind)
	var b [4]byte
	binary.BigEndian.PutUint32(b[:], uint32(v))
	w.cur.Write(b[:])
}

func (w *W) Long(v int64) {
	w.annot(8, "int")
	var b [8]byte
	binary.BigEndian.PutUint64(b[:], uint64(v))
	w.cur.Write(b[:])
}

// String: [string] = [short] n + n bytes.
func (w *W) String(s string) {
	w.Short(uint16(len(s)), "length")
	w.annot(len(s), "string")
	w.cur.WriteString(s)
}

// LongString: [long string] = [int] n + n bytes.
func (w *W) LongString(s string) {
	w.Int(int32(len(s)), "length")
	w.annot(len(s), "string")
	w.cur.WriteString(s)
}

// Bytes: [bytes] = [int] n + n bytes, n < 0 for null.
func (w *W) Bytes(b []byte) {
	if b == nil {
		w.Int(-1, "length")
		return
	}
	w.Int(int32(len(b)), "length")
	w.annot(len(b), "bytes")
	w.cur.Write(b)
}

// ShortBytes: [short bytes] = [short] n + n bytes.
func (w *W) ShortBytes(b []byte) {
	w.Short(uint16(len(b)), "length")
	w.annot(len(b), "bytes")
	w.cur.Write(b)
}

func (w *W) StringList(l []string) {
	w.Short(uint16(len(l)), "count")
	for _, s := range l {
		w.String(s)
	}
}

// InetAddr: [inetaddr] = one byte n (4 or 16) + n bytes.
func (w *W) InetAddr(ip net.IP) error {
	if v4 := ip.To4(); v4 != nil {
		w.Byte(4, "length")
		w.cur.Write(v4)
		return nil
	}
	if len(ip) == 16 {
		w.Byte(16, "length")
		w.cur.Write(ip)
		return nil
	}
	return fmt.Errorf("ref: not an IP address: %v", []byte(ip))
}

// Inet: [inet] = [inetaddr] + [int] port.
func (w *W) Inet(ip net.IP, port int32) error {
	if err := w.InetAddr(ip); err != nil {
		return err
	}
	w.Int(port, "int")
	return nil
}

// Flat serialises with the groups' entries in the order given by perm (nil: insertion order). perm is consumed one
// value per group: it is used as a rotation + optional reversal, enough to exercise order independence.
func (e *Encoding) Flat(perm []int) []byte {
	var out []byte
	g := 0
	for _, p := range e.Parts {
		if !p.IsGroup {
			out = append(out, p.Fixed...)
			continue
		}
		n := len(p.Entries)
		order := make([]int, n)
		for i := range order {
			order[i] = i
		}
		if n > 1 && g < len(perm) {
			k := perm[g]
			rot := ((k/2)%n + n) % n
			for i := range order {
				order[i] = (i + rot) % n
			}
			if k%2 == 1 {
				for i, j := 0, n-1; i < j; i, j = i+1, j-1 {
					order[i], order[j] = order[j], order[i]
				}
			}
		}
		g++
		for _, i := range order {
			out = append(out, p.Entries[i]...)
		}
	}
	return out
}

// Annots returns the annotations, valid for Flat(nil).
func (e *Encoding) Annots() []Annot { return e.annots }

// Groups returns the number of unordered groups.
func (e *Encoding) Groups() int {
	n := 0
	for _, p := range e.Parts {
		if p.IsGroup {
			n++
		}
	}
	return n
}

// Match compares lib with the reference encoding byte for byte, modulo the order of entries inside each group.
// It returns "" on agreement, else a description of the first disagreement.
func (e *Encoding) Match(lib []byte) string {
	pos := 0
	for pi, p := range e.Parts {
		if !p.IsGroup {
			if pos+len(p.Fixed) > len(lib) {
				return fmt.Sprintf("library output is %d bytes, the specification requires at least %d (part %d)", len(lib), pos+len(p.Fixed), pi)
			}
			if !bytes.Equal(lib[pos:pos+len(p.Fixed)], p.Fixed) {
				i := 0
				for i < len(p.Fixed) && lib[pos+i] == p.Fixed[i] {
					i++
				}
				return fmt.Sprintf("byte %d differs: library %s, specification %s", pos+i, hexAround(lib, pos+i), hexAround(append(append([]byte{}, lib[:pos]...), p.Fixed...), pos+i))
			}
			pos += len(p.Fixed)
			continue
		}
		used := make([]bool, len(p.Entries))
		for range p.Entries {
			found := false
			for i, en := range p.Entries {
				if used[i] || pos+len(en) > len(lib) || !bytes.Equal(lib[pos:pos+len(en)], en) {
					continue
				}
				used[i] = true
				pos += len(en)
				found = true
				break
			}
			if !found {
				return fmt.Sprintf("at byte %d no remaining map entry of the reference encoding matches: library %s", pos, hexAround(lib, pos))
			}
		}
	}
	if pos != len(lib) {
		return fmt.Sprintf("library output has %d extra bytes after the %d the specification prescribes: %s", len(lib)-pos, pos, hexAround(lib, pos))
	}
	return ""
}

func hexAround(b []byte, i int) string {
	lo, hi := i-6, i+10
	if lo < 0 {
		lo = 0
	}
	if hi > len(b) {
		hi = len(b)
	}
	if i > len(b) {
		i = len(b)
	}
	return fmt.Sprintf("..%x[%x]..", b[lo:i], b[i:hi])
}
